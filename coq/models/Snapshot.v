(* C32 -- model of overlord/snapshotstate/backend: import unpacking (backend.go: unpackVerifySnapshotImport,
   writeOneSnapshotFile) and restore (reader.go: Reader.Restore, moveFile; restorestate.go: RestoreState.Revert,
   Cleanup). No proofs here.

   IMPORT. A tar stream is a list of members (name, kind). Names are byte strings; the checks of the Go code are
   reproduced on the bytes: typeflag directory -> error; strings.Contains(name, `../`) -> error; content.json /
   export.json are consumed; strings.SplitN(name, `_`, 2); target = path.Join(SnapshotsDir, `<id>_<rest>`), with
   path.Clean modelled on component lists (SnapshotsDir is an absolute clean path given as its components).
   writeOneSnapshotFile = open(O_CREATE|O_RDWR) on exactly that path: it fails without side effect when the path
   is a directory or its parent directory does not exist; import itself never creates directories or links.

   RESTORE. One snapshot entry (archive.tgz or user/<name>.tgz) restores into one parent directory (the
   directory that holds `common` and the revision directories). Names inside a parent are numbers: real names are
   EVEN (0 = common), the backup name restoreStateFilename(n) = n.~<9 random chars>~ is n+1 (odd), assumed fresh;
   restoreState2orig is m |-> m-1. Trees are opaque identifiers (ideal digests). The external tar is an ORACLE:
   any set of top-level trees may appear in the temporary directory and it may fail; size / digest comparison is a
   boolean. ANY fallible step can be made to fail by the counter [f] (the step fails when the counter is 0).
   The flat Created / Moved lists of RestoreState hold absolute paths; entries restore into pairwise distinct
   parents, so the lists are kept per parent here (RemoveAll / Rename under distinct parents commute). *)
From Coq Require Import List NArith Bool Arith.
Import ListNotations.
Require Import V.lib.Bytes.
Open Scope N_scope.

(* ================================================================ import *)

Definition c_slash : N := 47.
Definition c_under : N := 95.
Definition s_dot : bytes := [46].
Definition s_dotdot : bytes := [46; 46].
Definition s_dotdotslash : bytes := [46; 46; 47].
Definition s_content_json : bytes := [99;111;110;116;101;110;116;46;106;115;111;110].
Definition s_export_json : bytes := [101;120;112;111;114;116;46;106;115;111;110].

(* strings.Split(s, c) *)
Fixpoint split_on (c : N) (s : bytes) : list bytes :=
  match s with
  | [] => [[]]
  | x :: r =>
      if x =? c then [] :: split_on c r
      else match split_on c r with
           | h :: t => (x :: h) :: t
           | [] => [[x]]
           end
  end.

(* strings.Contains(s, p) *)
Fixpoint contains (p s : bytes) : bool :=
  has_prefix p s || match s with [] => false | _ :: r => contains p r end.

(* strings.SplitN(s, c, 2): None when c does not occur *)
Fixpoint cut_first (c : N) (s : bytes) : option (bytes * bytes) :=
  match s with
  | [] => None
  | x :: r =>
      if x =? c then Some ([], r)
      else match cut_first c r with
           | Some (a, b) => Some (x :: a, b)
           | None => None
           end
  end.

(* path.Clean of a rooted path, on components; [stack] is the reversed list of components kept so far *)
Fixpoint clean_comps (stack : list bytes) (comps : list bytes) : list bytes :=
  match comps with
  | [] => rev stack
  | c :: r =>
      if is_nil_b c || beq c s_dot then clean_comps stack r
      else if beq c s_dotdot then clean_comps (tl stack) r
      else clean_comps (c :: stack) r
  end.

(* path.Join(SnapshotsDir, fmt.Sprintf(`%d_%s`, id, rest)) as components; [idb] = decimal digits of the set id *)
Definition import_target (sdir : list bytes) (idb rest : bytes) : list bytes :=
  clean_comps (rev sdir) (split_on c_slash (idb ++ c_under :: rest)).

Inductive mkind := MFile | MDir | MTarErr.   (* MTarErr: tar.Reader.Next fails here (truncated / malformed stream) *)
(* m_valid: backendOpen + Reader.Check accept the file written for this member (an ORACLE here: Open/Check on a zip) *)
Record member := { m_name : bytes; m_kind : mkind; m_body : bytes; m_valid : bool }.

Fixpoint list_beq (a b : list bytes) : bool :=
  match a, b with
  | [], [] => true
  | x :: a', y :: b' => beq x y && list_beq a' b'
  | _, _ => false
  end.

(* open(O_CREATE) succeeds: not the snapshots directory itself, not an existing directory, parent directory exists.
   [dirs] = directories existing below the snapshots directory (absolute component lists). *)
Definition can_create (sdir : list bytes) (dirs : list (list bytes)) (tgt : list bytes) : bool :=
  negb (list_beq tgt sdir) && negb (existsb (list_beq tgt) dirs) &&
  (let parent := removelast tgt in list_beq parent sdir || existsb (list_beq parent) dirs).

(* unpackVerifySnapshotImport: the paths on which writeOneSnapshotFile created or wrote a file, in order, and
   whether the import succeeded *)
Fixpoint import_run (sdir : list bytes) (idb : bytes) (dirs : list (list bytes)) (ms : list member)
  (export_found : bool) : list (list bytes) * bool :=
  match ms with
  | [] => ([], export_found)
  | m :: r =>
      match m_kind m with
      | MTarErr | MDir => ([], false)
      | MFile =>
          if contains s_dotdotslash (m_name m) then ([], false)
          else if beq (m_name m) s_content_json then import_run sdir idb dirs r export_found
          else if beq (m_name m) s_export_json then import_run sdir idb dirs r true
          else match cut_first c_under (m_name m) with
               | None => ([], false)
               | Some (_, rest) =>
                   let tgt := import_target sdir idb rest in
                   if can_create sdir dirs tgt
                   then if m_valid m
                        then let (w, ok) := import_run sdir idb dirs r export_found in (tgt :: w, ok)
                        else ([tgt], false)          (* written, then Open / Check fail: the import stops *)
                   else ([], false)
               end
      end
  end.

(* a path is strictly below the snapshots directory: sdir ++ rel, rel non-empty, no component of rel is empty, `.` or `..` *)
Definition plain_comp (c : bytes) : bool := negb (is_nil_b c) && negb (beq c s_dot) && negb (beq c s_dotdot).
Fixpoint strip_prefix (p l : list bytes) : option (list bytes) :=
  match p, l with
  | [], _ => Some l
  | x :: p', y :: l' => if beq x y then strip_prefix p' l' else None
  | _, [] => None
  end.
Definition strictly_below (sdir tgt : list bytes) : bool :=
  match strip_prefix sdir tgt with
  | Some (c :: rel) => forallb plain_comp (c :: rel)
  | _ => false
  end.

(* The same loop with file CONTENTS. writeOneSnapshotFile opens with O_CREATE|O_RDWR -- no O_TRUNC -- and copies the
   member body from offset 0: an existing file (left by an earlier member with the same target, or already in the
   directory) is overwritten from the start and keeps its tail when it was longer. [fs]: path -> content of the regular
   files in the snapshots directory (latest binding first). Output: (path, content after the write) per write. *)
Definition overlay (old data : bytes) : bytes := data ++ skipn (length data) old.

Fixpoint path_lookup (p : list bytes) (fs : list (list bytes * bytes)) : option bytes :=
  match fs with
  | [] => None
  | (q, c) :: r => if list_beq q p then Some c else path_lookup p r
  end.

Fixpoint import_writes (sdir : list bytes) (idb : bytes) (dirs : list (list bytes)) (fs : list (list bytes * bytes))
  (ms : list member) (export_found : bool) : list (list bytes * bytes) * bool :=
  match ms with
  | [] => ([], export_found)
  | m :: r =>
      match m_kind m with
      | MTarErr | MDir => ([], false)
      | MFile =>
          if contains s_dotdotslash (m_name m) then ([], false)
          else if beq (m_name m) s_content_json then import_writes sdir idb dirs fs r export_found
          else if beq (m_name m) s_export_json then import_writes sdir idb dirs fs r true
          else match cut_first c_under (m_name m) with
               | None => ([], false)
               | Some (_, rest) =>
                   let tgt := import_target sdir idb rest in
                   if can_create sdir dirs tgt
                   then let old := match path_lookup tgt fs with Some c => c | None => [] end in
                        let c := overlay old (m_body m) in
                        if m_valid m
                        then let (w, ok) := import_writes sdir idb dirs ((tgt, c) :: fs) r export_found in
                             ((tgt, c) :: w, ok)
                        else ([(tgt, c)], false)
                   else ([], false)
               end
      end
  end.

(* Import as a whole: tr.Start() creates the lock file <id>_importing; on success tr.Commit() removes it; on ANY error
   the deferred tr.Cancel() removes every file matching the glob <id>_*.zip directly in the snapshots directory, then
   the lock. [import_final] = the regular files below the snapshots directory afterwards (latest binding first). *)
Fixpoint has_suffix (suf l : bytes) : bool :=
  beq suf l || match l with [] => false | _ :: r => has_suffix suf r end.
Definition s_zip : bytes := [46;122;105;112].
Definition s_importing : bytes := [105;109;112;111;114;116;105;110;103].
(* filepath.Match(`<id>_*.zip`, n) *)
Definition glob_id_zip (idb n : bytes) : bool :=
  has_prefix (idb ++ [c_under]) n && has_suffix s_zip (skipn (length idb + 1) n).

Definition import_final (sdir : list bytes) (idb : bytes) (dirs : list (list bytes)) (fs : list (list bytes * bytes))
  (ms : list member) : list (list bytes * bytes) * bool :=
  let (w, ok) := import_writes sdir idb dirs fs ms false in
  let fs1 := rev w ++ fs in
  let lock := sdir ++ [idb ++ c_under :: s_importing] in
  let fs2 := filter (fun pc => negb (list_beq (fst pc) lock)) fs1 in
  if ok then (fs2, true)
  else (filter (fun pc => negb (match strip_prefix sdir (fst pc) with
                                | Some [n] => glob_id_zip idb n
                                | _ => false
                                end)) fs2, false).

(* SnapshotExport.StreamTo: content.json, one member per snapshot file (named by its base name), export.json *)
Definition export_members (files : list (bytes * bytes)) : list member :=
  {| m_name := s_content_json; m_kind := MFile; m_body := []; m_valid := true |} ::
  map (fun nc => {| m_name := fst nc; m_kind := MFile; m_body := snd nc; m_valid := true |}) files ++
  [{| m_name := s_export_json; m_kind := MFile; m_body := []; m_valid := true |}].

(* ================================================================ restore *)

Definition name := N.
Definition tree := N.
Definition dir := list (name * tree).

Fixpoint lookup (n : name) (d : dir) : option tree :=
  match d with
  | [] => None
  | (k, t) :: r => if k =? n then Some t else lookup n r
  end.
Definition remove (n : name) (d : dir) : dir := filter (fun kv => negb (fst kv =? n)) d.
Definition set (n : name) (t : tree) (d : dir) : dir := (n, t) :: remove n d.

Definition common : name := 0.
Definition bk (n : name) : name := n + 1.          (* restoreStateFilename *)
Definition orig (m : name) : name := m - 1.        (* restoreState2orig *)

Definition pstate := option dir.                   (* None: the parent directory does not exist *)

Record rlog := { l_parent : bool; l_created : list name; l_moved : list name }.
Definition empty_log := {| l_parent := false; l_created := []; l_moved := [] |}.
Definition add_created (lg : rlog) (n : name) :=
  {| l_parent := l_parent lg; l_created := l_created lg ++ [n]; l_moved := l_moved lg |}.
Definition add_moved (lg : rlog) (n : name) :=
  {| l_parent := l_parent lg; l_created := l_created lg; l_moved := l_moved lg ++ [n] |}.

Definition tick (f : nat) : option nat := match f with O => None | S f' => Some f' end.

(* moveFile(rs, file, tempdir, parent) *)
Definition move_file (d : dir) (lg : rlog) (tmp : dir) (file : name) (f : nat) : dir * rlog * bool * nat :=
  match tick f with None => (d, lg, false, O) | Some f1 =>                    (* DirExists(src) *)
  match lookup file tmp with
  | None => (d, lg, true, f1)
  | Some t =>
    match tick f1 with None => (d, lg, false, O) | Some f2 =>                 (* DirExists(dst) *)
    match lookup file d with
    | Some old =>
        match tick f2 with None => (d, lg, false, O) | Some f3 =>             (* Rename(dst, rsfn) *)
        let d1 := set (bk file) old (remove file d) in
        let lg1 := add_moved lg (bk file) in
        match tick f3 with None => (d1, lg1, false, O) | Some f4 =>           (* Rename(src, dst) *)
        (set file t d1, add_created lg1 file, true, f4)
        end end
    | None =>
        match tick f2 with None => (d, lg, false, O) | Some f3 =>             (* Rename(src, dst) *)
        (set file t d, add_created lg file, true, f3)
        end
    end end
  end end.

Record rentry := {
  e_rev : name;              (* the revision directory name recorded in the snapshot *)
  e_extract_ok : bool;       (* tar exits 0 *)
  e_extracted : dir;         (* top-level content of the temporary directory after tar *)
  e_digest_ok : bool         (* size and SHA3-384 of the streamed archive match the recorded ones *)
}.

(* one iteration of the loop of Reader.Restore, from os.MkdirTemp on: [d] is the content of the (existing) parent
   directory, [lg] what has been logged so far for it *)
Definition restore_in (cur : option name) (d : dir) (lg : rlog) (e : rentry) (f2 : nat) : pstate * rlog * bool * nat :=
  match tick f2 with None => (Some d, lg, false, O) | Some f3 =>              (* MkdirTemp, chown, zipMember *)
  match tick f3 with None => (Some d, lg, false, O) | Some f4 =>              (* tar *)
  if negb (e_extract_ok e) then (Some d, lg, false, O) else
  if negb (e_digest_ok e) then (Some d, lg, false, O) else                    (* size / hash comparison *)
  let tmp := e_extracted e in
  let r5 := match cur with
            | Some c =>
                if c =? e_rev e then Some (tmp, e_rev e, f4)
                else match tick f4 with                                       (* Rename(tempdir/rev, tempdir/cur) *)
                     | None => None
                     | Some f5 =>
                         match lookup (e_rev e) tmp, lookup c tmp with
                         | Some t, None => Some (set c t (remove (e_rev e) tmp), c, f5)
                         | _, _ => None
                         end
                     end
            | None => Some (tmp, e_rev e, f4)
            end in
  match r5 with None => (Some d, lg, false, O) | Some (tmp5, revdir, f5) =>
  let '(d6, lg6, ok6, f6) := move_file d lg tmp5 common f5 in
  if negb ok6 then (Some d6, lg6, false, O) else
  let '(d7, lg7, ok7, f7) := move_file d6 lg6 tmp5 revdir f6 in
  (Some d7, lg7, ok7, f7)
  end end end.

(* one iteration of the loop of Reader.Restore *)
Definition restore_one (cur : option name) (st : pstate) (e : rentry) (f : nat) : pstate * rlog * bool * nat :=
  match tick f with None => (st, empty_log, false, O) | Some f1 =>            (* DirExists(parent) *)
  match st with
  | Some d => restore_in cur d empty_log e f1
  | None =>
      match tick f1 with                                                      (* MkdirAllChown(parent) *)
      | None => (st, empty_log, false, O)
      | Some f2 => restore_in cur [] {| l_parent := true; l_created := []; l_moved := [] |} e f2
      end
  end end.

(* RestoreState.Revert on one parent *)
Definition rename_back (d : dir) (m : name) : dir :=
  match lookup m d, lookup (orig m) d with
  | Some t, None => set (orig m) t (remove m d)
  | _, _ => d
  end.
Definition revert_one (sl : pstate * rlog) : pstate :=
  let (st, lg) := sl in
  if l_parent lg then None                         (* RemoveAll(parent): the rest are no-ops *)
  else match st with
       | None => None
       | Some d => Some (fold_left rename_back (l_moved lg) (fold_left (fun d n => remove n d) (l_created lg) d))
       end.

(* RestoreState.Cleanup on one parent *)
Definition cleanup_one (sl : pstate * rlog) : pstate :=
  let (st, lg) := sl in
  match st with
  | None => None
  | Some d => Some (fold_left (fun d n => remove n d) (l_moved lg) d)
  end.

(* the loop over the entries; each entry comes with the state of its own parent directory *)
Fixpoint restore_all (cur : option name) (es : list (pstate * rentry)) (f : nat) : list (pstate * rlog) * bool :=
  match es with
  | [] => ([], true)
  | (st, e) :: r =>
      let '(st', lg, ok, f') := restore_one cur st e f in
      if ok then let (rest, ok') := restore_all cur r f' in ((st', lg) :: rest, ok')
      else ((st', lg) :: map (fun se => (fst se, empty_log)) r, false)
  end.

Inductive after := ANone | ACleanup | ARevert.

(* Reader.Restore (reverts itself on error), followed on success by nothing / Cleanup / Revert *)
Definition restore (cur : option name) (es : list (pstate * rentry)) (f : nat) (a : after) : bool * list pstate :=
  let (res, ok) := restore_all cur es f in
  if ok then (true, match a with
                    | ANone => map fst res
                    | ACleanup => map cleanup_one res
                    | ARevert => map revert_one res
                    end)
  else (false, map revert_one res).

(* pointwise equality of directory states (as finite maps) *)
Definition names_of (d : dir) : list name := map fst d.
Definition dir_eqb (a b : dir) : bool :=
  forallb (fun n => match lookup n a, lookup n b with
                    | Some x, Some y => x =? y
                    | None, None => true
                    | _, _ => false
                    end) (names_of a ++ names_of b).
Definition pstate_eqb (a b : pstate) : bool :=
  match a, b with
  | None, None => true
  | Some x, Some y => dir_eqb x y
  | _, _ => false
  end.
Fixpoint pstates_eqb (a b : list pstate) : bool :=
  match a, b with
  | [], [] => true
  | x :: a', y :: b' => pstate_eqb x y && pstates_eqb a' b'
  | _, _ => false
  end.

(* ================================================================ Reader.Check *)

(* one entry of the SHA3_384 map of the snapshot with what the zip file holds for it. Contents are opaque identifiers
   (ideal digest: equal digests <-> equal contents). *)
Record zentry := {
  z_user : option bytes;   (* Some u: the entry is user/<u>.tgz; None: any other entry (archive.tgz) *)
  z_present : bool;        (* zipMember finds the member *)
  z_read_ok : bool;        (* reading it to the end gives no error *)
  z_reported : N;          (* size in the zip header *)
  z_read : N;              (* bytes actually read *)
  z_actual : N;            (* the content read *)
  z_recorded : N           (* the content whose SHA3-384 is recorded for the entry *)
}.

(* Reader.checkOne *)
Definition check_one (z : zentry) : bool :=
  z_present z && z_read_ok z && (z_read z =? z_reported z) && (z_actual z =? z_recorded z).

(* the entry is looked at: not (len(usernames) > 0 && isUserArchive(entry) && username not in usernames) *)
Definition selected (users : list bytes) (z : zentry) : bool :=
  match z_user z with
  | Some u => is_nil_b users || existsb (beq u) users
  | None => true
  end.

(* Reader.Check: nil error? (the map order does not matter: the first failing entry ends the loop) *)
Definition check (users : list bytes) (zs : list zentry) : bool :=
  forallb (fun z => negb (selected users z) || check_one z) zs.

(* well-formedness assumed by the theorems: real names are even (backup names are odd, hence fresh), revision
   directory names are not `common` *)
Definition even_name (n : name) : bool := N.even n.
Definition wf_name (n : name) : bool := even_name n && negb (n =? common).
Definition wf_pstate (st : pstate) : bool :=
  match st with None => true | Some d => forallb (fun kv => even_name (fst kv)) d end.
Definition wf_case (cur : option name) (es : list (pstate * rentry)) : bool :=
  match cur with Some c => wf_name c | None => true end &&
  forallb (fun se => wf_pstate (fst se) && wf_name (e_rev (snd se))) es.

(* ================================================================ correspondence interface *)

Inductive case :=
| ImportCase (sdir : list bytes) (idb : bytes) (dirs : list (list bytes)) (files : list (list bytes * bytes))
             (ms : list member)
             (obs_written : list (list bytes * bytes)) (obs_ok : bool) (obs_outside_unchanged : bool)
             (obs_final : list (list bytes * bytes))     (* regular files below the snapshots directory afterwards *)
| RoundTripCase (sdir : list bytes) (ida idb : bytes) (files : list (bytes * bytes))   (* (rest, content) of <ida>_<rest> *)
             (obs_stream : list member)                       (* the members of the stream SnapshotExport.StreamTo produced *)
             (obs_written : list (list bytes * bytes)) (obs_ok : bool) (obs_final : list (list bytes * bytes))
| RestoreCase (cur : option name) (es : list (pstate * rentry)) (a : after)
              (obs_ok : bool) (obs_final : list pstate)
              (users : list bytes) (zs : list zentry) (obs_check_ok : bool).

Definition opt_bytes_eqb (a b : option bytes) : bool :=
  match a, b with
  | Some x, Some y => beq x y
  | None, None => true
  | _, _ => false
  end.

Fixpoint writes_eqb (a b : list (list bytes * bytes)) : bool :=
  match a, b with
  | [], [] => true
  | (p, c) :: a', (q, d) :: b' => list_beq p q && beq c d && writes_eqb a' b'
  | _, _ => false
  end.

(* equality of two file listings as finite maps (latest binding first) *)
Definition fs_eqb (a b : list (list bytes * bytes)) : bool :=
  forallb (fun p => opt_bytes_eqb (path_lookup p a) (path_lookup p b)) (map fst a ++ map fst b).

(* the exported stream has the members of the model, in order (the bodies of the two json members are not compared) *)
Fixpoint members_match (a b : list member) : bool :=
  match a, b with
  | [], [] => true
  | x :: a', y :: b' =>
      beq (m_name x) (m_name y) &&
      match m_kind x, m_kind y with MFile, MFile => true | _, _ => false end &&
      (beq (m_name x) s_content_json || beq (m_name x) s_export_json || beq (m_body x) (m_body y)) &&
      members_match a' b'
  | _, _ => false
  end.

Definition big_fuel : nat := 1000.     (* no injected failure: the real run has at most 12 fallible steps per entry *)

Definition mismatch (c : case) : bool :=
  match c with
  | ImportCase sdir idb dirs files ms ow ook _ ofinal =>
      let (w, ok) := import_writes sdir idb dirs files ms false in
      negb (writes_eqb w ow && Bool.eqb ok ook && fs_eqb (fst (import_final sdir idb dirs files ms)) ofinal)
  | RoundTripCase sdir ida idb files ostream ow ook ofinal =>
      let afiles := map (fun rc => (sdir ++ [ida ++ c_under :: fst rc], snd rc)) files in
      let (w, ok) := import_writes sdir idb [] afiles ostream false in
      negb (members_match ostream (export_members (map (fun rc => (ida ++ c_under :: fst rc, snd rc)) files)) &&
            writes_eqb w ow && Bool.eqb ok ook && fs_eqb (fst (import_final sdir idb [] afiles ostream)) ofinal)
  | RestoreCase cur es a ook ofinal users zs ocheck =>
      let (ok, final) := restore cur es big_fuel a in
      negb (Bool.eqb ok ook && pstates_eqb final ofinal && Bool.eqb (check users zs) ocheck)
  end.

(* expected content of name n in a parent after a successful restore of entry e (before Cleanup) *)
Definition expected_after (cur : option name) (init : pstate) (e : rentry) (n : name) : option tree :=
  let revdir := match cur with Some c => c | None => e_rev e end in
  let old := match init with Some d => lookup n d | None => None end in
  if n =? common then match lookup common (e_extracted e) with Some t => Some t | None => old end
  else if n =? revdir then match lookup (e_rev e) (e_extracted e) with Some t => Some t | None => old end
  else old.

(* ... and of the backup names: the tree that was moved aside, when something was moved *)
Definition init_lookup (init : pstate) (n : name) : option tree :=
  match init with Some d => lookup n d | None => None end.
Definition expected_backup (cur : option name) (init : pstate) (e : rentry) (n : name) : option tree :=
  let revdir := match cur with Some c => c | None => e_rev e end in
  if n =? bk common then match lookup common (e_extracted e) with Some _ => init_lookup init common | None => None end
  else if n =? bk revdir then match lookup (e_rev e) (e_extracted e) with Some _ => init_lookup init revdir | None => None end
  else None.
(* the complete expected content of a parent after a successful restore, then nothing (ANone) or Cleanup *)
Definition expected_lookup (cur : option name) (a : after) (init : pstate) (e : rentry) (n : name) : option tree :=
  if N.even n then expected_after cur init e n
  else match a with ACleanup => None | _ => expected_backup cur init e n end.

Definition opt_tree_eqb (a b : option tree) : bool :=
  match a, b with
  | Some x, Some y => x =? y
  | None, None => true
  | _, _ => false
  end.

(* the final directory equals the expected content on every name that occurs anywhere (hence on every name) *)
Definition success_ok (cur : option name) (a : after) (se : pstate * rentry) (fin : pstate) : bool :=
  let (init, e) := se in
  match fin with
  | None => false
  | Some d =>
      let revdir := match cur with Some c => c | None => e_rev e end in
      let names := common :: revdir :: bk common :: bk revdir :: names_of d ++
                   match init with Some d0 => names_of d0 | None => [] end in
      forallb (fun n => opt_tree_eqb (lookup n d) (expected_lookup cur a init e n)) names
  end.

Fixpoint success_all (cur : option name) (a : after) (es : list (pstate * rentry)) (fin : list pstate) : bool :=
  match es, fin with
  | [], [] => true
  | se :: es', p :: fin' => success_ok cur a se p && success_all cur a es' fin'
  | _, _ => false
  end.

(* the property's conclusion on the implementation's observed behaviour (independent of the model functions
   import_run / restore): import: every written path is strictly below the snapshots directory and nothing outside
   it changed; restore: failure, or Revert after success, leaves every parent exactly as before; success reproduces the
   extracted trees and leaves everything else alone *)
Definition monitor_fail (c : case) : bool :=
  match c with
  | ImportCase sdir idb dirs files ms ow ook unchanged ofinal =>
      negb (forallb (strictly_below sdir) (map fst ow) && unchanged) ||
      (* a failed import leaves no <id>_*.zip file in the snapshots directory: nothing is committed *)
      (negb ook && existsb (fun pc => match strip_prefix sdir (fst pc) with
                                      | Some [n] => glob_id_zip idb n
                                      | _ => false
                                      end) ofinal)
  | RoundTripCase sdir ida idb files ostream ow ook ofinal =>
      (* the round trip reproduces every exported file under the new id, and the exported files are still there *)
      negb (ook &&
            forallb (fun rc => opt_bytes_eqb (path_lookup (sdir ++ [idb ++ c_under :: fst rc]) ofinal) (Some (snd rc)) &&
                               opt_bytes_eqb (path_lookup (sdir ++ [ida ++ c_under :: fst rc]) ofinal) (Some (snd rc))) files &&
            forallb (strictly_below sdir) (map fst ow))
  | RestoreCase cur es a ook ofinal users zs ocheck =>
      (if negb ook then negb (pstates_eqb ofinal (map fst es))
       else match a with
            | ARevert => negb (pstates_eqb ofinal (map fst es))
            | _ => negb (success_all cur a es ofinal)
            end)
      (* Check succeeds iff every entry it looks at is present, readable, of the reported size and of the recorded digest *)
      || negb (Bool.eqb ocheck
                 (forallb (fun z => negb (selected users z) ||
                                    (z_present z && z_read_ok z && (z_read z =? z_reported z) && (z_actual z =? z_recorded z))) zs))
  end.
