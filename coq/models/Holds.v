(* C15 — model of overlord/snapstate/autorefresh_gating.go (refresh holds): HoldRefresh, HoldRefreshesBySystem,
   ProceedWithRefresh, resetGatingForRefreshed (single snap, as at its only call site), HeldSnaps, holdDurationLeft,
   maxAllowedPostponement; the last-refresh time of a snap (SnapState.LastRefreshTime) and the clock (timeNow).
   No proofs in this file.

   Snaps are numbers; 0 is the reserved holder name system. Times are absolute nanoseconds (Z), durations are
   nanoseconds; time.Time.Sub saturates at the int64 range, time.Time.Add does not (Go's Time spans much more than
   int64 nanoseconds). The state key snaps-hold (held snap -> holding snap -> holdState) is a function
   held -> holder -> option hold; inner maps left empty by the Go code are not observable and not modelled. *)
From Coq Require Import List NArith ZArith Bool.
Import ListNotations.
Require Import V.gen.HoldConsts.
Open Scope Z_scope.

Definition max_int64 : Z := 9223372036854775807.
Definition min_int64 : Z := -9223372036854775808.
Definition clamp64 (z : Z) : Z := Z.max min_int64 (Z.min max_int64 z).
(* t.Sub(u) *)
Definition time_sub (t u : Z) : Z := clamp64 (t - u).

(* holdState *)
Record hold := mkHold { h_first : Z; h_until : Z; h_level : N }.
Definition gating := N -> N -> option hold.
Record state := mkState { st_gating : gating; st_lastref : N -> Z; st_now : Z }.

Definition system : N := 0%N.
Definition gset (gt : gating) (s g : N) (o : option hold) : gating :=
  fun s' g' => if (s' =? s)%N && (g' =? g)%N then o else gt s' g'.
Definition mem (x : N) (l : list N) : bool := existsb (N.eqb x) l.

(* maxPostponement - maxPostponementBuffer *)
Definition mp : Z := max_postponement - max_postponement_buffer.

(* maxAllowedPostponement *)
Definition max_allowed (g s : N) (mpv : Z) : Z := if (s =? g)%N then mpv else max_other_hold_duration.

(* holdDurationLeft *)
Definition hold_duration_left (now lr first maxdur mpv : Z) : Z :=
  let d1 := time_sub (first + maxdur) now in
  let d2 := time_sub (lr + mpv) now in
  if d1 <? d2 then d1 else d2.

(* accumulators of the loop of HoldRefresh: the gating map, the (mutated) holdDuration, durationMin, and whether
   herr.SnapsInError is non-empty *)
Record hacc := mkAcc { a_gt : gating; a_dur : Z; a_dmin : Z; a_err : bool }.

Definition upd_dmin (dmin left : Z) : Z := if (dmin =? 0) || (left <? dmin) then left else dmin.

(* one iteration of the loop over affectingSnaps *)
Definition hold_one (now : Z) (lr : N -> Z) (level g : N) (a : hacc) (s : N) : hacc :=
  let gt := a_gt a in
  let first := match gt s g with Some h => h_first h | None => now end in
  if (g =? system)%N then
    let dur := if a_dur a =? 0 then max_duration else a_dur a in
    mkAcc (gset gt s g (Some (mkHold first (now + dur) level))) dur (upd_dmin (a_dmin a) dur) (a_err a)
  else
    let maxdur := max_allowed g s mp in
    let left := hold_duration_left now (lr s) first maxdur mp in
    if left <=? 0 then mkAcc gt (a_dur a) (a_dmin a) true
    else if negb (a_dur a =? 0) && (maxdur <? a_dur a) then mkAcc gt (a_dur a) (a_dmin a) true
    else
      let dur := if a_dur a =? 0 then left else a_dur a in
      let newhold := now + dur in
      let cutoff := lr s + mp in
      let until := if newhold <? cutoff then newhold else cutoff in
      mkAcc (gset gt s g (Some (mkHold first until level))) (a_dur a) (upd_dmin (a_dmin a) left) (a_err a).

Definition hold_loop (now : Z) (lr : N -> Z) (level g : N) (snaps : list N) (a : hacc) : hacc :=
  fold_left (hold_one now lr level g) snaps a.

(* delete(gating[heldSnap], gatingSnap) for every affecting snap *)
Definition drop_holder (gt : gating) (g : N) (snaps : list N) : gating :=
  fun s g' => if (g' =? g)%N && mem s snaps then None else gt s g'.

(* HoldRefresh: the new map and the result (Some remaining duration | None = HoldError) *)
Definition hold_refresh (st : state) (level g : N) (dur : Z) (snaps : list N) : gating * option Z :=
  let a := hold_loop (st_now st) (st_lastref st) level g snaps (mkAcc (st_gating st) dur 0 false) in
  if a_err a then (drop_holder (a_gt a) g snaps, None) else (a_gt a, Some (a_dmin a)).

(* HoldRefreshesBySystem: None = forever, Some t = the parsed RFC3339 time; all snaps are installed. The zero duration
   means maximum to HoldRefresh, so a requested time equal to the current instant is turned into -1 ns (an already
   expired hold) *)
Definition sys_duration (now : Z) (t : option Z) : Z :=
  match t with
  | None => 0
  | Some u => let d := time_sub u now in if d =? 0 then -1 else d
  end.

(* ProceedWithRefresh: empty list = every snap held by g *)
Definition proceed (gt : gating) (g : N) (snaps : list N) : gating :=
  fun s g' => if (g' =? g)%N && (match snaps with [] => true | _ => mem s snaps end) then None else gt s g'.

(* resetGatingForRefreshed(st, s) / pruneHoldStatesForSnap: every holder but system is dropped *)
Definition reset (gt : gating) (s : N) : gating :=
  fun s' g => if (s' =? s)%N && negb (g =? system)%N then None else gt s' g.

(* what a gate-auto-refresh hook does through snapctl: `snapctl refresh --hold` / `snapctl refresh --proceed` *)
Inductive hookcmd := CmdHold | CmdProceed.

Inductive op :=
| Hook (g : N) (snaps : list N) (script : list hookcmd) (fails : bool)
    (* one run of the gate-auto-refresh hook of gating snap g, whose affecting snaps are snaps: the snapctl commands it
       issues and whether it exits non-zero. It is not a primitive operation: see hook_ops / hstep below. *)
| Hold (level g : N) (dur : Z) (snaps : list N)          (* HoldRefresh(st, level, g, dur, snaps...) *)
| SysHold (level : N) (t : option Z) (snaps : list N)    (* HoldRefreshesBySystem(st, level, forever | t, snaps) *)
| Proceed (g : N) (snaps : list N)                       (* ProceedWithRefresh(st, g, snaps) *)
| Reset (s : N)                                          (* resetGatingForRefreshed(st, s): s is about to be refreshed *)
| RefreshAccepted (snaps : list N)                       (* a refresh request (Update/UpdateMany/Revert ...) that was accepted:
                                                            doInstall calls resetGatingForRefreshed for every snap *)
| RefreshRefused (snaps done : list N)                   (* a refresh request for snaps that was refused (running apps, conflict, ...).
                                                            done: the snaps of the request for which doInstall had already
                                                            succeeded (and called resetGatingForRefreshed) when another snap of
                                                            the same request caused the refusal; always [] for a one-snap
                                                            request. No hold record SHOULD change: see the monitor. *)
| RefreshAll (auto : bool) (cands updated : list N)      (* a refresh of ALL snaps (UpdateMany without names; auto: with
                                                            Flags.IsAutoRefresh): cands have an update available, updated
                                                            are the snaps it went on with (observed; what they must be:
                                                            refresh_targets below); their hold records are dropped *)
| AutoFilter (cands selected : list N)                   (* auto-refresh phase 2 (snapsToRefresh): which candidates go on *)
| SetAllHold (v : option (option Z))                     (* the option core refresh.hold, set through the config: None = unset,
                                                            Some None = forever, Some (Some t) = an RFC3339 time *)
| SnapHoldsQuery (snaps sys : list N)                    (* SnapHolds(st, snaps): sys = the snaps reported as held by system *)
| GateQuery (held : bool)                                (* autoRefresh.isRefreshHeld(): is the auto-refresh not even launched *)
| Refreshed (s : N)                                      (* link-snap of a refresh: LastRefreshTime(s) := now *)
| Tick (d : N).                                          (* the clock advances *)

Definition op_result (st : state) (o : op) : option Z :=
  match o with
  | Hold level g dur snaps => snd (hold_refresh st level g dur snaps)
  | _ => Some 0     (* HoldRefreshesBySystem returns no duration; the other operations return nothing *)
  end.

Definition step (st : state) (o : op) : state :=
  match o with
  | Hold level g dur snaps => mkState (fst (hold_refresh st level g dur snaps)) (st_lastref st) (st_now st)
  | SysHold level t snaps =>
      mkState (fst (hold_refresh st level system (sys_duration (st_now st) t) snaps)) (st_lastref st) (st_now st)
  | Proceed g snaps => mkState (proceed (st_gating st) g snaps) (st_lastref st) (st_now st)
  | Reset s => mkState (reset (st_gating st) s) (st_lastref st) (st_now st)
  | RefreshAccepted snaps => mkState (fold_left reset snaps (st_gating st)) (st_lastref st) (st_now st)
  | RefreshRefused _ done => mkState (fold_left reset done (st_gating st)) (st_lastref st) (st_now st)
  | RefreshAll _ _ updated => mkState (fold_left reset updated (st_gating st)) (st_lastref st) (st_now st)
  | AutoFilter _ _ => st
  | SetAllHold _ => st        (* the option is not part of the hold table: see allhold_after below *)
  | SnapHoldsQuery _ _ => st
  | GateQuery _ => st
  | Refreshed s => mkState (st_gating st) (fun x => if (x =? s)%N then st_now st else st_lastref st x) (st_now st)
  | Tick d => mkState (st_gating st) (st_lastref st) (st_now st + Z.of_N d)
  | Hook _ _ _ _ => st      (* not primitive: histories with hooks are run with hstep / hrun *)
  end.

Definition run (st : state) (ops : list op) : state := fold_left step ops st.

(* ------------------------------------------------------------------ the gate-auto-refresh hook
   overlord/hookstate/ctlcmd/refresh.go: `refresh --hold` caches action=hold in the hook context and THEN calls
   HoldRefresh(st, HoldAutoRefresh, g, 0, affecting...) (so the action is recorded whether or not the hold is granted);
   `refresh --proceed` only caches action=proceed. overlord/hookstate/hooks.go gateAutoRefreshHookHandler: Done (hook
   exited 0): no action or proceed -> ProceedWithRefresh(g, nil); hold -> nothing. Error (hook failed): action hold ->
   nothing; otherwise HoldRefresh with the default duration (a HoldError is logged and ignored).
   The cached action does not depend on the state, so a hook run is a fixed list of primitive operations. *)
Definition last_action (script : list hookcmd) : option hookcmd := last (map Some script) None.
Definition hook_ops (g : N) (snaps : list N) (script : list hookcmd) (fails : bool) : list op :=
  flat_map (fun c => match c with CmdHold => [Hold 0 g 0 snaps] | CmdProceed => [] end) script
  ++ match last_action script, fails with
     | Some CmdHold, _ => []
     | _, true => [Hold 0 g 0 snaps]
     | _, false => [Proceed g []]
     end.
Definition expand (o : op) : list op :=
  match o with Hook g snaps script fails => hook_ops g snaps script fails | _ => [o] end.
Definition expand_all (ops : list op) : list op := flat_map expand ops.
(* the step of histories that contain hook runs *)
Definition hstep (st : state) (o : op) : state := run st (expand o).
Definition hrun (st : state) (ops : list op) : state := fold_left hstep ops st.

(* HeldSnaps(st, level): is the hold of g on s reported at the current time *)
Definition effective (st : state) (level s g : N) : bool :=
  match st_gating st s g with
  | None => false
  | Some h =>
      negb (h_level h <? level)%N
      && negb (negb (g =? system)%N && (st_lastref st s + max_postponement <? st_now st))
      && negb (h_until h <? st_now st)
  end.

(* which snaps a refresh of all snaps goes on with: updatePlan.filterHeldSnaps (level HoldAutoRefresh for an auto-refresh,
   HoldGeneral otherwise) and snapsToRefresh (auto-refresh phase 2) drop every candidate that HeldSnaps reports at that
   level; holders = the possible holding snaps (system included). A refresh that NAMES its snaps does not look at holds. *)
Definition held_by_any (st : state) (level : N) (holders : list N) (s : N) : bool :=
  existsb (fun g => effective st level s g) holders.
Definition refresh_targets (st : state) (level : N) (holders cands : list N) : list N :=
  filter (fun s => negb (held_by_any st level holders s)) cands.

(* the system-wide hold, option core refresh.hold (effectiveRefreshHold): no operation of the hold table reads or writes
   it, so its value at any point of a history is the one of the last SetAllHold. all_held: is it in force at time now
   (forever is computed as now + maxDuration at every look, so it always is). It is consulted in exactly two places:
   autoRefresh.Ensure does not launch the auto-refresh at all while it is in force (isRefreshHeld), and SnapHolds reports
   every snap as held by system. updatePlan.filterHeldSnaps, snapsToRefresh and HeldSnaps do NOT look at it: a `snap refresh`
   of all snaps or of named snaps goes on regardless. *)
Definition allhold := option (option Z).
Definition all_held (v : allhold) (now : Z) : bool :=
  match v with None => false | Some None => true | Some (Some t) => now <? t end.
Definition allhold_step (v : allhold) (o : op) : allhold := match o with SetAllHold w => w | _ => v end.
Definition allhold_after (v : allhold) (ops : list op) : allhold := fold_left allhold_step ops v.
(* the snaps a scheduled auto-refresh goes on with *)
Definition auto_refresh_targets (v : allhold) (st : state) (holders cands : list N) : list N :=
  if all_held v (st_now st) then [] else refresh_targets st 0 holders cands.
(* SnapHolds: is s reported as held by system *)
Definition snap_holds_system (v : allhold) (st : state) (s : N) : bool :=
  effective st 1 s system || all_held v (st_now st).

Definition no_holds : gating := fun _ _ => None.
Definition init_state (lr0 : N -> Z) (now0 : Z) : state := mkState no_holds lr0 now0.

(* the quantifier of the property: gating snaps (every holder but system) request the default duration *)
Definition default_duration (o : op) : bool :=
  match o with Hold _ g dur _ => (g =? system)%N || (dur =? 0) | _ => true end.

(* ghost: the time at which the current hold episode of g on s started. It is defined from the presence and absence
   of the entry only (not from its first-held field): an entry that appears starts an episode at the time of the
   request, an entry that stays keeps its episode, an entry that disappears ends it. *)
Definition episodes := N -> N -> option Z.
Definition ep_step (st st' : state) (ep : episodes) : episodes :=
  fun s g => match st_gating st' s g with
             | None => None
             | Some _ => match st_gating st s g with None => Some (st_now st) | Some _ => ep s g end
             end.
Fixpoint run_ep (st : state) (ep : episodes) (ops : list op) : state * episodes :=
  match ops with
  | [] => (st, ep)
  | o :: r => let st' := step st o in run_ep st' (ep_step st st' ep) r
  end.
Definition no_episodes : episodes := fun _ _ => None.

Definition forty_eight_h : Z := 172800000000000.
Definition ninety_days : Z := 7776000000000000.

(* the bound has been reached for a hold of s by the gating snap g *)
Definition at_bound (st : state) (g s : N) : Prop :=
  st_lastref st s + ninety_days <= st_now st \/
  exists h, st_gating st s g = Some h /\
            h_first h + (if (s =? g)%N then ninety_days else forty_eight_h) <= st_now st.

(* the operation does not set or lift the administrator's hold on s *)
Definition sys_untouched (s : N) (o : op) : bool :=
  match o with
  | Hold _ g _ snaps => negb (g =? system)%N || negb (mem s snaps)
  | SysHold _ _ snaps => negb (mem s snaps)
  | Proceed g snaps => negb (g =? system)%N || (match snaps with [] => false | _ => negb (mem s snaps) end)
  | _ => true
  end.

(* the end of a system hold requested at time now: forever = the largest duration *)
Definition sys_until (now : Z) (t : option Z) : Z :=
  match t with
  | None => now + max_int64
  | Some u => now + (if clamp64 (u - now) =? 0 then -1 else clamp64 (u - now))
  end.

(* ------------------------------------------------------------------ correspondence interface *)

(* what the driver records after every operation: the operation, its result (Some remaining | None = refused), the
   snaps-hold table (held, holder, first-held, hold-until, level), HeldSnaps at both levels as (held, holder) pairs,
   the clock *)
Record obs := mkObs {
  o_op : op;
  o_res : option Z;
  o_table : list (N * N * Z * Z * N);
  o_held0 : list (N * N);
  o_held1 : list (N * N);
  o_now : Z }.

(* a history as the driver writes it: snaps 1..nsnaps are installed, their initial last-refresh times, the initial
   clock, the observed steps. Every time value of the observations is written once in the list `times` and referred to
   by its position (the same few 19-digit numbers occur hundreds of times in a history; elaborating them dominated the
   cost of evaluating the cases). *)
Record robs := mkRObs {
  ro_op : op;
  ro_res : option Z;
  ro_table : list (N * N * N * N * N);      (* held, holder, first-held #, hold-until #, level *)
  ro_held0 : list (N * N);
  ro_held1 : list (N * N);
  ro_now : N }.
Inductive case := mkCase (nsnaps : N) (times : list Z) (lr0 : list (N * N)) (now0 : N) (steps : list robs).

Definition tz (times : list Z) (i : N) : Z := nth (N.to_nat i) times 0.
Definition decode_obs (times : list Z) (o : robs) : obs :=
  mkObs (ro_op o) (ro_res o)
        (map (fun e => match e with (s, g, f, u, l) => (s, g, tz times f, tz times u, l) end) (ro_table o))
        (ro_held0 o) (ro_held1 o) (tz times (ro_now o)).
Definition decode_lr (times : list Z) (lr0 : list (N * N)) : list (N * Z) :=
  map (fun e => (fst e, tz times (snd e))) lr0.

Fixpoint assoc (l : list (N * Z)) (x : N) (d : Z) : Z :=
  match l with [] => d | (k, v) :: r => if (k =? x)%N then v else assoc r x d end.

Fixpoint tlookup (t : list (N * N * Z * Z * N)) (s g : N) : option hold :=
  match t with
  | [] => None
  | (s', g', f, u, l) :: r => if (s' =? s)%N && (g' =? g)%N then Some (mkHold f u l) else tlookup r s g
  end.

Definition hold_eqb (a b : option hold) : bool :=
  match a, b with
  | None, None => true
  | Some x, Some y => (h_first x =? h_first y) && (h_until x =? h_until y) && (h_level x =? h_level y)%N
  | _, _ => false
  end.

Definition optz_eqb (a b : option Z) : bool :=
  match a, b with None, None => true | Some x, Some y => x =? y | _, _ => false end.

Definition ids (n : N) : list N := map N.of_nat (seq 0 (S (N.to_nat n))).   (* 0 .. n *)
Definition pmem (p : N * N) (l : list (N * N)) : bool :=
  existsb (fun q => (fst q =? fst p)%N && (snd q =? snd p)%N) l.

(* the model's state agrees with one observation on every pair of the universe *)
Definition obs_agrees (n : N) (st : state) (res : option Z) (o : obs) : bool :=
  optz_eqb res (o_res o) && (st_now st =? o_now o)
  && forallb (fun s => forallb (fun g =>
        hold_eqb (st_gating st s g) (tlookup (o_table o) s g)
        && Bool.eqb (effective st 0 s g) (pmem (s, g) (o_held0 o))
        && Bool.eqb (effective st 1 s g) (pmem (s, g) (o_held1 o))) (ids n)) (ids n)
  && forallb (fun e => match e with (s, g, _, _, _) => mem s (ids n) && mem g (ids n) end) (o_table o)
  && forallb (fun p => mem (fst p) (ids n) && mem (snd p) (ids n)) (o_held0 o ++ o_held1 o).

Fixpoint nlist_eqb (a b : list N) : bool :=
  match a, b with
  | [], [] => true
  | x :: a', y :: b' => (x =? y)%N && nlist_eqb a' b'
  | _, _ => false
  end.
(* the observed selection of a refresh of all snaps is the one the model computes *)
Definition op_consistent_all (v : allhold) (st : state) (o : op) : bool :=
  match o with
  | SnapHoldsQuery snaps sys => nlist_eqb sys (filter (snap_holds_system v st) snaps)
  | GateQuery held => Bool.eqb held (all_held v (st_now st))
  | _ => true
  end.

Definition op_consistent (n : N) (st : state) (o : op) : bool :=
  match o with
  | RefreshAll auto cands updated => nlist_eqb updated (refresh_targets st (if auto then 0 else 1)%N (ids n) cands)
  | AutoFilter cands selected => nlist_eqb selected (refresh_targets st 0%N (ids n) cands)
  | _ => true
  end.

Fixpoint mismatch_steps (n : N) (v : allhold) (st : state) (steps : list obs) : bool :=
  match steps with
  | [] => false
  | o :: r =>
      let v := allhold_step v (o_op o) in
      let res := op_result st (o_op o) in
      let st' := hstep st (o_op o) in
      if op_consistent n st (o_op o) && op_consistent_all v st (o_op o) && obs_agrees n st' res o then mismatch_steps n v st' r else true
  end.

Definition mismatch (c : case) : bool :=
  match c with mkCase n times lr0 now0 steps =>
    let lr := decode_lr times lr0 in
    mismatch_steps n None (init_state (fun x => assoc lr x 0) (tz times now0)) (map (decode_obs times) steps)
  end.

(* ------------------------------------------------------------------ monitor: the property on the observed behaviour.
   It uses the observed table and HeldSnaps results, the operations and the clock; not the model's transition
   functions. Ghost state kept by the monitor: the observed table after the previous step, the last-refresh times
   (which the driver itself sets), and the currently valid system hold requests. *)

Record mon := mkMon {
  m_table : list (N * N * Z * Z * N);
  m_lr : N -> Z;
  m_sys : list (N * (Z * N));       (* snap -> (requested end of the system hold, level) while it must be in force *)
  m_ep : list (N * N * Z);          (* (held, holder) -> start of the current hold episode, kept by the monitor itself *)
  m_held0 : list (N * N);           (* HeldSnaps at both levels as observed after the previous step *)
  m_held1 : list (N * N);
  m_all : allhold                   (* the last value given to core refresh.hold *)
}.

(* the only operations after which the hold record of s by g may be gone: proceed by g, an accepted refresh request for
   s (gating snaps only), a refused hold request of g that named s. In particular NOT a refused refresh request, a
   clock tick, a last-refresh update or a request of another snap. *)
Definition may_remove (o : op) (res : option Z) (s g : N) : bool :=
  match o with
  | Proceed g' snaps => (g' =? g)%N && (match snaps with [] => true | _ => mem s snaps end)
  | Reset s' => (s' =? s)%N && negb (g =? system)%N
  | RefreshAccepted snaps => mem s snaps && negb (g =? system)%N
  | RefreshAll _ _ updated => mem s updated && negb (g =? system)%N
  | Hold _ g' _ snaps => (g' =? g)%N && mem s snaps && (match res with None => true | Some _ => false end)
  | Hook g' _ _ _ => (g' =? g)%N     (* a refused hold of the hook, or its proceed; but a record that is there before and
                                        after the hook run keeps its episode: a hook run never restarts one *)
  | _ => false
  end.

Fixpoint ep_lookup (l : list (N * N * Z)) (s g : N) : option Z :=
  match l with
  | [] => None
  | (s', g', t) :: r => if (s' =? s)%N && (g' =? g)%N then Some t else ep_lookup r s g
  end.
Definition present (t : list (N * N * Z * Z * N)) (s g : N) : bool :=
  match tlookup t s g with Some _ => true | None => false end.

Fixpoint sys_lookup (l : list (N * (Z * N))) (s : N) : option (Z * N) :=
  match l with [] => None | (k, v) :: r => if (k =? s)%N then Some v else sys_lookup r s end.
Definition sys_remove (l : list (N * (Z * N))) (snaps : list N) (all : bool) : list (N * (Z * N)) :=
  filter (fun e => negb (all || mem (fst e) snaps)) l.

(* the effect of an operation on the monitor's expectation of system holds. A system hold whose requested end is
   exactly the current instant is an already expired hold: it must not be reported, neither at that instant nor later
   (it used to last forever: repaired defect, fixed: line in KNOWN_FINDINGS). *)
Definition sys_after (m : list (N * (Z * N))) (now : Z) (o : op) : list (N * (Z * N)) :=
  match o with
  | SysHold level t snaps =>
      let e := match t with None => now + max_int64 | Some u => if u =? now then now - 1 else u end in
      map (fun s => (s, (e, level))) snaps ++ sys_remove m snaps false
  | Hold level g dur snaps =>
      if (g =? system)%N then
        map (fun s => (s, ((if dur =? 0 then now + max_int64 else now + dur), level))) snaps ++ sys_remove m snaps false
      else m
  | Proceed g snaps => if (g =? system)%N then sys_remove m snaps (match snaps with [] => true | _ => false end) else m
  | _ => m
  end.

Definition requested_snaps (o : op) : option (N * list N) :=
  match o with Hold _ g _ snaps => Some (g, snaps) | _ => None end.

Definition monitor_step (n : N) (m : mon) (o : obs) : bool * mon :=
  let now := o_now o in
  let lr := match o_op o with
            | Refreshed s => fun x => if (x =? s)%N then now else m_lr m x
            | _ => m_lr m end in
  let tbl := o_table o in
  (* 0. a hold record only disappears through an operation that may remove it; the monitor's own episode table keeps
        the start of an episode until such an operation, whatever the implementation's table says *)
  let vanish_ok := forallb (fun e => match e with (s, g, _, _, _) =>
        present tbl s g || may_remove (o_op o) (o_res o) s g end) (m_table m) in
  let ep1 := filter (fun e => match e with (s, g, _) =>
        present tbl s g || negb (may_remove (o_op o) (o_res o) s g) end) (m_ep m) in
  let ep := ep1 ++ flat_map (fun e => match e with (s, g, _, _, _) =>
        match ep_lookup ep1 s g with Some _ => [] | None => [(s, g, now)] end end) tbl in
  (* 1. first-held marks the start of the episode: set to the time of the request that created the entry, unchanged
        while the episode lasts *)
  let episode_ok := forallb (fun e => match e with (s, g, f, _, _) =>
        match ep_lookup ep s g with
        | Some t0 => f =? t0
        | None => false
        end end) tbl in
  (* 2. bounds on every reported hold of a gating snap (default durations only for the 48 h bound) *)
  let bound_ok (held : list (N * N)) := forallb (fun p =>
        let '(s, g) := p in
        if (g =? system)%N then true else
        match ep_lookup ep s g with
        | None => false                                   (* reported without an entry *)
        | Some t0 => (now <=? lr s + ninety_days)
                     && ((s =? g)%N || (now <=? t0 + forty_eight_h))
        end) held in
  (* 3. refused at the bound, and a refusal leaves none of the requested holds of that snap behind *)
  let refuse_ok :=
      match requested_snaps (o_op o) with
      | Some (g, snaps) =>
          if (g =? system)%N then true else
          let at_bound := existsb (fun s =>
                (lr s + ninety_days <=? now)
                || match ep_lookup (m_ep m) s g with
                   | Some t0 => (t0 + (if (s =? g)%N then ninety_days else forty_eight_h) <=? now)
                   | None => false end) snaps in
          match o_res o with
          | None => forallb (fun s => match tlookup tbl s g with None => true | Some _ => false end) snaps
          | Some _ => negb at_bound
          end
      | None => true
      end in
  (* 4. not reported after expiry *)
  let expiry_ok (held : list (N * N)) := forallb (fun p =>
        match tlookup tbl (fst p) (snd p) with Some h => now <=? h_until h | None => false end) held in
  (* 5. system holds last exactly until the requested time at the requested level, whatever else happens *)
  let sys := sys_after (m_sys m) now (o_op o) in
  let sys_ok := forallb (fun e =>
        let '(s, (until, level)) := e in
        Bool.eqb (pmem (s, system) (o_held0 o)) (now <=? until)
        && Bool.eqb (pmem (s, system) (o_held1 o)) ((now <=? until) && (1 <=? level)%N)) sys in
  (* 6. a refresh of all snaps goes on with exactly the candidates that were not reported held at its level just before *)
  let is_held (l : list (N * N)) (s : N) := existsb (fun p => (fst p =? s)%N) l in
  let select_ok := match o_op o with
        | RefreshAll auto cands updated =>
            forallb (fun s => Bool.eqb (mem s updated) (negb (is_held (if auto then m_held0 m else m_held1 m) s))) cands
            && forallb (fun s => mem s cands) updated
        | AutoFilter cands selected =>
            forallb (fun s => Bool.eqb (mem s selected) (negb (is_held (m_held0 m) s))) cands
            && forallb (fun s => mem s cands) selected
        | _ => true end in
  (* 7. the system-wide hold: while in force the auto-refresh is not launched and every snap is reported held by system;
        otherwise the gate is open and system is reported exactly for the snaps with a general-level system hold *)
  let all := allhold_step (m_all m) (o_op o) in
  let all_ok := match o_op o with
        | GateQuery held => Bool.eqb held (all_held all now)
        | SnapHoldsQuery snaps sys =>
            forallb (fun s => Bool.eqb (mem s sys) (all_held all now || pmem (s, system) (o_held1 o))) snaps
            && forallb (fun s => mem s snaps) sys
        | _ => true end in
  (negb (all_ok && select_ok && vanish_ok && episode_ok && bound_ok (o_held0 o) && bound_ok (o_held1 o) && refuse_ok
         && expiry_ok (o_held0 o) && expiry_ok (o_held1 o) && sys_ok),
   mkMon tbl lr sys ep (o_held0 o) (o_held1 o) all).

Fixpoint monitor_steps (n : N) (m : mon) (steps : list obs) : bool :=
  match steps with
  | [] => false
  | o :: r => let '(bad, m') := monitor_step n m o in if bad then true else monitor_steps n m' r
  end.

(* explicit durations are outside the property's quantifier: such histories are only compared with the model *)
Definition monitor_fail (c : case) : bool :=
  match c with mkCase n times lr0 now0 steps =>
    let lr := decode_lr times lr0 in
    forallb (fun o => default_duration (ro_op o)) steps
    && monitor_steps n (mkMon [] (fun x => assoc lr x 0) [] [] [] [] None) (map (decode_obs times) steps)
  end.
