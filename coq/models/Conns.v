(* C22 — model of the connect / disconnect tasks of overlord/ifacestate (handlers.go doConnect, undoConnect,
   doDisconnect, undoDisconnect; ifacestate.go connect / Disconnect / Forget; helpers.go reloadConnections), the
   persisted `conns` map, the repository's connection set (interfaces/repo.go Connect / Disconnect) and the connection
   sets the security profiles of the two snaps were last generated for. No proofs in this file.

   World: one plug snap (consumer) and one slot snap (producer), both installed all the time; every connection id
   stands for one (plug, slot) pair of theirs, so every connection touches both snaps' profiles. *)
From Coq Require Import List NArith Bool.
Import ListNotations.
Open Scope N_scope.

(* schema.ConnState, projected: auto, by-gadget, undesired, hotplug-gone, and whether static attributes are stored *)
Record cstate := mkC { c_auto : bool; c_bygadget : bool; c_undesired : bool; c_hpgone : bool; c_attrs : bool }.

Record st := mkSt {
  s_conns : list (N * cstate);   (* state key conns *)
  s_repo : list N;               (* Repository: connected ids *)
  s_profc : list N;              (* connections the plug snap's profiles were last generated for *)
  s_profp : list N               (* same for the slot snap *)
}.

Fixpoint lookup (c : list (N * cstate)) (id : N) : option cstate :=
  match c with [] => None | (k, v) :: r => if k =? id then Some v else lookup r id end.
Fixpoint set (c : list (N * cstate)) (id : N) (v : cstate) : list (N * cstate) :=
  match c with [] => [(id, v)] | (k, w) :: r => if k =? id then (k, v) :: r else (k, w) :: set r id v end.
Definition del (c : list (N * cstate)) (id : N) : list (N * cstate) := filter (fun e => negb (fst e =? id)) c.

Definition mem (id : N) (l : list N) : bool := existsb (N.eqb id) l.
Definition add (id : N) (l : list N) : list N := if mem id l then l else id :: l.     (* Repository.Connect *)
Definition remove (id : N) (l : list N) : list N := filter (fun x => negb (x =? id)) l. (* Repository.Disconnect *)

(* connState.Active(): not undesired, not hotplug-gone *)
Definition active (c : cstate) : bool := negb (c_undesired c) && negb (c_hpgone c).

Inductive op :=
| OConnect (id : N) (auto bygadget : bool)
| ODisconnect (id : N) (forget autodisc byhotplug : bool)
| ORemove         (* removal of the plug snap: auto-disconnect -> disconnect tasks; snap leaves snapstate; remove-profiles; discard-conns *)
| OAutoConnect.   (* setup-profiles + auto-connect of the plug snap (what a refresh / install does at the interface level) *)

(* where the change fails: nowhere; at a task before the main one (prepare-* / disconnect-* hook); inside the main task,
   at the k-th security backend setup call; at a task after the main one (connect-* hook or a later task of the change) *)
Inductive fail := NoFail | FailBefore | FailMain (k : N) | FailAfter.

(* ifacestate.connect refuses an already active connection; Disconnect needs the connection in the repository;
   Forget always yields tasks *)
Definition creates (s : st) (o : op) : bool :=
  match o with
  | OConnect id _ _ => match lookup (s_conns s) id with Some c => negb (active c) | None => true end
  | ODisconnect id forget _ _ => forget || mem id (s_repo s)
  | OAutoConnect => true
  | ORemove => true
  end.

(* doConnect. Result: new state, saved old-conn, success *)
Definition do_connect (s : st) (id : N) (auto byg : bool) (k : N) : st * option cstate * bool :=
  let repo1 := add id (s_repo s) in                                       (* repo.Connect *)
  if k =? 1 then                                                          (* slot snap setup fails; deferred repo.Disconnect *)
    (mkSt (s_conns s) (remove id repo1) (s_profc s) (s_profp s), None, false)
  else if k =? 2 then                                                     (* plug snap setup fails after the slot snap's succeeded *)
    (mkSt (s_conns s) (remove id repo1) (s_profc s) repo1, None, false)
  else
    let old := match lookup (s_conns s) id with Some c => if c_undesired c then Some c else None | None => None end in
    (mkSt (set (s_conns s) id (mkC auto byg false false true)) repo1 repo1 repo1, old, true).

(* undoConnect *)
Definition undo_connect (s : st) (id : N) (old : option cstate) : st :=
  let conns := match old with Some c => set (s_conns s) id c | None => del (s_conns s) id end in
  let repo1 := remove id (s_repo s) in
  mkSt conns repo1 repo1 repo1.

(* doDisconnect *)
Definition do_disconnect (s : st) (id : N) (forget autodisc byhp : bool) (k : N) : st * option cstate * bool :=
  match lookup (s_conns s) id with
  | None => (s, None, false)                                              (* connection not found in state *)
  | Some c =>
      if negb (mem id (s_repo s)) then                                    (* repo.Disconnect: NotConnectedError *)
        if forget then (mkSt (del (s_conns s) id) (s_repo s) (s_profc s) (s_profp s), Some c, true)
        else (s, Some c, false)
      else
        let repo1 := remove id (s_repo s) in                              (* repo.Disconnect *)
        (* a failing setup: the deferred repo.Connect (commit 63d7dd9) puts the connection back; profiles already
           regenerated are not regenerated again *)
        if k =? 1 then (mkSt (s_conns s) (add id repo1) (s_profc s) (s_profp s), Some c, false)   (* plug snap setup fails *)
        else if k =? 2 then (mkSt (s_conns s) (add id repo1) repo1 (s_profp s), Some c, false)    (* slot snap setup fails after the plug snap's succeeded *)
        else
          let conns :=
            if forget then del (s_conns s) id
            else if byhp then set (s_conns s) id (mkC (c_auto c) (c_bygadget c) (c_undesired c) true (c_attrs c))
            else if c_auto c && negb autodisc then set (s_conns s) id (mkC (c_auto c) (c_bygadget c) true (c_hpgone c) false)
            else del (s_conns s) id in
          (mkSt conns repo1 repo1 repo1, Some c, true)
  end.

(* undoDisconnect (both plug and slot exist) *)
Definition undo_disconnect (s : st) (id : N) (old : option cstate) : st :=
  match old with
  | None => s
  | Some c => let repo1 := add id (s_repo s) in mkSt (set (s_conns s) id c) repo1 repo1 repo1
  end.

(* ------------------------------------------------------------------ setup-profiles and auto-connect
   setupProfilesForAppSet for the plug snap: repo.DisconnectSnap, RemoveSnap, AddAppSet, reloadConnections(snap) — so the
   repository holds exactly the active persisted connections again — then the security setup of the snap itself and of
   the AFFECTED snaps: the slot snap only if a connection was dropped or re-made. interfaces.SetupMany runs every snap
   even when one fails: fc / fp say whether the plug snap's / slot snap's setup call fails. *)
Definition active_ids (c : list (N * cstate)) : list N :=
  map fst (filter (fun e => match lookup c (fst e) with Some v => active v | None => false end) c).
Definition is_nil (l : list N) : bool := match l with [] => true | _ => false end.
Definition setup_profiles (s : st) (fc fp : bool) : st :=
  let repo1 := active_ids (s_conns s) in
  let aff := negb (is_nil (s_repo s)) || negb (is_nil repo1) in
  mkSt (s_conns s) repo1 (if fc then s_profc s else repo1) (if aff && negb fp then repo1 else s_profp s).
Definition setup_calls (s : st) : N :=
  if negb (is_nil (s_repo s)) || negb (is_nil (active_ids (s_conns s))) then 2 else 1.

(* the (plug, slot) pairs of the two snaps: 2 plugs x 2 slots in the driver's world; the base declaration allows
   auto-connection with slots-per-plug: *, so every pair is a candidate *)
Definition univ : list N := [0; 1; 2; 3].
(* addNewConnection: a pair is auto-connected only if `conns` has NO entry for it (active, undesired or hotplug-gone) *)
Definition newids (s : st) : list N := filter (fun id => match lookup (s_conns s) id with None => true | Some _ => false end) univ.
Definition auto_c : cstate := mkC true false false false true.
(* the injected connect tasks, with delayed-setup-profiles: doConnect without the security setup *)
Definition connect_all (ids : list N) (s : st) : st :=
  mkSt (fold_left (fun c id => set c id auto_c) ids (s_conns s)) (fold_left (fun r id => add id r) ids (s_repo s)) (s_profc s) (s_profp s).
(* their undo (no old-conn: there was no entry; delayed-setup-profiles: no security setup) *)
Definition unconnect_all (ids : list N) (s : st) : st :=
  mkSt (fold_left del ids (s_conns s)) (fold_left (fun r id => remove id r) ids (s_repo s)) (s_profc s) (s_profp s).

(* the change [setup-profiles; auto-connect -> connect tasks ...; setup-profiles]; a failure inside a security setup is
   the k-th Setup call of the whole change; undo of setup-profiles is setup-profiles for the installed revision again *)
Definition run_autoconnect (s : st) (f : fail) : st * bool * bool :=
  match f with
  | FailBefore => (s, true, true)
  | _ =>
      let k := match f with FailMain k => k | _ => 0 end in
      let n1 := setup_calls s in
      if (1 <=? k) && (k <=? n1) then (setup_profiles s (k =? 1) (k =? 2), true, true)        (* first setup-profiles task fails *)
      else
        let s1 := setup_profiles s false false in
        let ids := newids s1 in
        if is_nil ids then
          match f with FailAfter => (setup_profiles s1 false false, true, true) | _ => (s1, true, false) end
        else
          let s2 := connect_all ids s1 in
          let kk := k - n1 in
          if (kk =? 1) || (kk =? 2) then                                                       (* second setup-profiles task fails *)
            (setup_profiles (unconnect_all ids (setup_profiles s2 (kk =? 1) (kk =? 2))) false false, true, true)
          else
            let s3 := setup_profiles s2 false false in
            match f with
            | FailAfter => (setup_profiles (unconnect_all ids (setup_profiles s3 false false)) false false, true, true)
            | _ => (s3, true, false)
            end
  end.

(* ------------------------------------------------------------------ removal of the plug snap
   doAutoDisconnect injects one disconnect task (auto-disconnect flag: the entry is deleted, never marked undesired; hooks
   carry IgnoreError) per repository connection of the snap; doRemoveProfiles disconnects what is left, removes the snap from
   the repository and its profiles; doDiscardConns deletes every remaining conns entry naming the snap (remembering them
   for undoDiscardConns). In this world every connection id names the plug snap. Failure points: before / after (then
   undoDiscardConns restores the remembered entries, doSetupProfiles - the undo of remove-profiles - re-adds the snap and
   reloads its connections, undoDisconnect reconnects and restores each deleted entry).
   The state after a SUCCESSFUL removal is final: the model's world has both snaps installed. *)
Definition run_remove (s : st) (f : fail) : st * bool * bool :=
  let ids := s_repo s in
  match f with
  | FailBefore => (s, true, true)
  | FailAfter =>
      (* after the disconnect tasks and discard-conns: conns = []; undo: *)
      let rest := fold_left del ids (s_conns s) in               (* what discard-conns had removed, restored *)
      let repo0 := active_ids rest in                            (* doSetupProfiles: reloadConnections *)
      let repo1 := fold_left (fun r id => add id r) ids repo0 in (* undoDisconnect of every injected task *)
      (mkSt (s_conns s) repo1 (if is_nil ids then repo0 else repo1)
            (if is_nil ids then (if is_nil repo0 then s_profp s else repo0) else repo1), true, true)
  | _ => (mkSt [] [] [] (if is_nil ids then s_profp s else []), true, false)
  end.

(* one change: (state after settle, change was created, change ended in Error) *)
Definition run_change (s : st) (o : op) (f : fail) : st * bool * bool :=
  match o with
  | OAutoConnect => run_autoconnect s f
  | ORemove => run_remove s f
  | _ =>
  if negb (creates s o) then (s, false, false)
  else
    let k := match f with FailMain k => k | _ => 0 end in
    let '(s1, old, ok) := match o with
                          | OConnect id auto byg => do_connect s id auto byg k
                          | ODisconnect id forget ad bh => do_disconnect s id forget ad bh k
                          | OAutoConnect | ORemove => (s, None, true)
                          end in
    match f with
    | FailBefore => (s, true, true)
    | FailAfter =>
        if ok then (match o with OConnect id _ _ => undo_connect s1 id old | ODisconnect id _ _ _ => undo_disconnect s1 id old
                                 | OAutoConnect | ORemove => s1 end, true, true)
        else (s1, true, true)
    | _ => (s1, true, negb ok)
    end
  end.

Fixpoint run_history (s : st) (h : list (op * fail)) : st :=
  match h with [] => s | (o, f) :: r => run_history (fst (fst (run_change s o f))) r end.

(* reloadConnections at start-up: every entry that is neither undesired nor hotplug-gone is connected in the (empty)
   repository; plugs and slots all exist in this world *)
Fixpoint reload (c : list (N * cstate)) : list N :=
  match c with [] => [] | (id, v) :: r => if active v then add id (reload r) else reload r end.

(* ------------------------------------------------------------------ the known failing classes (KNOWN_FINDINGS), as a guard *)
Definition op_id (o : op) : N := match o with OConnect id _ _ => id | ODisconnect id _ _ _ => id | OAutoConnect | ORemove => 0 end.
Definition excluded (s : st) (o : op) (f : fail) : bool :=
  match o, f with
  | ODisconnect id _ _ _, FailMain k => mem id (s_repo s) && (k =? 2)                  (* plug snap profile regenerated without it, then reconnect *)
  | OConnect _ _ _, FailMain k => k =? 2                                               (* slot snap profile generated with it, then rollback *)
  | OConnect id _ _, FailAfter =>                                                       (* undo forgets an overwritten hotplug-gone entry *)
      match lookup (s_conns s) id with Some c => c_hpgone c && negb (c_undesired c) | None => false end
  | ODisconnect id forget _ _, FailAfter => forget && negb (mem id (s_repo s))          (* undo of forgetting an inactive connection reconnects it *)
  (* auto-connect from a state without any active connection, failing after the new connections' profiles were written:
     the undo regenerates the plug snap's profiles only, the slot snap keeps rules for the undone connections *)
  | ORemove, FailMain _ => true     (* a security setup failing inside one of the injected disconnect tasks: not modelled *)
  | OAutoConnect, FailAfter => is_nil (active_ids (s_conns s)) && negb (is_nil (newids s))
  | OAutoConnect, FailMain k => is_nil (active_ids (s_conns s)) && negb (is_nil (newids s)) && (k =? 2)
  | _, _ => false
  end.

(* ------------------------------------------------------------------ correspondence / monitor interface *)
Definition ids : list N := [0; 1; 2; 3; 4; 5; 6; 7; 99].
Definition cstate_eqb (a b : cstate) : bool :=
  Bool.eqb (c_auto a) (c_auto b) && Bool.eqb (c_bygadget a) (c_bygadget b) && Bool.eqb (c_undesired a) (c_undesired b)
  && Bool.eqb (c_hpgone a) (c_hpgone b) && Bool.eqb (c_attrs a) (c_attrs b).
Definition ocstate_eqb (a b : option cstate) : bool :=
  match a, b with Some x, Some y => cstate_eqb x y | None, None => true | _, _ => false end.
Definition subset (a b : list N) : bool := forallb (fun x => mem x b) a.
Definition set_eqb (a b : list N) : bool := subset a b && subset b a.
Definition conns_eqb (a b : list (N * cstate)) : bool :=
  forallb (fun e => ocstate_eqb (lookup a (fst e)) (lookup b (fst e))) a
  && forallb (fun e => ocstate_eqb (lookup a (fst e)) (lookup b (fst e))) b.
Definition st_eqb (a b : st) : bool :=
  conns_eqb (s_conns a) (s_conns b) && set_eqb (s_repo a) (s_repo b) && set_eqb (s_profc a) (s_profc b) && set_eqb (s_profp a) (s_profp b).

(* persisted active connections = repository = what both snaps' profiles were generated for *)
Definition agree (s : st) : bool :=
  set_eqb (active_ids (s_conns s)) (s_repo s) && set_eqb (s_profc s) (s_repo s) && set_eqb (s_profp s) (s_repo s).

Record step := mkStep { t_op : op * fail; t_pre : st; t_post : st; t_created : bool; t_failed : bool }.

(* a start-up (initial conns, repository after the manager started) followed by a history of changes, each observed
   before and after it settled *)
Inductive case := CHist (init : list (N * cstate)) (startup : list N) (steps : list step).

Definition step_mismatch (t : step) : bool :=
  let '(s', created, failed) := run_change (t_pre t) (fst (t_op t)) (snd (t_op t)) in
  negb (st_eqb s' (t_post t)) || negb (Bool.eqb created (t_created t)) || negb (Bool.eqb failed (t_failed t)).
Definition mismatch (c : case) : bool :=
  match c with CHist init startup steps => negb (set_eqb (reload init) startup) || existsb step_mismatch steps end.

(* the property on the observed behaviour, without the model's do/undo functions: start-up reproduces the active
   connections; from an agreeing state, a change that is refused or fails leaves everything as it was, and every
   settled change ends in an agreeing state *)
Definition step_monitor_fail (t : step) : bool :=
  agree (t_pre t) &&
  ((negb (t_created t) || t_failed t) && negb (st_eqb (t_pre t) (t_post t)) || negb (agree (t_post t))).
Definition monitor_fail (c : case) : bool :=
  match c with CHist init startup steps => negb (set_eqb (active_ids init) startup) || existsb step_monitor_fail steps end.
