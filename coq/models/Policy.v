(* C21 — interface connection / installation policy (interfaces/policy/policy.go, helpers.go, asserts/ifacedecls.go,
   asserts/constraint.go).  Executable model, written function by function from the Go code. No proofs here.

   Restrictions of the model (the generator of the driver stays inside them):
   - regular expressions (name constraints, attribute constraints) are top-level ALTERNATIONS OF LITERALS over
     [a-z0-9-]: `^(lit1|lit2)$` means the whole string equals one alternative;
   - attribute values are strings, bools, int64, lists and string-keyed maps (no nil, no floats);
   - the classification of a leaf string of an attribute constraint ($MISSING, $SLOT(arg), $PLUG(arg),
     $PLUG_PUBLISHER_ID, $SLOT_PUBLISHER_ID, literal) is done by the driver; everything above the leaves (maps,
     alternatives, lists, rule shortcuts, defaults of missing subrules, precedence) is modelled here. *)
From Coq Require Import List NArith ZArith Bool String.
Import ListNotations.
Require Import V.lib.Bytes V.lib.Dec.
Open Scope N_scope.

(* ------------------------------------------------------------------ attribute values *)
Inductive aval : Type :=
| VStr (s : bytes) | VBool (b : bool) | VInt (z : Z) | VList (l : list aval) | VMap (m : list (bytes * aval)).

(* reflect.DeepEqual on attribute values; maps are printed by the driver sorted by key *)
Fixpoint aval_eqb (a b : aval) {struct a} : bool :=
  match a, b with
  | VStr x, VStr y => beq x y
  | VBool x, VBool y => Bool.eqb x y
  | VInt x, VInt y => Z.eqb x y
  | VList l, VList l' =>
      (fix go (l l' : list aval) : bool :=
         match l, l' with
         | [], [] => true
         | x :: r, y :: r' => aval_eqb x y && go r r'
         | _, _ => false
         end) l l'
  | VMap m, VMap m' =>
      (fix go (m m' : list (bytes * aval)) : bool :=
         match m, m' with
         | [], [] => true
         | (k, x) :: r, (k', y) :: r' => beq k k' && aval_eqb x y && go r r'
         | _, _ => false
         end) m m'
  | _, _ => false
  end.

Fixpoint assoc {A : Type} (k : bytes) (m : list (bytes * A)) : option A :=
  match m with
  | [] => None
  | (k', v) :: r => if beq k k' then Some v else assoc k r
  end.

Definition has_key {A : Type} (k : bytes) (m : list (bytes * A)) : bool :=
  match assoc k m with Some _ => true | None => false end.

(* strings.FieldsFunc(path, r == '.') : split on dots, dropping empty components *)
Fixpoint split_dots_aux (cur : bytes) (s : bytes) : list bytes :=
  match s with
  | [] => match cur with [] => [] | _ => [rev cur] end
  | c :: r => if c =? 46 then match cur with [] => split_dots_aux [] r | _ => rev cur :: split_dots_aux [] r end
              else split_dots_aux (c :: cur) r
  end.
Definition split_dots (s : bytes) : list bytes := split_dots_aux [] s.

(* A regexp restricted to a TOP-LEVEL ALTERNATION OF LITERALS lit1|lit2|...: the code compiles `^(` + s + `)$`, so the
   WHOLE string must equal one of the alternatives. split_bar splits on `|` keeping empty alternatives. *)
Fixpoint split_bar_aux (cur : bytes) (s : bytes) : list bytes :=
  match s with
  | [] => [rev cur]
  | c :: r => if c =? 124 then rev cur :: split_bar_aux [] r else split_bar_aux (c :: cur) r
  end.
Definition split_bar (s : bytes) : list bytes := split_bar_aux [] s.
Definition alt_lit_match (pattern x : bytes) : bool := existsb (beq x) (split_bar pattern).

Fixpoint lookup_path (comps : list bytes) (v : aval) : option aval :=
  match comps with
  | [] => Some v
  | c :: r => match v with
              | VMap m => match assoc c m with Some v' => lookup_path r v' | None => None end
              | _ => None
              end
  end.

(* static and dynamic attributes of a connected plug/slot; SlotInfo/PlugInfo (installation) have no dynamic ones *)
Definition attrs := (list (bytes * aval) * list (bytes * aval))%type.

(* interfaces/connection.go: lookupAttr *)
Definition lookup_attr (a : attrs) (path : bytes) : option aval :=
  match split_dots path with
  | [] => None
  | c0 :: _ => lookup_path (split_dots path) (VMap (if has_key c0 (snd a) then snd a else fst a))
  end.

(* ------------------------------------------------------------------ attribute matchers (asserts/constraint.go) *)
Inductive amatch : Type :=
| MMap (ms : list (bytes * amatch))       (* mapAttrMatcher *)
| MAlt (alts : list amatch)               (* altAttrMatcher *)
| MLit (s : bytes)                        (* regexpAttrMatcher restricted to an alternation of literals *)
| MMissing                                (* missingAttrMatcher *)
| MEval (slot : bool) (arg : bytes)       (* evalAttrMatcher $SLOT(arg) / $PLUG(arg) *)
| MRef (slot : bool)                      (* refAttrMatcher $SLOT_PUBLISHER_ID / $PLUG_PUBLISHER_ID *)
| MFixed (ok : bool).                     (* AlwaysMatchAttributes / NeverMatchAttributes *)

(* AttrMatchContext = the ConnectCandidate; nil during installation checks *)
Record mctx := { c_plug : attrs; c_slot : attrs; c_plug_pub : bytes; c_slot_pub : bytes }.

Definition zdec (z : Z) : bytes := if (z <? 0)%Z then 45 :: dec (Z.to_N (- z)) else dec (Z.to_N z).
Definition bool_str (b : bool) : bytes := if b then bs "true"%string else bs "false"%string.

Definition is_missing (m : amatch) : bool := match m with MMissing => true | _ => false end.

(* matchEntry: every entry matcher expects the attribute to be set except for $MISSING *)
Definition match_entry (m1 : amatch) (f : aval -> bool) (ov : option aval) : bool :=
  if is_missing m1 then match ov with None => true | Some _ => false end
  else match ov with None => false | Some v => f v end.

(* <matcher>.match on a non-nil attribute value *)
Fixpoint match_v (ctx : option mctx) (m : amatch) {struct m} : aval -> bool :=
  match m with
  | MMap ms =>
      fix go (v : aval) : bool :=
        match v with
        | VMap kv => forallb (fun km => match km with (k, m1) => match_entry m1 (match_v ctx m1) (assoc k kv) end) ms
        | VList l => forallb go l
        | _ => false
        end
  | MAlt alts =>
      fix go (v : aval) : bool :=
        match v with
        | VList l => forallb go l
        | _ => existsb (fun a => match_v ctx a v) alts
        end
  | MLit s =>
      fix go (v : aval) : bool :=
        match v with
        | VStr x => alt_lit_match s x
        | VBool b => alt_lit_match s (bool_str b)
        | VInt z => alt_lit_match s (zdec z)
        | VList l => forallb go l
        | VMap _ => false
        end
  | MMissing => fun _ => false
  | MEval slot arg => fun v =>
      match ctx with
      | None => false
      | Some c => match lookup_attr (if slot then c_slot c else c_plug c) arg with
                  | Some v1 => aval_eqb v v1
                  | None => false
                  end
      end
  | MRef slot => fun v =>
      match ctx with
      | None => false
      | Some c => match v with VStr x => beq x (if slot then c_slot_pub c else c_plug_pub c) | _ => false end
      end
  | MFixed ok => fun _ => ok
  end.

(* mapAttrMatcher.match on the root Attrer: every key is looked up with Attrer.Lookup *)
Definition root_map (ctx : option mctx) (ms : list (bytes * amatch)) (a : attrs) : bool :=
  forallb (fun km => match km with (k, m1) => match_entry m1 (match_v ctx m1) (lookup_attr a k) end) ms.

(* AttributeConstraints.Check(attrer, helper) *)
Definition attrs_check (ctx : option mctx) (m : option amatch) (a : attrs) : bool :=
  match m with
  | None => true                           (* field not set: AlwaysMatchAttributes *)
  | Some (MFixed ok) => ok
  | Some (MMap ms) => root_map ctx ms a
  | Some (MAlt alts) =>
      existsb (fun alt => match alt with MMap ms => root_map ctx ms a | MFixed ok => ok | _ => false end) alts
  | Some _ => false
  end.

(* ------------------------------------------------------------------ one alternative = conjunction of constraints *)
Record alt := mkAlt {
  a_plug_names : option (list bytes);
  a_slot_names : option (list bytes);
  a_plug_attrs : option amatch;
  a_slot_attrs : option amatch;
  a_plug_snap_types : list bytes;
  a_slot_snap_types : list bytes;
  a_plug_snap_ids : list bytes;
  a_slot_snap_ids : list bytes;
  a_plug_pub_ids : list bytes;
  a_slot_pub_ids : list bytes;
  a_slots_per_plug : option (option N);         (* None: not given; Some None: "*"; Some (Some n): n *)
  a_on_classic : option (bool * list bytes);
  a_on_core_desktop : option bool;
  a_device : option (list bytes * list bytes * list bytes)   (* on-store, on-brand, on-model *)
}.

Definition alt_empty : alt := mkAlt None None None None [] [] [] [] [] [] None None None None.
(* the shortcut "true": everything unset, attributes AlwaysMatch; "false": attributes NeverMatch *)
Definition alt_short (b : bool) : alt :=
  mkAlt None None (Some (MFixed b)) (Some (MFixed b)) [] [] [] [] [] [] None None None None.

Inductive subrule_src := SShort (b : bool) | SOne (a : alt) | SAlts (l : list alt).

Record rule_map := mkRuleMap {
  s_allow_inst : option subrule_src; s_deny_inst : option subrule_src;
  s_allow_conn : option subrule_src; s_deny_conn : option subrule_src;
  s_allow_auto : option subrule_src; s_deny_auto : option subrule_src }.

Inductive rule_src := RShort (b : bool) | RMap (m : rule_map).

(* compiled rule: PlugRule / SlotRule *)
Record rule := mkRule {
  r_allow_inst : list alt; r_deny_inst : list alt;
  r_allow_conn : list alt; r_deny_conn : list alt;
  r_allow_auto : list alt; r_deny_auto : list alt }.

(* baseCompileRule, one subrule: v == nil -> defaultOutcome[subrule] (allow-*: "true", deny-*: "false") *)
Definition compile_sub (allow : bool) (s : option subrule_src) : list alt :=
  match s with
  | None => [alt_short allow]
  | Some (SShort b) => [alt_short b]
  | Some (SOne a) => [a]
  | Some (SAlts l) => l
  end.

Definition compile_rule (r : rule_src) : rule :=
  match r with
  | RShort b =>    (* "true": defaultOutcome; "false": invertedOutcome *)
      mkRule [alt_short b] [alt_short (negb b)] [alt_short b] [alt_short (negb b)] [alt_short b] [alt_short (negb b)]
  | RMap m =>
      mkRule (compile_sub true (s_allow_inst m)) (compile_sub false (s_deny_inst m))
             (compile_sub true (s_allow_conn m)) (compile_sub false (s_deny_conn m))
             (compile_sub true (s_allow_auto m)) (compile_sub false (s_deny_auto m))
  end.

(* well-formedness errors of rule compilation that the malformed stream of the driver exercises *)
Definition alt_unspecified (a : alt) : bool :=
  match a with
  | mkAlt None None None None [] [] [] [] [] [] None None None None => true
  | _ => false
  end.
Definition is_some {A : Type} (o : option A) : bool := match o with Some _ => true | None => false end.

(* inst: *-installation subrule; allow: allow-* subrule. slots-per-plug only in allow-*connection; a connection
   alternative must specify something (for installation alternatives the arithmetic of baseCompileConstraints,
   which adds the length of the package-level attributeConstraints (2) instead of its parameter (1), never fires) *)
Definition alt_valid (allow inst : bool) (a : alt) : bool :=
  (negb (is_some (a_slots_per_plug a)) || (allow && negb inst)) && (inst || negb (alt_unspecified a)).
Definition sub_valid (allow inst : bool) (s : option subrule_src) : bool :=
  match s with
  | None => true
  | Some (SShort _) => true
  | Some (SOne a) => alt_valid allow inst a
  | Some (SAlts l) => negb (is_nil_b l) && forallb (alt_valid allow inst) l
  end.
Definition rule_valid (r : rule_src) : bool :=
  match r with
  | RShort _ => true
  | RMap m =>
      (is_some (s_allow_inst m) || is_some (s_deny_inst m) || is_some (s_allow_conn m) || is_some (s_deny_conn m)
       || is_some (s_allow_auto m) || is_some (s_deny_auto m))
      && sub_valid true true (s_allow_inst m) && sub_valid false true (s_deny_inst m)
      && sub_valid true false (s_allow_conn m) && sub_valid false false (s_deny_conn m)
      && sub_valid true false (s_allow_auto m) && sub_valid false false (s_deny_auto m)
  end.

(* ------------------------------------------------------------------ declarations and candidates *)
(* snap-declaration (ids set) or base-declaration (ids empty): interface -> rule, for plugs and for slots *)
Record decl := mkDecl { d_snap_id : bytes; d_pub_id : bytes;
                        d_plugs : list (bytes * rule_src); d_slots : list (bytes * rule_src) }.

Definition decl_valid (d : decl) : bool :=
  forallb (fun ir => rule_valid (snd ir)) (d_plugs d) && forallb (fun ir => rule_valid (snd ir)) (d_slots d).

Definition plug_rule (d : decl) (iface : bytes) : option rule := option_map compile_rule (assoc iface (d_plugs d)).
Definition slot_rule (d : decl) (iface : bytes) : option rule := option_map compile_rule (assoc iface (d_slots d)).

(* release.OnClassic, release.ReleaseInfo.ID, release.OnCoreDesktop, the model (brand, model, store) and the store
   assertion (store, friendly-stores) *)
Record env := mkEnv { e_classic : bool; e_os_id : bytes; e_core_desktop : bool;
                      e_model : option (bytes * bytes * bytes); e_store : option (bytes * list bytes) }.

(* one plug or slot with the type of its snap (snap.Info.Type() as a string) *)
Record side := mkSide { f_name : bytes; f_iface : bytes; f_type : bytes; f_static : list (bytes * aval);
                        f_dyn : list (bytes * aval) }.
Definition side_attrs (s : side) : attrs := (f_static s, f_dyn s).

Record decls := mkDecls { plug_decl : option decl; slot_decl : option decl; base_decl : decl }.

Record conn := mkConn { k_env : env; k_plug : side; k_slot : side; k_decls : decls }.

(* plugSnapID / slotSnapID / PlugPublisherID / SlotPublisherID: empty without a snap-declaration *)
Definition od_snap_id (d : option decl) : bytes := match d with Some x => d_snap_id x | None => [] end.
Definition od_pub_id (d : option decl) : bytes := match d with Some x => d_pub_id x | None => [] end.

Definition conn_ctx (c : conn) : mctx :=
  {| c_plug := side_attrs (k_plug c); c_slot := side_attrs (k_slot c);
     c_plug_pub := od_pub_id (plug_decl (k_decls c)); c_slot_pub := od_pub_id (slot_decl (k_decls c)) |}.

(* ------------------------------------------------------------------ check helpers (interfaces/policy/helpers.go) *)
Definition mem (x : bytes) (l : list bytes) : bool := existsb (beq x) l.

(* checkSnapType *)
Definition check_snap_type (ty : bytes) (types : list bytes) : bool :=
  match types with
  | [] => true
  | _ => mem (if beq ty (bs "os"%string) || beq ty (bs "snapd"%string) then bs "core"%string else ty) types
  end.

(* checkID; special maps a $NAME to its value, empty when unknown *)
Definition check_id (id : bytes) (ids : list bytes) (special : bytes -> bytes) : bool :=
  match ids with
  | [] => true
  | _ => negb (is_nil_b id) &&
         existsb (fun cand => let cand' := match cand with 36 :: _ => special cand | _ => cand end in
                              negb (is_nil_b cand') && beq id cand') ids
  end.
Definition no_special (_ : bytes) : bytes := [].
Definition one_special (name value : bytes) (x : bytes) : bytes := if beq x name then value else [].

(* checkOnClassic *)
Definition check_on_classic (e : env) (c : option (bool * list bytes)) : bool :=
  match c with
  | None => true
  | Some (cl, ids) =>
      Bool.eqb cl (e_classic e) && (if cl && negb (is_nil_b ids) then check_id (e_os_id e) ids no_special else true)
  end.

(* checkOnCoreDesktop *)
Definition check_on_core_desktop (e : env) (c : option bool) : bool :=
  match c with None => true | Some b => Bool.eqb b (e_core_desktop e) end.

(* checkDeviceScope -> DeviceScopeConstraint.Check with UseFriendlyStores *)
Definition check_device_scope (e : env) (c : option (list bytes * list bytes * list bytes)) : bool :=
  match c with
  | None => true
  | Some (st, br, mo) =>
      match e_model e with
      | None => false
      | Some (brand, model, mstore) =>
          match e_store e with Some (sid, _) => beq sid mstore | None => true end
          && (is_nil_b st || mem mstore st
              || match e_store e with Some (_, fr) => existsb (fun s => mem s fr) st | None => false end)
          && (is_nil_b br || mem brand br)
          && (is_nil_b mo || mem (brand ++ 47 :: model) mo)
      end
  end.

(* compileNameMatcher + NameConstraints.Check: an entry starting with $ is special, anything else a regexp (an
   alternation of literals) that must match the whole name *)
Definition name_match (iface name : bytes) (entry : bytes) : bool :=
  match entry with
  | 36 :: _ => if beq entry (bs "$INTERFACE"%string) then negb (is_nil_b iface) && beq iface name else false
  | _ => alt_lit_match entry name
  end.

(* The same, written independently for the monitor: one left-to-right scan of the entry that compares the name with the
   current alternative; st = Some r: the current alternative agrees so far and r of the name is left; None: it failed. *)
Fixpoint seg_scan (entry : bytes) (st : option bytes) (name : bytes) : bool :=
  match entry with
  | [] => match st with Some [] => true | _ => false end
  | c :: e =>
      if c =? 124 then match st with Some [] => true | _ => seg_scan e (Some name) name end
      else match st with
           | Some (x :: r) => if x =? c then seg_scan e (Some r) name else seg_scan e None name
           | _ => seg_scan e None name
           end
  end.
Definition name_match_ref (iface name : bytes) (entry : bytes) : bool :=
  match entry with
  | 36 :: _ => beq entry (bs "$INTERFACE"%string) && negb (is_nil_b iface) && beq iface name
  | _ => seg_scan entry (Some name) name
  end.

Definition check_names_gen (nm : bytes -> bytes -> bytes -> bool) (c : option (list bytes)) (iface name : bytes) : bool :=
  match c with None => true | Some l => existsb (nm iface name) l end.
Definition check_names := check_names_gen name_match.

(* checkPlugConnectionConstraints1 *)
Definition check_plug_conn1_gen (nm : bytes -> bytes -> bytes -> bool) (cd : env -> option bool -> bool) (ci : (bytes -> list bytes -> (bytes -> bytes) -> bool)) (c : conn) (a : alt) : bool :=
  let p := k_plug c in let s := k_slot c in let ctx := Some (conn_ctx c) in
  check_names_gen nm (a_plug_names a) (f_iface p) (f_name p)
  && check_names_gen nm (a_slot_names a) (f_iface s) (f_name s)
  && attrs_check ctx (a_plug_attrs a) (side_attrs p)
  && attrs_check ctx (a_slot_attrs a) (side_attrs s)
  && check_snap_type (f_type s) (a_slot_snap_types a)
  && ci (od_snap_id (slot_decl (k_decls c))) (a_slot_snap_ids a) no_special
  && ci (od_pub_id (slot_decl (k_decls c))) (a_slot_pub_ids a)
              (one_special (bs "$PLUG_PUBLISHER_ID"%string) (od_pub_id (plug_decl (k_decls c))))
  && check_on_classic (k_env c) (a_on_classic a)
  && cd (k_env c) (a_on_core_desktop a)
  && check_device_scope (k_env c) (a_device a).
Definition check_plug_conn1 := check_plug_conn1_gen name_match check_on_core_desktop check_id.

(* checkSlotConnectionConstraints1 *)
Definition check_slot_conn1_gen (nm : bytes -> bytes -> bytes -> bool) (cd : env -> option bool -> bool) (ci : (bytes -> list bytes -> (bytes -> bytes) -> bool)) (c : conn) (a : alt) : bool :=
  let p := k_plug c in let s := k_slot c in let ctx := Some (conn_ctx c) in
  check_names_gen nm (a_plug_names a) (f_iface p) (f_name p)
  && check_names_gen nm (a_slot_names a) (f_iface s) (f_name s)
  && attrs_check ctx (a_plug_attrs a) (side_attrs p)
  && attrs_check ctx (a_slot_attrs a) (side_attrs s)
  && check_snap_type (f_type s) (a_slot_snap_types a)
  && check_snap_type (f_type p) (a_plug_snap_types a)
  && ci (od_snap_id (plug_decl (k_decls c))) (a_plug_snap_ids a) no_special
  && ci (od_pub_id (plug_decl (k_decls c))) (a_plug_pub_ids a)
              (one_special (bs "$SLOT_PUBLISHER_ID"%string) (od_pub_id (slot_decl (k_decls c))))
  && check_on_classic (k_env c) (a_on_classic a)
  && cd (k_env c) (a_on_core_desktop a)
  && check_device_scope (k_env c) (a_device a).
Definition check_slot_conn1 := check_slot_conn1_gen name_match check_on_core_desktop check_id.

(* check*AltConstraints: OR over the alternatives; with NO alternative the Go loop returns (nil, nil), i.e. no error *)
Definition alts_ok (f : alt -> bool) (l : list alt) : bool :=
  match l with [] => true | _ => existsb f l end.

Inductive verdict := VAllow (any : bool) | VRefuse | VPanic | VInvalid.

(* normalizeSideArityConstraints: connection -> any; auto-connection -> any stays, everything else 1 *)
Definition arity_any (auto : bool) (a : alt) : bool :=
  if auto then match a_slots_per_plug a with Some None => true | _ => false end else true.

(* ConnectCandidate.checkPlugRule / checkSlotRule on the chosen deny/allow lists. An empty allow list makes the Go code
   dereference a nil *Constraints (allowedConstraints.SlotsPerPlug): VPanic. *)
Definition eval_conn (f : alt -> bool) (auto : bool) (deny allow : list alt) : verdict :=
  if alts_ok f deny then VRefuse
  else match allow with
       | [] => VPanic
       | _ => match find f allow with Some a => VAllow (arity_any auto a) | None => VRefuse end
       end.

Definition rule_deny (auto : bool) (r : rule) := if auto then r_deny_auto r else r_deny_conn r.
Definition rule_allow (auto : bool) (r : rule) := if auto then r_allow_auto r else r_allow_conn r.

(* which side's rule decides, and the rule: the four-level precedence of ConnectCandidate.check *)
Definition first_rule (ds : decls) (iface : bytes) : option (bool * rule) :=    (* true: plug-side rule *)
  match match plug_decl ds with Some d => plug_rule d iface | None => None end with
  | Some r => Some (true, r)
  | None =>
      match match slot_decl ds with Some d => slot_rule d iface | None => None end with
      | Some r => Some (false, r)
      | None =>
          match plug_rule (base_decl ds) iface with
          | Some r => Some (true, r)
          | None => match slot_rule (base_decl ds) iface with Some r => Some (false, r) | None => None end
          end
      end
  end.

(* ConnectCandidate.check(kind) followed by Check / CheckAutoConnect (a nil arity becomes 1) *)
Definition check_connect (auto : bool) (c : conn) : verdict :=
  let iface := f_iface (k_plug c) in
  if negb (beq (f_iface (k_slot c)) iface) then VRefuse
  else match first_rule (k_decls c) iface with
       | Some (true, r) => eval_conn (check_plug_conn1 c) auto (rule_deny auto r) (rule_allow auto r)
       | Some (false, r) => eval_conn (check_slot_conn1 c) auto (rule_deny auto r) (rule_allow auto r)
       | None => VAllow (negb auto)
       end.

Definition decls_valid (ds : decls) : bool :=
  match plug_decl ds with Some d => decl_valid d | None => true end
  && match slot_decl ds with Some d => decl_valid d | None => true end
  && decl_valid (base_decl ds).

(* ------------------------------------------------------------------ installation *)
Record inst := mkInst { i_env : env; i_type : bytes; i_slots : list side; i_plugs : list side;
                        i_decl : option decl; i_base : decl }.

(* checkSlotInstallationConstraints1 / checkPlugInstallationConstraints1 (attributes are checked without context) *)
Definition check_slot_inst1_gen (nm : bytes -> bytes -> bytes -> bool) (cd : env -> option bool -> bool) (ci : (bytes -> list bytes -> (bytes -> bytes) -> bool)) (i : inst) (s : side) (a : alt) : bool :=
  check_names_gen nm (a_slot_names a) (f_iface s) (f_name s)
  && attrs_check None (a_slot_attrs a) (f_static s, [])
  && check_snap_type (i_type i) (a_slot_snap_types a)
  && ci (od_snap_id (i_decl i)) (a_slot_snap_ids a) no_special
  && check_on_classic (i_env i) (a_on_classic a)
  && cd (i_env i) (a_on_core_desktop a)
  && check_device_scope (i_env i) (a_device a).
Definition check_slot_inst1 := check_slot_inst1_gen name_match check_on_core_desktop check_id.
Definition check_plug_inst1_gen (nm : bytes -> bytes -> bytes -> bool) (cd : env -> option bool -> bool) (ci : (bytes -> list bytes -> (bytes -> bytes) -> bool)) (i : inst) (p : side) (a : alt) : bool :=
  check_names_gen nm (a_plug_names a) (f_iface p) (f_name p)
  && attrs_check None (a_plug_attrs a) (f_static p, [])
  && check_snap_type (i_type i) (a_plug_snap_types a)
  && ci (od_snap_id (i_decl i)) (a_plug_snap_ids a) no_special
  && check_on_classic (i_env i) (a_on_classic a)
  && cd (i_env i) (a_on_core_desktop a)
  && check_device_scope (i_env i) (a_device a).
Definition check_plug_inst1 := check_plug_inst1_gen name_match check_on_core_desktop check_id.

(* InstallCandidate.checkSlotRule / checkPlugRule: true = installation allowed *)
Definition eval_inst (f : alt -> bool) (deny allow : list alt) : bool :=
  if alts_ok f deny then false else alts_ok f allow.

(* InstallCandidate.checkSlot / checkPlug: snap-declaration rule, else base-declaration rule, else allowed *)
Definition inst_slot_rule (i : inst) (iface : bytes) : option rule :=
  match match i_decl i with Some d => slot_rule d iface | None => None end with
  | Some r => Some r
  | None => slot_rule (i_base i) iface
  end.
Definition inst_plug_rule (i : inst) (iface : bytes) : option rule :=
  match match i_decl i with Some d => plug_rule d iface | None => None end with
  | Some r => Some r
  | None => plug_rule (i_base i) iface
  end.
Definition check_inst_slot (i : inst) (s : side) : bool :=
  match inst_slot_rule i (f_iface s) with
  | Some r => eval_inst (check_slot_inst1 i s) (r_deny_inst r) (r_allow_inst r)
  | None => true
  end.
Definition check_inst_plug (i : inst) (p : side) : bool :=
  match inst_plug_rule i (f_iface p) with
  | Some r => eval_inst (check_plug_inst1 i p) (r_deny_inst r) (r_allow_inst r)
  | None => true
  end.
(* InstallCandidate.Check *)
Definition check_install (i : inst) : bool :=
  forallb (check_inst_slot i) (i_slots i) && forallb (check_inst_plug i) (i_plugs i).

Definition inst_valid (i : inst) : bool :=
  match i_decl i with Some d => decl_valid d | None => true end && decl_valid (i_base i).

(* ------------------------------------------------------------------ the property, stated directly (reference evaluator) *)
(* a connection is allowed iff the interfaces agree and either no level has a rule for the interface, or in the rule
   of the first level that has one no deny alternative matches and some allow alternative matches *)
Definition spec_connect_allowed_gen (nm : bytes -> bytes -> bytes -> bool) (cd : env -> option bool -> bool) (ci : (bytes -> list bytes -> (bytes -> bytes) -> bool)) (auto : bool) (c : conn) : bool :=
  let iface := f_iface (k_plug c) in
  beq (f_iface (k_slot c)) iface &&
  match first_rule (k_decls c) iface with
  | None => true
  | Some (plugside, r) =>
      let m := if plugside then check_plug_conn1_gen nm cd ci c else check_slot_conn1_gen nm cd ci c in
      negb (existsb m (rule_deny auto r)) && existsb m (rule_allow auto r)
  end.

Definition spec_install_allowed_gen (nm : bytes -> bytes -> bytes -> bool) (cd : env -> option bool -> bool) (ci : (bytes -> list bytes -> (bytes -> bytes) -> bool)) (i : inst) : bool :=
  forallb (fun s => match inst_slot_rule i (f_iface s) with
                    | None => true
                    | Some r => negb (existsb (check_slot_inst1_gen nm cd ci i s) (r_deny_inst r))
                                && existsb (check_slot_inst1_gen nm cd ci i s) (r_allow_inst r)
                    end) (i_slots i)
  && forallb (fun p => match inst_plug_rule i (f_iface p) with
                       | None => true
                       | Some r => negb (existsb (check_plug_inst1_gen nm cd ci i p) (r_deny_inst r))
                                   && existsb (check_plug_inst1_gen nm cd ci i p) (r_allow_inst r)
                       end) (i_plugs i).
Definition spec_connect_allowed := spec_connect_allowed_gen name_match check_on_core_desktop check_id.
Definition spec_install_allowed := spec_install_allowed_gen name_match check_on_core_desktop check_id.
(* the reference evaluator of the monitor uses the independently written whole-name matcher and its own statement of
   the on-core-desktop atom: the constraint holds exactly when its value is the system's core-desktop flag, on EVERY
   kind of system (classic: flag false; core: false; core desktop: true) - being classic changes nothing *)
Definition core_desktop_ref (e : env) (c : option bool) : bool :=
  match c, e_core_desktop e with
  | None, _ => true
  | Some true, true => true
  | Some false, false => true
  | Some true, false => false
  | Some false, true => false
  end.
(* ... and its own statement of an id constraint: the entries of the list are ALTERNATIVES, examined one by one to the
   end of the list; an entry starting with $ stands for the value it resolves to and simply does not match when it
   cannot be resolved (empty); an unset id never matches; an empty list does not constrain *)
Fixpoint id_in (id : bytes) (ids : list bytes) (special : bytes -> bytes) : bool :=
  match ids with
  | [] => false
  | c :: r =>
      (match c with
       | 36 :: _ => match special c with [] => false | v => beq v id end
       | _ => beq c id
       end) || id_in id r special
  end.
Definition check_id_ref (id : bytes) (ids : list bytes) (special : bytes -> bytes) : bool :=
  match ids, id with
  | [], _ => true
  | _, [] => false
  | _, _ => id_in id ids special
  end.
Definition ref_connect_allowed := spec_connect_allowed_gen name_match_ref core_desktop_ref check_id_ref.
Definition ref_install_allowed := spec_install_allowed_gen name_match_ref core_desktop_ref check_id_ref.

(* ------------------------------------------------------------------ correspondence / monitor interface *)
Definition verdict_eqb (a b : verdict) : bool :=
  match a, b with
  | VAllow x, VAllow y => Bool.eqb x y
  | VRefuse, VRefuse | VPanic, VPanic | VInvalid, VInvalid => true
  | _, _ => false
  end.
Definition is_allow (v : verdict) : bool := match v with VAllow _ => true | _ => false end.
Definition is_refuse (v : verdict) : bool := match v with VRefuse => true | _ => false end.

(* plain Check() does not return the arity: compare allowed / refused only *)
Definition conn_verdict_eqb (auto : bool) (a b : verdict) : bool :=
  if auto then verdict_eqb a b
  else match a, b with VAllow _, VAllow _ => true | _, _ => verdict_eqb a b end.

Definition model_connect (auto : bool) (c : conn) : verdict :=
  if decls_valid (k_decls c) then check_connect auto c else VInvalid.
Definition model_install (i : inst) : verdict :=
  if inst_valid i then (if check_install i then VAllow true else VRefuse) else VInvalid.

Definition with_decls (c : conn) (ds : decls) : conn := mkConn (k_env c) (k_plug c) (k_slot c) ds.
Definition inst_with (i : inst) (d : option decl) (b : decl) : inst :=
  mkInst (i_env i) (i_type i) (i_slots i) (i_plugs i) d b.

(* ------------------------------------------------------------------ the two variants the driver also runs *)
(* a rule shortcut written out as the map it stands for *)
Definition expand_short (b : bool) : rule_map :=
  mkRuleMap (Some (SShort b)) (Some (SShort (negb b))) (Some (SShort b)) (Some (SShort (negb b)))
            (Some (SShort b)) (Some (SShort (negb b))).

(* add the alternative d to a deny subrule; `deny-*: true` absorbs it *)
Definition add_deny_sub (d : alt) (s : option subrule_src) : option subrule_src :=
  match s with
  | None => Some (SOne d)
  | Some (SShort false) => Some (SOne d)
  | Some (SShort true) => s
  | Some (SOne a) => Some (SAlts [a; d])
  | Some (SAlts l) => Some (SAlts (l ++ [d]))
  end.

(* which: 0 deny-installation, 1 deny-connection, 2 deny-auto-connection *)
Definition add_deny_map (which : N) (d : alt) (m : rule_map) : rule_map :=
  match which with
  | 0 => mkRuleMap (s_allow_inst m) (add_deny_sub d (s_deny_inst m)) (s_allow_conn m) (s_deny_conn m)
                   (s_allow_auto m) (s_deny_auto m)
  | 1 => mkRuleMap (s_allow_inst m) (s_deny_inst m) (s_allow_conn m) (add_deny_sub d (s_deny_conn m))
                   (s_allow_auto m) (s_deny_auto m)
  | _ => mkRuleMap (s_allow_inst m) (s_deny_inst m) (s_allow_conn m) (s_deny_conn m)
                   (s_allow_auto m) (add_deny_sub d (s_deny_auto m))
  end.
Definition add_deny_rule (which : N) (d : alt) (r : rule_src) : rule_src :=
  match r with
  | RShort b => RMap (add_deny_map which d (expand_short b))
  | RMap m => RMap (add_deny_map which d m)
  end.
(* dp is added to every plug rule, ds to every slot rule *)
Definition decl_add_deny (which : N) (dp ds : alt) (d : decl) : decl :=
  mkDecl (d_snap_id d) (d_pub_id d)
         (map (fun ir => (fst ir, add_deny_rule which dp (snd ir))) (d_plugs d))
         (map (fun ir => (fst ir, add_deny_rule which ds (snd ir))) (d_slots d)).
Definition decls_add_deny (which : N) (dp ds : alt) (x : decls) : decls :=
  mkDecls (option_map (decl_add_deny which dp ds) (plug_decl x)) (option_map (decl_add_deny which dp ds) (slot_decl x))
          (decl_add_deny which dp ds (base_decl x)).

(* drop the rule for iface, then (when low is given) add low as the rule for iface *)
Definition set_rule (l : list (bytes * rule_src)) (iface : bytes) (low : option rule_src) : list (bytes * rule_src) :=
  filter (fun ir => negb (beq (fst ir) iface)) l ++ match low with Some r => [(iface, r)] | None => [] end.

(* 1..4: the level whose rule decides, 0: none *)
Definition deciding_level (x : decls) (iface : bytes) : N :=
  if match plug_decl x with Some d => has_key iface (d_plugs d) | None => false end then 1
  else if match slot_decl x with Some d => has_key iface (d_slots d) | None => false end then 2
  else if has_key iface (d_plugs (base_decl x)) then 3
  else if has_key iface (d_slots (base_decl x)) then 4 else 0.

(* every level below the deciding one gets its rule for iface replaced by low (or removed) *)
Definition decls_low (x : decls) (iface : bytes) (low : option rule_src) : decls :=
  let lv := deciding_level x iface in
  if lv =? 0 then x else
  let sd := if lv <? 2 then option_map (fun d => mkDecl (d_snap_id d) (d_pub_id d) (d_plugs d) (set_rule (d_slots d) iface low))
                                       (slot_decl x) else slot_decl x in
  let b := base_decl x in
  let bp := if lv <? 3 then set_rule (d_plugs b) iface low else d_plugs b in
  let bsl := if lv <? 4 then set_rule (d_slots b) iface low else d_slots b in
  mkDecls (plug_decl x) sd (mkDecl (d_snap_id b) (d_pub_id b) bp bsl).

(* installation: every base-declaration rule shadowed by a snap-declaration rule is replaced by low (or removed) *)
Definition inst_base_low (i : inst) (low : option rule_src) : decl :=
  let b := i_base i in
  match i_decl i with
  | None => b
  | Some d =>
      mkDecl (d_snap_id b) (d_pub_id b)
             (fold_left (fun l ir => set_rule l (fst ir) low) (d_plugs d) (d_plugs b))
             (fold_left (fun l ir => set_rule l (fst ir) low) (d_slots d) (d_slots b))
  end.

(* CConn: the candidate and the implementation's verdict; xp/xs: a deny alternative that the driver adds to the deny
   subrule (of the checked kind) of every plug rule / slot rule, and the implementation's verdict then; low: the rule
   the driver puts in place of the rules below the deciding level, and the verdict then; guard = every compiled rule
   of every real declaration has six non-empty alternative lists.
   CInst: the same for InstallCandidate.Check. *)
Inductive case :=
| CConn (auto : bool) (c : conn) (obs : verdict) (xp xs : alt) (obs_deny : verdict)
        (low : option rule_src) (obs_low : verdict) (guard : bool)
| CInst (i : inst) (obs : verdict) (xp xs : alt) (obs_deny : verdict)
        (low : option rule_src) (obs_low : verdict) (guard : bool).

Definition conn_deny_variant (auto : bool) (c : conn) (xp xs : alt) : conn :=
  with_decls c (decls_add_deny (if auto then 2 else 1) xp xs (k_decls c)).
Definition conn_low_variant (c : conn) (low : option rule_src) : conn :=
  with_decls c (decls_low (k_decls c) (f_iface (k_plug c)) low).
Definition inst_deny_variant (i : inst) (xp xs : alt) : inst :=
  inst_with i (option_map (decl_add_deny 0 xp xs) (i_decl i)) (decl_add_deny 0 xp xs (i_base i)).
Definition inst_low_variant (i : inst) (low : option rule_src) : inst :=
  inst_with i (i_decl i) (inst_base_low i low).

Definition mismatch (x : case) : bool :=
  match x with
  | CConn auto c obs xp xs obsd low obsl _ =>
      negb (conn_verdict_eqb auto (model_connect auto c) obs)
      || match obs with
         | VInvalid => false
         | _ => negb (conn_verdict_eqb auto (model_connect auto (conn_deny_variant auto c xp xs)) obsd)
                || negb (conn_verdict_eqb auto (model_connect auto (conn_low_variant c low)) obsl)
         end
  | CInst i obs xp xs obsd low obsl _ =>
      negb (verdict_eqb (model_install i) obs)
      || match obs with
         | VInvalid => false
         | _ => negb (verdict_eqb (model_install (inst_deny_variant i xp xs)) obsd)
                || negb (verdict_eqb (model_install (inst_low_variant i low)) obsl)
         end
  end.

(* the property on the implementation's observed verdicts:
   - no panic, and the non-emptiness guard holds on the real compiled rules;
   - the verdict is the one the stated rule semantics gives (reference evaluator);
   - the same for the two variants (the variant declarations are built both by the driver and by the model);
   - adding a deny alternative never turns Refused into Allowed;
   - rules below the deciding level are ignored. *)
Definition monitor_fail (x : case) : bool :=
  match x with
  | CConn auto c obs xp xs obsd low obsl guard =>
      match obs with
      | VInvalid => false
      | VPanic => true
      | _ =>
          negb guard
          || negb (Bool.eqb (is_allow obs) (ref_connect_allowed auto c))
          || negb (Bool.eqb (is_allow obsd) (ref_connect_allowed auto (conn_deny_variant auto c xp xs)))
          || negb (Bool.eqb (is_allow obsl) (ref_connect_allowed auto (conn_low_variant c low)))
          || (is_refuse obs && is_allow obsd)
          || match obsd with VPanic => true | _ => false end
          || negb (conn_verdict_eqb auto obs obsl)
      end
  | CInst i obs xp xs obsd low obsl guard =>
      match obs with
      | VInvalid => false
      | VPanic => true
      | _ =>
          negb guard
          || negb (Bool.eqb (is_allow obs) (ref_install_allowed i))
          || negb (Bool.eqb (is_allow obsd) (ref_install_allowed (inst_deny_variant i xp xs)))
          || negb (Bool.eqb (is_allow obsl) (ref_install_allowed (inst_low_variant i low)))
          || (is_refuse obs && is_allow obsd)
          || match obsd with VPanic => true | _ => false end
          || negb (verdict_eqb obs obsl)
      end
  end.
