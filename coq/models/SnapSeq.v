(* SnapSeq — executable model of what install / refresh / revert / remove / enable / disable changes do to the recorded
   state of ONE snap (overlord/snapstate SnapState + the snap's configuration) and to the system-visible side as
   snapd asks its backend to change it (mounted revisions, the `current` link).  Shared by C10, C11, C12, C13.

   Written function by function from overlord/snapstate/handlers.go, snapstate.go, snapmgr.go and
   overlord/configstate/config/helpers.go; each definition names the Go function it mirrors.  No proofs here.

   Scope: a snap of type app without components; tasks of other managers (hooks, profiles, aliases, services,
   connections) are steps that do not touch this state, except the configure hook, which may write the snap's
   configuration.  Data directories are represented only by what undoUnlinkSnap asks about them. *)
From Coq Require Import List NArith ZArith Bool Arith.
Import ListNotations.
Open Scope N_scope.

(* ------------------------------------------------------------------------------------------------ small helpers *)

Fixpoint mem (x : N) (l : list N) : bool :=
  match l with [] => false | y :: r => (x =? y) || mem x r end.

Fixpoint list_eqb (a b : list N) : bool :=
  match a, b with
  | [], [] => true
  | x :: a', y :: b' => (x =? y) && list_eqb a' b'
  | _, _ => false
  end.

(* sequence.SnapSequence.LastIndex: index of the LAST occurrence *)
Fixpoint last_index (x : N) (l : list N) : option nat :=
  match l with
  | [] => None
  | y :: r => match last_index x r with
              | Some i => Some (S i)
              | None => if x =? y then Some O else None
              end
  end.

Fixpoint remove_at (i : nat) (l : list N) : list N :=
  match l, i with
  | [], _ => []
  | _ :: r, O => r
  | y :: r, S i' => y :: remove_at i' r
  end.

Definition rem (x : N) (l : list N) : list N := filter (fun y => negb (y =? x)) l.

(* sets kept as strictly increasing lists: keys of the RevertStatus map, mounted revisions *)
Fixpoint ins (x : N) (l : list N) : list N :=
  match l with
  | [] => [x]
  | y :: r => if x <? y then x :: l else if x =? y then l else y :: ins x r
  end.

(* revision-config: map revision -> configuration value, kept sorted by revision *)
Fixpoint rc_get (r : N) (m : list (N * N)) : option N :=
  match m with [] => None | (k, v) :: t => if k =? r then Some v else rc_get r t end.
Fixpoint rc_set (r v : N) (m : list (N * N)) : list (N * N) :=
  match m with
  | [] => [(r, v)]
  | (k, w) :: t => if r <? k then (r, v) :: m else if r =? k then (r, v) :: t else (k, w) :: rc_set r v t
  end.
Definition rc_del (r : N) (m : list (N * N)) : list (N * N) := filter (fun kv => negb (fst kv =? r)) m.

(* ------------------------------------------------------------------------------------------------ state *)

(* SnapState (snapmgr.go) projected to what C10 lists, the snap's entries in the `config` and `revision-config` state
   maps, and the world.  Revision 0 = unset; channel / cohort are small identifiers, 0 = empty string;
   times are clock readings, 0 = nil; cfg 0 = the snap has no configuration. *)
Record st := mkSt {
  seq : list N;            (* Sequence.Revisions, in order *)
  cur : N;                 (* Current *)
  active : bool;           (* Active *)
  chan : N;                (* TrackingChannel *)
  devmode : bool; jailmode : bool; classic : bool; trymode : bool;   (* Flags *)
  ignoreval : bool;        (* IgnoreValidation *)
  cohort : N;              (* CohortKey *)
  lastref : N;             (* LastRefreshTime *)
  inhib : N;               (* RefreshInhibitedTime *)
  nb : list N;             (* keys of RevertStatus whose value is NotBlocked, increasing *)
  cfg : N;                 (* config[snap] *)
  revcfg : list (N * N);   (* revision-config[snap] *)
  mounted : list N;        (* world: revisions set up (SetupSnap) and not removed, increasing *)
  link : N                 (* world: revision the backend linked as current (LinkSnap/UnlinkSnap), 0 = none *)
}.

Definition empty : st := mkSt [] 0 false 0 false false false false false 0 0 0 [] 0 [] [] 0.

(* snapstate.Set: a SnapState whose sequence is empty is deleted from the state, so it reads back as the zero value *)
Definition norm (s : st) : st :=
  match seq s with
  | [] => mkSt [] 0 false 0 false false false false false 0 0 0 [] (cfg s) (revcfg s) (mounted s) (link s)
  | _ => s
  end.

(* SnapState.Block: revisions after the current one, minus those marked NotBlocked *)
Definition block (s : st) : list N :=
  match last_index (cur s) (seq s) with
  | None => []
  | Some i => filter (fun r => negb (mem r (nb s))) (skipn (S i) (seq s))
  end.

(* SnapState.previousSideInfo *)
Definition previous (s : st) : option N :=
  match last_index (cur s) (seq s) with
  | Some (S i) => nth_error (seq s) i
  | _ => None
  end.

(* ------------------------------------------------------------------------------------------------ operations *)

Inductive opkind := OInstall | ORefresh | ORevert | ORemove | ORemoveRev | OEnable | ODisable
                  | OSetCfg | OInhibit | ORetain.

(* an operation together with the SnapSetup fields its change carries (read back from the change by the driver;
   how the entry points derive them from user flags is outside this model) *)
Record op := mkOp {
  okind : opkind;
  orev : N;                (* target revision (SnapSetup.SideInfo.Revision); value for OSetCfg *)
  odefault : bool;         (* ORevert through Revert(): the target is the previous revision *)
  ochan : N;               (* SnapSetup.Channel *)
  odev : bool; ojail : bool; oclassic : bool; otry : bool; oignore : bool;
  ocohort : N;
  onotblocked : bool;      (* SnapSetup.RevertStatus = NotBlocked *)
  ohookcfg : N;            (* value the configure hook writes into the snap's configuration, 0 = it writes nothing *)
  onow : N;                (* timeNow() during the change *)
  ofromstore : bool        (* the snap comes from the store (download + validate); false = a local file (SnapSetup.SnapPath
                              set: InstallPath, snap try): prepare-snap, no assertion check.  Only matters for a revision
                              that is not kept yet; doInstall's garbage collection must not depend on it *)
}.

Definition is_revert (o : op) : bool := match okind o with ORevert => true | _ => false end.

(* task kinds of the generated changes *)
Inductive kind :=
| KPrereq | KPrepare | KDownload | KValidate | KMount | KPreRefresh | KStop | KRemoveAliases | KUnlinkCurrent
| KCopyData | KSetupProfiles | KLink | KAutoConnect | KSetAutoAliases | KSetupAliases | KPostRefresh | KInstallHook
| KDefaultConfigure | KStart | KClear | KDiscard | KCleanup | KConfigure | KCheckHealth
| KRemoveHook | KAutoDisconnect | KSaveSnapshot | KUnlinkSnap | KRemoveProfiles | KOther.

Definition kind_eqb (a b : kind) : bool :=
  match a, b with
  | KPrereq, KPrereq | KPrepare, KPrepare | KDownload, KDownload | KValidate, KValidate | KMount, KMount
  | KPreRefresh, KPreRefresh | KStop, KStop | KRemoveAliases, KRemoveAliases | KUnlinkCurrent, KUnlinkCurrent
  | KCopyData, KCopyData | KSetupProfiles, KSetupProfiles | KLink, KLink | KAutoConnect, KAutoConnect
  | KSetAutoAliases, KSetAutoAliases | KSetupAliases, KSetupAliases | KPostRefresh, KPostRefresh
  | KInstallHook, KInstallHook | KDefaultConfigure, KDefaultConfigure | KStart, KStart | KClear, KClear
  | KDiscard, KDiscard | KCleanup, KCleanup | KConfigure, KConfigure | KCheckHealth, KCheckHealth
  | KRemoveHook, KRemoveHook | KAutoDisconnect, KAutoDisconnect | KSaveSnapshot, KSaveSnapshot
  | KUnlinkSnap, KUnlinkSnap | KRemoveProfiles, KRemoveProfiles | KOther, KOther => true
  | _, _ => false
  end.

(* a task: its kind and the revision of its own snap-setup (the target for mount/link, the discarded revision for
   clear/discard) *)
Definition task := (kind * N)%type.

(* ------------------------------------------------------------------------------------------------ handlers *)

(* what doLinkSnap saves on the task for undoLinkSnap *)
Record ldata := mkLD {
  old_chan : N; old_ignore : bool; old_try : bool; old_dev : bool; old_jail : bool; old_classic : bool;
  old_cur : N;
  old_cand : option nat;       (* old-candidate-index, None = -1 *)
  old_inhib : N; old_lastref : N; old_cohort : N;
  old_before : list N;         (* old-revs-before-cand *)
  old_rs : option (list N)     (* old-revert-status (saved by every link-snap since fix 5dcb85f; None = task of an older snapd) *)
}.

(* config.SaveRevisionConfig / RestoreRevisionConfig / DiscardRevisionConfig / DeleteSnapConfig *)
Definition save_rev_cfg (r : N) (c : N) (m : list (N * N)) : list (N * N) :=
  if c =? 0 then m else rc_set r c m.
Definition restore_rev_cfg (r : N) (c : N) (m : list (N * N)) : N :=
  match rc_get r m with Some v => v | None => c end.

(* doMountSnap / undoMountSnap: backend SetupSnap / UndoSetupSnap + RemoveSnapDir *)
Definition do_mount (r : N) (s : st) : st :=
  mkSt (seq s) (cur s) (active s) (chan s) (devmode s) (jailmode s) (classic s) (trymode s) (ignoreval s) (cohort s)
       (lastref s) (inhib s) (nb s) (cfg s) (revcfg s) (ins r (mounted s)) (link s).
Definition undo_mount (r : N) (s : st) : st :=
  mkSt (seq s) (cur s) (active s) (chan s) (devmode s) (jailmode s) (classic s) (trymode s) (ignoreval s) (cohort s)
       (lastref s) (inhib s) (nb s) (cfg s) (revcfg s) (rem r (mounted s)) (link s).

Definition set_active_link (a : bool) (l : N) (s : st) : st :=
  mkSt (seq s) (cur s) a (chan s) (devmode s) (jailmode s) (classic s) (trymode s) (ignoreval s) (cohort s)
       (lastref s) (inhib s) (nb s) (cfg s) (revcfg s) (mounted s) l.

(* doUnlinkCurrentSnap: Active = false, backend UnlinkSnap(oldInfo), Set.
   undoUnlinkCurrentSnap: Active = true, backend LinkSnap(CurrentInfo), Set *)
Definition do_unlink_current (s : st) : st := norm (set_active_link false 0 s).
Definition undo_unlink_current (s : st) : st := norm (set_active_link true (cur s) s).

(* doUnlinkSnap (remove, disable): backend UnlinkSnap, Active = false, Set.
   undoUnlinkSnap: if the data directories of the current revision are still there (no clear-snap of it has run):
   Active = true, Set, backend LinkSnap(CurrentInfo); otherwise nothing *)
Definition do_unlink_snap (s : st) : st := norm (set_active_link false 0 s).
Definition undo_unlink_snap (data_there : bool) (s : st) : st :=
  if data_there then norm (set_active_link true (cur s) s) else s.

(* doLinkSnap *)
Definition do_link (o : op) (s : st) : st * ldata :=
  let r := orev o in
  let ci := last_index r (seq s) in
  let installed := match seq s with [] => false | _ => true end in
  let seq' := match ci with
              | None => seq s ++ [r]
              | Some i => if is_revert o then seq s else remove_at i (seq s) ++ [r]
              end in
  let before := match ci with
                | Some i => if is_revert o then [] else firstn i (seq s)
                | None => []
                end in
  let revcfg1 := if installed then save_rev_cfg (cur s) (cfg s) (revcfg s) else revcfg s in
  let cfg1 := if is_revert o then restore_rev_cfg r (cfg s) revcfg1 else cfg s in
  let nb' := if is_revert o then (if onotblocked o then ins (cur s) (nb s) else rem (cur s) (nb s))
             else rem r (nb s) in
  (mkSt seq' r true (if ochan o =? 0 then chan s else ochan o) (odev o) (ojail o) (oclassic o) (otry o) (oignore o)
        (ocohort o) (if is_revert o then lastref s else onow o) 0 nb' cfg1 revcfg1 (mounted s) r,
   mkLD (chan s) (ignoreval s) (trymode s) (devmode s) (jailmode s) (classic s) (cur s) ci (inhib s) (lastref s)
        (cohort s) before (Some (nb s))).

(* countMissingRevs *)
Definition count_found (revs l : list N) : nat :=
  fold_right (fun (r : N) (acc : nat) => (length (filter (fun x : N => N.eqb x r) l) + acc)%nat) O revs.
Definition count_missing (revs l : list N) : nat := (length revs - count_found revs l)%nat.

(* undoLinkSnap *)
Definition undo_link (o : op) (d : ldata) (s : st) : st :=
  match last_index (cur s) (seq s) with
  | None => s   (* internal error: the task fails, nothing is written *)
  | Some ci =>
      let seq' := match old_cand d with
                  | None => remove_at ci (seq s)
                  | Some oci =>
                      if is_revert o then seq s
                      else let oci' := (oci - count_missing (old_before d) (seq s))%nat in
                           let cand := nth ci (seq s) 0 in
                           (* copy(seq[oci'+1:], seq[oci':]); seq[oci'] = cand *)
                           firstn oci' (seq s) ++ cand :: skipn oci' (removelast (seq s))
                  end in
      (* old-revert-status is restored whenever it was saved, leaving out revisions discarded before the failure *)
      let nb' := match old_rs d with
                 | Some l => filter (fun r => mem r seq') l
                 | None => if is_revert o then [] else nb s
                 end in
      let cfg' := match seq' with
                  | [] => 0                                              (* config.DeleteSnapConfig *)
                  | _ => restore_rev_cfg (old_cur d) (cfg s) (revcfg s)  (* config.RestoreRevisionConfig(oldCurrent) *)
                  end in
      norm (mkSt seq' (old_cur d) false (old_chan d) (old_dev d) (old_jail d) (old_classic d) (old_try d)
                 (old_ignore d) (old_cohort d) (old_lastref d) (old_inhib d) nb' cfg' (revcfg s) (mounted s) 0)
  end.

(* doDiscardSnap (no undo handler).  Its guard `Current == revision && Active` never fires on the chains below. *)
Definition do_discard (r : N) (s : st) : st :=
  let nb' := rem r (nb s) in
  let '(seq', cur') :=
    match seq s with
    | [_] => ([], 0)
    | _ => let ns := rem r (seq s) in (ns, if cur s =? r then last ns 0 else cur s)
    end in
  let cfg' := match seq' with [] => 0 | _ => cfg s end in
  norm (mkSt seq' cur' (active s) (chan s) (devmode s) (jailmode s) (classic s) (trymode s) (ignoreval s) (cohort s)
             (lastref s) (inhib s) nb' cfg' (rc_del r (revcfg s)) (rem r (mounted s)) (link s)).

(* doDiscardSnap as the list of its effects in order: backend RemoveSnapFiles (when it fails the handler answers
   state.Retry and is run again from the top), DeleteSnapConfig (last revision only), DiscardRevisionConfig, and, last,
   Set with the record computed from the state READ AT THE START of the handler.  State writes are not transactional: the
   effects that happened before a failure stay. *)
Inductive deffect := ERemoveFiles | EDeleteCfg | EDiscardRevCfg | ESet.

Definition discard_seq (r : N) (s : st) : list N := match seq s with [_] => [] | _ => rem r (seq s) end.
Definition discard_plan (r : N) (s : st) : list deffect :=
  [ERemoveFiles] ++ (match discard_seq r s with [] => [EDeleteCfg] | _ => [] end) ++ [EDiscardRevCfg; ESet].

(* s0 = the state the handler read when it started, x = the state being updated *)
Definition apply_deffect (r : N) (s0 : st) (x : st) (e : deffect) : st :=
  match e with
  | ERemoveFiles => mkSt (seq x) (cur x) (active x) (chan x) (devmode x) (jailmode x) (classic x) (trymode x) (ignoreval x)
                         (cohort x) (lastref x) (inhib x) (nb x) (cfg x) (revcfg x) (rem r (mounted x)) (link x)
  | EDeleteCfg => mkSt (seq x) (cur x) (active x) (chan x) (devmode x) (jailmode x) (classic x) (trymode x) (ignoreval x)
                       (cohort x) (lastref x) (inhib x) (nb x) 0 (revcfg x) (mounted x) (link x)
  | EDiscardRevCfg => mkSt (seq x) (cur x) (active x) (chan x) (devmode x) (jailmode x) (classic x) (trymode x) (ignoreval x)
                           (cohort x) (lastref x) (inhib x) (nb x) (cfg x) (rc_del r (revcfg x)) (mounted x) (link x)
  | ESet =>
      let '(seq', cur') :=
        match seq s0 with
        | [_] => ([], 0)
        | _ => let ns := rem r (seq s0) in (ns, if cur s0 =? r then last ns 0 else cur s0)
        end in
      norm (mkSt seq' cur' (active s0) (chan s0) (devmode s0) (jailmode s0) (classic s0) (trymode s0) (ignoreval s0)
                 (cohort s0) (lastref s0) (inhib s0) (rem r (nb s0)) (cfg x) (revcfg x) (mounted x) (link x))
  end.

Definition discard_run (r : N) (s0 : st) (es : list deffect) (x : st) : st := fold_left (apply_deffect r s0) es x.

(* The other handlers that change both the recorded state and the disk, as their effects in order, with what the handler
   itself does when a later step fails (state writes are not transactional; the backend calls are the failure points). *)
Definition run_effects (es : list (st -> st)) (x : st) : st := fold_left (fun x f => f x) es x.

Definition set_link (l : N) (x : st) : st :=
  mkSt (seq x) (cur x) (active x) (chan x) (devmode x) (jailmode x) (classic x) (trymode x) (ignoreval x) (cohort x)
       (lastref x) (inhib x) (nb x) (cfg x) (revcfg x) (mounted x) l.
Definition set_mounted (m : list N) (x : st) : st :=
  mkSt (seq x) (cur x) (active x) (chan x) (devmode x) (jailmode x) (classic x) (trymode x) (ignoreval x) (cohort x)
       (lastref x) (inhib x) (nb x) (cfg x) (revcfg x) m (link x).
Definition set_cfgs (c : N) (rc : list (N * N)) (x : st) : st :=
  mkSt (seq x) (cur x) (active x) (chan x) (devmode x) (jailmode x) (classic x) (trymode x) (ignoreval x) (cohort x)
       (lastref x) (inhib x) (nb x) c rc (mounted x) (link x).

(* doUnlinkCurrentSnap: backend UnlinkSnap, then Set(Active = false).  When UnlinkSnap reports an error
   restoreUnlinkOnError links the old current revision again. *)
Definition uc_effects : list (st -> st) := [set_link 0; fun x => norm (set_active_link false (link x) x)].
Definition uc_cleanup (s0 x : st) : st := set_link (cur s0) x.

(* doMountSnap: backend SetupSnap; when the mounted snap cannot be read afterwards: UndoSetupSnap + RemoveSnapDir.
   undoMountSnap: UndoSetupSnap + RemoveSnapDir. *)
Definition mount_effects (r : N) : list (st -> st) := [fun x => set_mounted (ins r (mounted x)) x].
Definition mount_cleanup (r : N) (x : st) : st := set_mounted (rem r (mounted x)) x.
Definition undo_mount_effects (r : N) : list (st -> st) := [fun x => set_mounted (rem r (mounted x)) x].

(* doLinkSnap: backend LinkSnap, SaveRevisionConfig(old current), RestoreRevisionConfig(target) on reverts, and LAST Set with
   the record computed from the state read at the start.  On any error after LinkSnap the deferred cleanup unlinks again. *)
Definition link_effects (o : op) (s0 : st) : list (st -> st) :=
  let y := fst (do_link o s0) in
  [set_link (orev o);
   fun x => set_cfgs (cfg x) (revcfg y) x;
   fun x => set_cfgs (cfg y) (revcfg x) x;
   fun x => mkSt (seq y) (cur y) (active y) (chan y) (devmode y) (jailmode y) (classic y) (trymode y) (ignoreval y)
                 (cohort y) (lastref y) (inhib y) (nb y) (cfg x) (revcfg x) (mounted x) (link x)].
Definition link_cleanup (x : st) : st := set_link 0 x.

(* the configure hook: writes the snap's configuration if the snap's hook does so *)
Definition do_configure (o : op) (s : st) : st :=
  if ohookcfg o =? 0 then s else
  mkSt (seq s) (cur s) (active s) (chan s) (devmode s) (jailmode s) (classic s) (trymode s) (ignoreval s) (cohort s)
       (lastref s) (inhib s) (nb s) (ohookcfg o) (revcfg s) (mounted s) (link s).

(* one task forward; link-snap returns the data it saved *)
Definition do_task (o : op) (t : task) (s : st) : st * option ldata :=
  match fst t with
  | KMount => (do_mount (snd t) s, None)
  | KUnlinkCurrent => (do_unlink_current s, None)
  | KLink => let (s', d) := do_link o s in (s', Some d)
  | KDiscard => (do_discard (snd t) s, None)
  | KConfigure => (do_configure o s, None)
  | KUnlinkSnap => (do_unlink_snap s, None)
  | _ => (s, None)
  end.

(* one task backward; `cleared` = a clear-snap of the current revision has completed in this change *)
Definition undo_task (o : op) (cleared : bool) (t : task) (d : option ldata) (s : st) : st :=
  match fst t, d with
  | KMount, _ => undo_mount (snd t) s
  | KUnlinkCurrent, _ => undo_unlink_current s
  | KLink, Some d => undo_link o d s
  | KUnlinkSnap, _ => undo_unlink_snap (negb cleared) s
  | _, _ => s
  end.

(* ------------------------------------------------------------------------------------------------ task chains *)

(* removeInactiveRevision *)
Definition remove_rev_tasks (r : N) : list task := [(KClear, r); (KDiscard, r)].

(* doInstall, second loop: drop the target from the revisions before current *)
Fixpoint drop_target (fuel i : nat) (target : N) (l : list N) (ci : nat) : list N * nat :=
  match fuel with
  | O => (l, ci)
  | S f => if (i <? ci)%nat
           then if nth i l 0 =? target then drop_target f (S i) target (remove_at i l) (pred ci)
                else drop_target f (S i) target l ci
           else (l, ci)
  end.

(* doInstall, garbage collection: the revisions discarded by a refresh, in task order *)
Definition gc_revs (s : st) (target : N) (retain : Z) (inuse : N -> bool) : list N :=
  match last_index (cur s) (seq s) with
  | None => []
  | Some ci =>
      let retain' := if mem target (seq s) then retain else (retain - 1)%Z in
      let after := filter (fun r => negb (r =? target)) (skipn (S ci) (seq s)) in
      let '(l, ci') := drop_target (length (seq s)) O target (seq s) ci in
      let n := (Z.of_nat ci' - retain' + 1)%Z in           (* i = 0 .. ci' - retain' *)
      let old := filter (fun r => negb (inuse r)) (firstn (Z.to_nat n) l) in
      after ++ old
  end.

Definition installed (s : st) : bool := match seq s with [] => false | _ => true end.

(* doInstall: the task list of install / refresh / revert.  Update appends check-rerefresh, which the driver drops. *)
Definition install_tasks (o : op) (s : st) (retain : Z) (inuse : N -> bool) : list task :=
  let r := orev o in
  let islocal := mem r (seq s) in
  let inst := installed s in
  let revert := is_revert o in
  let refresh_hooks := inst && negb revert in
  map (fun k => (k, r))
    ([KPrereq] ++ (if islocal then [KPrepare] else if ofromstore o then [KDownload; KValidate; KMount] else [KPrepare; KMount])
     ++ (if refresh_hooks then [KPreRefresh] else [])
     ++ (if inst then [KStop; KRemoveAliases; KUnlinkCurrent] else [])
     ++ (if revert then [] else [KCopyData])
     ++ [KSetupProfiles; KLink; KAutoConnect; KSetAutoAliases; KSetupAliases]
     ++ (if refresh_hooks then [KPostRefresh] else [])
     ++ (if inst then [] else [KInstallHook; KDefaultConfigure])
     ++ [KStart])
  ++ (if refresh_hooks then flat_map remove_rev_tasks (gc_revs s r retain inuse) ++ [(KCleanup, r)] else [])
  ++ [(KConfigure, r); (KCheckHealth, r)].

(* removeTasks *)
Definition remove_tasks (o : op) (s : st) : list task :=
  let c := cur s in
  match okind o with
  | ORemove =>
      (if active s then [(KStop, c)] else []) ++ [(KRemoveHook, c); (KAutoDisconnect, c); (KSaveSnapshot, c)]
      ++ (if active s then [(KRemoveAliases, c); (KUnlinkSnap, c); (KRemoveProfiles, c)] else [])
      ++ flat_map remove_rev_tasks (rev (rem c (seq s))) ++ remove_rev_tasks c
  | _ =>
      let r := orev o in
      (* a single revision: when it is the only one the whole snap goes *)
      match seq s with
      | [_] => (if active s then [(KStop, r)] else []) ++ [(KRemoveHook, r); (KAutoDisconnect, r); (KSaveSnapshot, r)]
               ++ (if active s then [(KRemoveAliases, r); (KUnlinkSnap, r); (KRemoveProfiles, r)] else [])
               ++ remove_rev_tasks r
      | _ => remove_rev_tasks r
      end
  end.

Definition tasks_for (o : op) (s : st) (retain : Z) (inuse : N -> bool) : list task :=
  match okind o with
  | OInstall | ORefresh | ORevert => install_tasks o s retain inuse
  | ORemove | ORemoveRev => remove_tasks o s
  | OEnable => map (fun k => (k, cur s)) [KPrepare; KSetupProfiles; KLink; KSetupAliases; KStart]
  | ODisable => map (fun k => (k, cur s)) [KStop; KRemoveAliases; KUnlinkSnap; KRemoveProfiles]
  | OSetCfg | OInhibit | ORetain => []
  end.

(* what the entry points refuse (Install, Update/doInstall, Revert/RevertToRevision, Remove/removeTasks, Enable, Disable) *)
Definition accepts (o : op) (s : st) : bool :=
  match okind o with
  | OInstall => negb (installed s)
  | ORefresh => installed s && active s && negb (orev o =? cur s)
  | ORevert => (if odefault o then match previous s with Some p => p =? orev o | None => false end else true)
               && negb (orev o =? cur s) && active s && mem (orev o) (seq s)
  | ORemove => installed s
  | ORemoveRev => installed s && negb (active s && (orev o =? cur s)) && mem (orev o) (seq s)
  | OEnable => installed s && negb (active s) && (orev o =? cur s)   (* Enable builds the snap-setup from CurrentSideInfo *)
  | ODisable => installed s && active s
  | OSetCfg | OInhibit => installed s
  | ORetain => true    (* a change of the refresh.retain setting: no effect on the snap *)
  end.

(* ------------------------------------------------------------------------------------------------ running a change *)

(* do the tasks in order; the result lists the done tasks, most recent first, with their saved data *)
Fixpoint do_all (o : op) (ts : list task) (s : st) (done : list (task * option ldata))
  : st * list (task * option ldata) :=
  match ts with
  | [] => (s, done)
  | t :: r => let (s', d) := do_task o t s in do_all o r s' ((t, d) :: done)
  end.

Fixpoint undo_all (o : op) (cleared : bool) (done : list (task * option ldata)) (s : st) : st :=
  match done with
  | [] => s
  | (t, d) :: r => undo_all o cleared r (undo_task o cleared t d s)
  end.

(* run_change o k: k = 0 the change completes; k = S j: the first j tasks complete, the next one fails before having any
   effect (an error-trigger in its place), the j done tasks are undone in reverse order.  j = number of tasks means the
   failure comes after the last task. *)
Definition run_change (o : op) (k : nat) (ts : list task) (s : st) : st :=
  match k with
  | O => fst (do_all o ts s [])
  | S j =>
      let pre := firstn j ts in
      let (s', done) := do_all o pre s [] in
      let cleared := existsb (fun t => kind_eqb (fst t) KClear && (snd t =? cur s)) pre in
      undo_all o cleared done s'
  end.

(* the operations that are not changes *)
Definition poke (o : op) (s : st) : st :=
  match okind o with
  | OSetCfg => mkSt (seq s) (cur s) (active s) (chan s) (devmode s) (jailmode s) (classic s) (trymode s) (ignoreval s)
                    (cohort s) (lastref s) (inhib s) (nb s) (orev o) (revcfg s) (mounted s) (link s)
  | OInhibit => mkSt (seq s) (cur s) (active s) (chan s) (devmode s) (jailmode s) (classic s) (trymode s) (ignoreval s)
                     (cohort s) (lastref s) (onow o) (nb s) (cfg s) (revcfg s) (mounted s) (link s)
  | _ => s
  end.

(* one step of a history: refused, or the change runs (to the end, or failing at position k) *)
Definition step (o : op) (k : nat) (retain : Z) (inuse : N -> bool) (s : st) : st :=
  if accepts o s then
    match okind o with
    | OSetCfg | OInhibit | ORetain => poke o s
    | _ => run_change o k (tasks_for o s retain inuse) s
    end
  else s.

(* refreshRetain: the refresh.retain setting as a number, as a legacy string, or unset/unparsable/0 -> default *)
Inductive rsetting := RUnset | RNum (n : Z) | RStr (n : Z).
Definition retain_of (r : rsetting) (on_classic : bool) : Z :=
  let v := match r with RUnset => 0%Z | RNum n => n | RStr n => n end in
  if (v =? 0)%Z then (if on_classic then 2%Z else 3%Z) else v.

(* ------------------------------------------------------------------------------------------------ correspondence *)

Definition bool_eqb := Bool.eqb.
Fixpoint rc_eqb (a b : list (N * N)) : bool :=
  match a, b with
  | [], [] => true
  | (k, v) :: a', (k', v') :: b' => (k =? k') && (v =? v') && rc_eqb a' b'
  | _, _ => false
  end.

Definition st_eqb (a b : st) : bool :=
  list_eqb (seq a) (seq b) && (cur a =? cur b) && bool_eqb (active a) (active b) && (chan a =? chan b)
  && bool_eqb (devmode a) (devmode b) && bool_eqb (jailmode a) (jailmode b) && bool_eqb (classic a) (classic b)
  && bool_eqb (trymode a) (trymode b) && bool_eqb (ignoreval a) (ignoreval b) && (cohort a =? cohort b)
  && (lastref a =? lastref b) && (inhib a =? inhib b) && list_eqb (nb a) (nb b) && (cfg a =? cfg b)
  && rc_eqb (revcfg a) (revcfg b) && list_eqb (mounted a) (mounted b) && (link a =? link b).

(* the C10 projection: everything the property lists, i.e. all fields but the revision-config bookkeeping *)
Definition proj_eqb (a b : st) : bool :=
  list_eqb (seq a) (seq b) && (cur a =? cur b) && bool_eqb (active a) (active b) && (chan a =? chan b)
  && bool_eqb (devmode a) (devmode b) && bool_eqb (jailmode a) (jailmode b) && bool_eqb (classic a) (classic b)
  && bool_eqb (trymode a) (trymode b) && bool_eqb (ignoreval a) (ignoreval b) && (cohort a =? cohort b)
  && (lastref a =? lastref b) && (inhib a =? inhib b) && list_eqb (nb a) (nb b) && (cfg a =? cfg b)
  && list_eqb (mounted a) (mounted b) && (link a =? link b).

(* the revision of a task is compared where the model uses it (hook tasks carry no snap-setup) *)
Definition rev_matters (k : kind) : bool :=
  match k with KMount | KLink | KClear | KDiscard | KUnlinkCurrent | KUnlinkSnap => true | _ => false end.
Fixpoint tasks_eqb (a b : list task) : bool :=
  match a, b with
  | [], [] => true
  | (k, r) :: a', (k', r') :: b' => kind_eqb k k' && (negb (rev_matters k) || (r =? r')) && tasks_eqb a' b'
  | _, _ => false
  end.

(* one observed step: the operation, the failure position, the retain setting and what refreshRetain answered, whether
   the entry point refused, the observed task chain, the observed Block(), the number of backend copy-data calls, and
   the observed state after the change settled *)
Record ostep := mkStep {
  s_op : op; s_k : nat; s_rset : rsetting; s_classic : bool; s_retain : Z;
  s_refused : bool; s_chain : list task; s_block : list N; s_copies : N;
  s_inuse : list N;    (* the revisions the boot environment uses during the operation (boot.InUse), [] for an app *)
  s_after : st
}.

(* a case: a history played from a start state (the empty state, or a seeded installed snap) *)
Inductive case := mkCase (s0 : st) (steps : list ostep).

Definition no_inuse (_ : N) : bool := false.
Definition inuse_of (x : ostep) (r : N) : bool := mem r (s_inuse x).

(* the model agrees with one observed step played from state s *)
Definition step_ok (s : st) (x : ostep) : bool :=
  let o := s_op x in
  let retain := retain_of (s_rset x) (s_classic x) in
  (retain =? s_retain x)%Z
  && bool_eqb (negb (accepts o s)) (s_refused x)
  && (if accepts o s then tasks_eqb (tasks_for o s retain (inuse_of x)) (s_chain x) else true)
  && st_eqb (step o (s_k x) retain (inuse_of x) s) (s_after x)
  && list_eqb (block (s_after x)) (s_block x).

(* the history is followed from the observed states, so every step is judged on its own *)
Fixpoint steps_ok (s : st) (l : list ostep) : bool :=
  match l with
  | [] => true
  | x :: r => step_ok s x && steps_ok (s_after x) r
  end.

Definition mismatch (c : case) : bool := match c with mkCase s0 l => negb (steps_ok s0 l) end.

(* ------------------------------------------------------------------------------------------------ monitors
   written on the observed states only *)

Definition c10_kind (o : op) : bool :=
  match okind o with OInstall | ORefresh | ORevert => true | _ => false end.

(* C10: a failed install / refresh / revert leaves the projection and the world as they were *)
Definition c10_step_bad (before : st) (x : ostep) : bool :=
  c10_kind (s_op x) && negb (s_refused x) && negb (Nat.eqb (s_k x) 0) && negb (proj_eqb before (s_after x)).

Fixpoint c10_bad (before : st) (l : list ostep) : bool :=
  match l with
  | [] => false
  | x :: r => c10_step_bad before x || c10_bad (s_after x) r
  end.

Definition monitor_fail (c : case) : bool := match c with mkCase s0 l => c10_bad s0 l end.

(* ------------------------------------------------------------------------------------------------ monitors for C11, C12, C13
   (same case type; each is the property's conclusion evaluated on the implementation's observed states) *)

Fixpoint nodupb (l : list N) : bool :=
  match l with [] => true | x :: r => negb (mem x r) && nodupb r end.
Definition sort_set (l : list N) : list N := fold_right ins [] l.

(* C11: after every settled change (completed, or failed and undone): current is kept, no revision is kept twice, the
   revisions present on the system are exactly the kept ones, the current link is the recorded current revision exactly
   when the snap is active; a snap that is gone leaves no link, no configuration and no per-revision configuration *)
Definition c11_ok (a : st) : bool :=
  nodupb (seq a)
  && (match seq a with [] => true | _ => mem (cur a) (seq a) end)
  && list_eqb (sort_set (seq a)) (mounted a)
  && (link a =? (if active a then cur a else 0))
  && (match seq a with [] => (cfg a =? 0) && rc_eqb (revcfg a) [] && (link a =? 0) && negb (active a) | _ => true end).

Definition monitor11_fail (c : case) : bool :=
  match c with mkCase s0 l => negb (c11_ok s0) || existsb (fun x => negb (c11_ok (s_after x))) l end.

(* C13: a completed revert keeps the order of the kept revisions, makes the target current, copies no data and mounts
   nothing, and Block() afterwards is: the revisions after the new current one, minus the ones marked not-blocked (the
   reverted-from revision joins them exactly when the revert was asked not to block it); a refused revert is exactly:
   target not kept, or already current, or snap inactive, and changes nothing *)
Definition c13_step_bad (before : st) (x : ostep) : bool :=
  let o := s_op x in let a := s_after x in
  match okind o with
  | ORevert =>
      if s_refused x then
        negb (st_eqb before a)
        || (negb (odefault o)
            && negb (negb (mem (orev o) (seq before)) || (orev o =? cur before) || negb (active before)))
      else if Nat.eqb (s_k x) 0 then
        negb (list_eqb (seq a) (seq before)) || negb (cur a =? orev o) || negb (active a)
        || negb (s_copies x =? 0)
        || existsb (fun t => kind_eqb (fst t) KCopyData || kind_eqb (fst t) KMount || kind_eqb (fst t) KDiscard) (s_chain x)
        || negb (mem (orev o) (seq before)) || (orev o =? cur before) || negb (active before)
        || (let nb' := if onotblocked o then cur before :: nb before else rem (cur before) (nb before) in
            let later := match last_index (orev o) (seq before) with Some i => skipn (S i) (seq before) | None => [] end in
            negb (list_eqb (s_block x) (filter (fun r => negb (mem r nb')) later)))
      else false
  | _ => false
  end.

Fixpoint c13_bad (before : st) (l : list ostep) : bool :=
  match l with [] => false | x :: r => c13_step_bad before x || c13_bad (s_after x) r end.
Definition monitor13_fail (c : case) : bool := match c with mkCase s0 l => c13_bad s0 l end.

(* C12: a completed refresh leaves at most max(retain, kept before) revisions; at most retain when the target was not
   kept before; none of the revisions that came after the old current one (except the target); the target is kept and
   current; a revision in use for booting (s_inuse) is never discarded, and only such revisions may exceed the bound. *)
Definition c12_step_bad (before : st) (x : ostep) : bool :=
  let o := s_op x in let a := s_after x in
  match okind o with
  | ORefresh =>
      if s_refused x || negb (Nat.eqb (s_k x) 0) then false else
      let n := Z.of_nat (length (seq before)) in let n' := Z.of_nat (length (seq a)) in
      let kept_inuse := Z.of_nat (length (filter (fun r => mem r (s_inuse x) && negb (r =? orev o)) (seq a))) in
      (Z.max (s_retain x) n + kept_inuse <? n')%Z
      || (negb (mem (orev o) (seq before)) && (s_retain x + kept_inuse <? n')%Z)
      (* a revision in use for booting is never discarded *)
      || existsb (fun r => mem r (s_inuse x) && negb (mem r (seq a))) (seq before)
      || negb (mem (orev o) (seq a)) || negb (cur a =? orev o)
      || match last_index (cur before) (seq before) with
         | Some i => existsb (fun r => negb (r =? orev o) && mem r (seq a)) (skipn (S i) (seq before))
         | None => true
         end
  | _ => false
  end.

Fixpoint c12_bad (before : st) (l : list ostep) : bool :=
  match l with [] => false | x :: r => c12_step_bad before x || c12_bad (s_after x) r end.
(* ... and refreshRetain answers the setting: a number, a legacy string, or the default 2 (classic) / 3 (core) *)
Definition c12_retain_bad (x : ostep) : bool :=
  negb (match s_rset x with
        | RUnset => if s_classic x then (s_retain x =? 2)%Z else (s_retain x =? 3)%Z
        | RNum n | RStr n => if (n =? 0)%Z then true else (s_retain x =? n)%Z
        end).
Definition monitor12_fail (c : case) : bool :=
  match c with mkCase s0 l => c12_bad s0 l || existsb c12_retain_bad l end.
