(* C09 — model of State.Prune (overlord/state/state.go) on the part of the state it reads and writes: changes with spawn
   and ready time, task list and data attributes; tasks with status, spawn time and change link; warnings and notices
   with their expiry. No proofs in this file.

   Times are Z nanosecond offsets from the driver's base instant; [None] is Go's zero time. The wall clock of Prune
   (time.Now()) is the parameter [p_now]; timeNow() (used by markReady when an abort makes a change ready) is [p_mock].
   The abort that Prune performs on an old unready change (Change.AbortUnreadyLanes) is modelled for changes whose tasks
   are all in the default lane and none in Wait: then it visits every task of the change in task order
   (abortLanes -> abortTasks) and sets Do->Hold, Doing->Abort, Done->Undo; readiness is detected once afterwards.
   The general lane closure is C01's subject. *)
From Coq Require Import List NArith ZArith Bool.
Import ListNotations.
Open Scope Z_scope.

Record ptask := mkPT { pt_id : N; pt_status : N; pt_spawn : Z; pt_change : N }.      (* pt_change 0 = not linked *)
Record pchange := mkPC { pc_id : N; pc_spawn : Z; pc_ready : option Z; pc_tasks : list N; pc_attrs : list N }.
Record pexp := mkExp { x_id : N; x_last : Z; x_expire : Z }.                          (* a warning or a notice *)
Record pstate := mkPS { ps_changes : list pchange; ps_tasks : list ptask; ps_warnings : list pexp; ps_notices : list pexp }.

(* p_start: startOfOperation (None = zero time); p_pending: registered attribute -> ids of the changes for which the
   predicate answers true *)
Record params := mkParams { p_now : Z; p_mock : Z; p_start : option Z; p_prune_wait : Z; p_abort_wait : Z;
                            p_max_ready : Z; p_pending : list (N * list N) }.

(* an instant or duration given as minutes and nanoseconds (keeps the generated case files small) *)
Definition tm (m ns : Z) : Z := m * 60000000000 + ns.

Definition prune_limit (p : params) : Z := p_now p - p_prune_wait p.
Definition abort_limit (p : params) : Z := p_now p - p_abort_wait p.

(* Status.Ready: Done 4, Undone 8, Hold 1, Error 9 *)
Definition status_ready (s : N) : bool := (s =? 4)%N || (s =? 8)%N || (s =? 1)%N || (s =? 9)%N.

(* spawnTime, clamped to startOfOperation *)
Definition clamped_spawn (p : params) (c : pchange) : Z :=
  match p_start p with Some s => if pc_spawn c <? s then s else pc_spawn c | None => pc_spawn c end.

(* some registered predicate whose attribute the change has says the change is still pending *)
Definition is_pending (p : params) (c : pchange) : bool :=
  existsb (fun e => existsb (N.eqb (fst e)) (pc_attrs c) && existsb (N.eqb (pc_id c)) (snd e)) (p_pending p).

(* byReadyTime.Less: zero time sorts first *)
Definition ready_lt (a b : pchange) : bool :=
  match pc_ready a, pc_ready b with
  | None, Some _ => true
  | Some x, Some y => x <? y
  | _, None => false
  end.
(* sort.Sort(byReadyTime(changes)) — modelled as a stable insertion sort; Go's sort is not stable, the theorems are
   stated for every order that is sorted, and the driver avoids equal ready times *)
Fixpoint insert_c (c : pchange) (l : list pchange) : list pchange :=
  match l with
  | [] => [c]
  | d :: r => if ready_lt d c then d :: insert_c c r else if ready_lt c d then c :: l else d :: insert_c c r
  end.
Definition sort_changes (l : list pchange) : list pchange := fold_right insert_c [] l.

Inductive decision := Keep | RemoveEmpty | AbortIt | RemoveReady.

(* the body of the NextChange loop for one change; [count] is readyChangesCount at that moment *)
Definition decide (p : params) (count : Z) (c : pchange) : decision :=
  match pc_ready c with
  | None =>
      if (clamped_spawn p c <? prune_limit p) && match pc_tasks c with [] => true | _ => false end then RemoveEmpty
      else if clamped_spawn p c <? abort_limit p then (if is_pending p c then Keep else AbortIt)
      else Keep
  | Some r => if (r <? prune_limit p) || (p_max_ready p <? count) then RemoveReady else Keep
  end.

Fixpoint visit (p : params) (count : Z) (l : list pchange) : list (pchange * decision) :=
  match l with
  | [] => []
  | c :: r => let d := decide p count c in
              (c, d) :: visit p (match d with RemoveReady => count - 1 | _ => count end) r
  end.

Definition ready_count (l : list pchange) : Z :=
  Z.of_nat (length (filter (fun c => match pc_ready c with Some _ => true | None => false end) l)).

(* ---- the abort of one change in the default lane (see the header) *)
Definition abort1 (s : N) : N := if (s =? 2)%N then 1%N else if (s =? 3)%N then 5%N else if (s =? 4)%N then 6%N else s.

(* the statuses of the tasks of the change, in task order, after the abort; since the fix d3068df of /repo readiness is
   evaluated once, after the whole abort has been applied (Change.deferReadyDetection): the change is marked ready
   (ready time := timeNow()) exactly when every task is then ready - in particular a change without tasks *)
Definition abort_statuses (sts : list N) : list N := map abort1 sts.

Definition task_status (s : pstate) (id : N) : N :=
  match find (fun t => (pt_id t =? id)%N) (ps_tasks s) with Some t => pt_status t | None => 0%N end.

Fixpoint set_statuses (ids : list N) (sts : list N) (l : list ptask) : list ptask :=
  match ids, sts with
  | id :: ids', st :: sts' =>
      set_statuses ids' sts' (map (fun t => if (pt_id t =? id)%N then mkPT (pt_id t) st (pt_spawn t) (pt_change t) else t) l)
  | _, _ => l
  end.

Record result := mkRes { r_changes : list pchange; r_tasks : list ptask; r_warnings : list pexp; r_notices : list pexp;
                         r_aborted : list N }.

(* apply the decisions in visiting order *)
Fixpoint apply (p : params) (vs : list (pchange * decision)) (chs : list pchange) (tks : list ptask) (ab : list N)
    : list pchange * list ptask * list N :=
  match vs with
  | [] => (chs, tks, ab)
  | (c, d) :: r =>
      match d with
      | Keep => apply p r chs tks ab
      | RemoveEmpty => apply p r (filter (fun x => negb (pc_id x =? pc_id c)%N) chs) tks ab
      | RemoveReady =>
          apply p r (filter (fun x => negb (pc_id x =? pc_id c)%N) chs)
            (filter (fun t => negb (existsb (N.eqb (pt_id t)) (pc_tasks c))) tks) ab
      | AbortIt =>
          let sts := map (fun id => match find (fun t => (pt_id t =? id)%N) tks with Some t => pt_status t | None => 0%N end)
                         (pc_tasks c) in
          let sts' := abort_statuses sts in
          let marked := forallb status_ready sts' in
          let tks' := set_statuses (pc_tasks c) sts' tks in
          let chs' := map (fun x => if (pc_id x =? pc_id c)%N
                                    then mkPC (pc_id x) (pc_spawn x) (if marked then Some (p_mock p) else pc_ready x)
                                              (pc_tasks x) (pc_attrs x)
                                    else x) chs in
          apply p r chs' tks' (ab ++ [pc_id c])
      end
  end.

Definition expired (p : params) (x : pexp) : bool := x_last x + x_expire x <? p_now p.

(* State.Prune with the changes visited in [order] *)
Definition prune_with (p : params) (order : list pchange) (s : pstate) : result :=
  let vs := visit p (ready_count order) order in
  let '(chs, tks, ab) := apply p vs (ps_changes s) (ps_tasks s) [] in
  let ws := filter (fun x => negb (expired p x)) (ps_warnings s) in
  let ns := filter (fun x => negb (expired p x)) (ps_notices s) in
  (* the last loop: tasks without a (remaining) change, spawned before the prune limit *)
  let linked (t : ptask) := existsb (fun c => (pc_id c =? pt_change t)%N) chs in
  mkRes chs (filter (fun t => linked t || negb (pt_spawn t <? prune_limit p)) tks) ws ns ab.

Definition prune (p : params) (s : pstate) : result := prune_with p (sort_changes (ps_changes s)) s.

(* ------------------------------------------------------------------ correspondence interface *)
(* observed after the real Prune: remaining changes (id, ready time set?), remaining tasks (id, status), remaining
   warning / notice ids, whether Prune panicked *)
Inductive case := Case (p : params) (s : pstate) (chs : list (N * bool)) (tks : list (N * N)) (ws ns : list N) (panicked : bool).

Fixpoint nlist_eqb (a b : list N) : bool :=
  match a, b with [] , [] => true | x :: a', y :: b' => (x =? y)%N && nlist_eqb a' b' | _, _ => false end.
Definition mem (x : N) (l : list N) : bool := existsb (N.eqb x) l.
Definition same_set (a b : list N) : bool := forallb (fun x => mem x b) a && forallb (fun x => mem x a) b.
Definition is_some {A} (o : option A) : bool := match o with Some _ => true | None => false end.

Definition mismatch (c : case) : bool :=
  match c with
  | Case p s chs tks ws ns panicked =>
      let r := prune p s in
      panicked || negb (
        same_set (map pc_id (r_changes r)) (map fst chs)
        && forallb (fun c => existsb (fun o => (fst o =? pc_id c)%N && Bool.eqb (snd o) (is_some (pc_ready c))) chs) (r_changes r)
        && same_set (map pt_id (r_tasks r)) (map fst tks)
        && forallb (fun t => existsb (fun o => (fst o =? pt_id t)%N && (snd o =? pt_status t)%N) tks) (r_tasks r)
        && same_set (map x_id (r_warnings r)) ws && same_set (map x_id (r_notices r)) ns)
  end.

(* the property on the implementation's observed behaviour, without the model's transition functions *)
Definition find_change (s : pstate) (id : N) : option pchange := find (fun c => (pc_id c =? id)%N) (ps_changes s).

Definition monitor_fail (c : case) : bool :=
  match c with
  | Case p s chs tks ws ns panicked =>
      let plimit := p_now p - p_prune_wait p in
      let alimit := p_now p - p_abort_wait p in
      let spawn c := match p_start p with Some st => Z.max st (pc_spawn c) | None => pc_spawn c end in
      let kept id := mem id (map fst chs) in
      let newer_ready r := Z.of_nat (length (filter (fun d => match pc_ready d with Some r' => r <? r' | None => false end) (ps_changes s))) in
      (* (a) a removed change was finished and old enough or beyond the limit counting from the newest; or empty, unready and old *)
      let removed_ok c :=
        match pc_ready c with
        | Some r => (r <? plimit) || (p_max_ready p <=? newer_ready r)
        | None => match pc_tasks c with [] => spawn c <? plimit | _ => false end
        end in
      (* (b) tasks go with their change and only with it *)
      let task_ok t :=
        let present := mem (pt_id t) (map fst tks) in
        if (pt_change t =? 0)%N then present || (pt_spawn t <? plimit)
        else match find_change s (pt_change t) with
             | Some c => Bool.eqb present (kept (pc_id c))
             | None => true
             end in
      (* (c) statuses change only by the abort of an unready change that is old enough and not pending *)
      let status_ok t :=
        match find (fun o => (fst o =? pt_id t)%N) tks with
        | None => true
        | Some o =>
            (snd o =? pt_status t)%N ||
            match find_change s (pt_change t) with
            | Some c => negb (is_some (pc_ready c)) && (spawn c <? alimit)
                        && negb (existsb (fun e => mem (fst e) (pc_attrs c) && mem (pc_id c) (snd e)) (p_pending p))
                        && (snd o =? (if (pt_status t =? 2)%N then 1 else if (pt_status t =? 3)%N then 5
                                      else if (pt_status t =? 4)%N then 6 else pt_status t))%N
            | None => false
            end
        end in
      (* (d) expired warnings and notices are gone, the others stay *)
      let exp_ok obs x := Bool.eqb (mem (x_id x) obs) (negb (x_last x + x_expire x <? p_now p)) in
      negb (negb panicked
            && forallb (fun c => kept (pc_id c) || removed_ok c) (ps_changes s)
            (* (a') the converse: a finished change that is kept is not older than the prune limit, an old empty unready one
                is not kept, and no more than maxReadyChanges finished changes are kept *)
            && forallb (fun c => negb (kept (pc_id c)) ||
                                 match pc_ready c with
                                 | Some r => negb (r <? plimit)
                                 | None => negb (match pc_tasks c with [] => spawn c <? plimit | _ => false end)
                                 end) (ps_changes s)
            && ((p_max_ready p <? 0) ||
                (Z.of_nat (length (filter (fun c => kept (pc_id c) && is_some (pc_ready c)) (ps_changes s))) <=? p_max_ready p))
            && forallb (fun o => mem (fst o) (map pc_id (ps_changes s))) chs
            && forallb task_ok (ps_tasks s) && forallb status_ok (ps_tasks s)
            && forallb (exp_ok ws) (ps_warnings s) && forallb (exp_ok ns) (ps_notices s))
  end.

(* ------------------------------------------------------------------ histories: Prune interleaved with the state-changing steps *)
(* the steps that build the part of the state Prune looks at: NewChange, NewTask (+ AddTask when the change exists), a status
   write, a ready-time write (what the engine does when a change becomes ready or an abort marks it), AddWarning / AddNotice,
   and Prune itself with any clock and parameters. Identifiers are fresh with respect to everything present. *)
Definition maxl (l : list N) : N := fold_right N.max 0%N l.
Definition next_change (s : pstate) : N := N.succ (maxl (map pc_id (ps_changes s))).
Definition next_task (s : pstate) : N := N.succ (N.max (maxl (map pt_id (ps_tasks s))) (maxl (concat (map pc_tasks (ps_changes s))))).

Inductive hop :=
| HNewChange (spawn : Z) (attrs : list N)
| HNewTask (c : N) (spawn : Z) (st : N)
| HSetStatus (t st : N)
| HSetReady (c : N) (r : option Z)
| HAddWarning (x : pexp)
| HAddNotice (x : pexp)
| HPrune (p : params).

Definition hstep (s : pstate) (o : hop) : pstate :=
  match o with
  | HNewChange spawn attrs =>
      mkPS (ps_changes s ++ [mkPC (next_change s) spawn None [] attrs]) (ps_tasks s) (ps_warnings s) (ps_notices s)
  | HNewTask c spawn st =>
      let tid := next_task s in
      if existsb (fun x => (pc_id x =? c)%N) (ps_changes s)
      then mkPS (map (fun x => if (pc_id x =? c)%N then mkPC (pc_id x) (pc_spawn x) (pc_ready x) (pc_tasks x ++ [tid]) (pc_attrs x) else x)
                     (ps_changes s))
                (ps_tasks s ++ [mkPT tid st spawn c]) (ps_warnings s) (ps_notices s)
      else mkPS (ps_changes s) (ps_tasks s ++ [mkPT tid st spawn 0%N]) (ps_warnings s) (ps_notices s)
  | HSetStatus t st =>
      mkPS (ps_changes s) (map (fun x => if (pt_id x =? t)%N then mkPT (pt_id x) st (pt_spawn x) (pt_change x) else x) (ps_tasks s))
           (ps_warnings s) (ps_notices s)
  | HSetReady c r =>
      mkPS (map (fun x => if (pc_id x =? c)%N then mkPC (pc_id x) (pc_spawn x) r (pc_tasks x) (pc_attrs x) else x) (ps_changes s))
           (ps_tasks s) (ps_warnings s) (ps_notices s)
  | HAddWarning x => mkPS (ps_changes s) (ps_tasks s) (ps_warnings s ++ [x]) (ps_notices s)
  | HAddNotice x => mkPS (ps_changes s) (ps_tasks s) (ps_warnings s) (ps_notices s ++ [x])
  | HPrune p => let r := prune p s in mkPS (r_changes r) (r_tasks r) (r_warnings r) (r_notices r)
  end.
Definition hrun (ops : list hop) : pstate := fold_left hstep ops (mkPS [] [] [] []).
