(* C20 - model of the assertion text codec of snapd: asserts/headers.go (parseHeaders, parseEntry, parseList, parseMap,
   parseMultilineText, appendEntry, headerNameValidity) and asserts/asserts.go (Decode's splitting, Decoder.peek /
   readExact / readUntil / Decode with the size limits, Encode).  No proofs in this file.

   Data refinement used throughout (stated once):
   * a header text is handled as its list of lines (strings.Split(head, newline)); the Go code's line index i is
     represented by the suffix lines[i:], so that lines[i] is the head of the suffix and an index past the end is the
     empty suffix.  Every Go indexing / slicing expression that can go out of range is kept as an explicit check that
     yields [Panic];
   * a header value is a tree: Str ls is the Go string whose lines are ls (join with newline; a one-line string is
     Str [l]), Lst is []interface{}, Map is map[string]interface{} given as its entry list (the driver prints Go maps
     sorted by key; the parser returns entries in order of appearance and results are compared after sorting);
   * loops that call the (mutually recursive) entry parser use fuel; [OutOfFuel] is excluded by the fuel theorem. *)
From Coq Require Import List NArith ZArith Bool Arith.
Import ListNotations.
Require Import V.lib.Bytes V.lib.Dec.
Open Scope N_scope.

Definition line := bytes.

Inductive hv : Type :=
| Str (ls : list line)
| Lst (l : list hv)
| Map (m : list (bytes * hv)).

Inductive res (A : Type) : Type := Ok (a : A) | Err | Panic | OutOfFuel.
Arguments Ok {A} a.
Arguments Err {A}.
Arguments Panic {A}.
Arguments OutOfFuel {A}.

Definition NL : N := 10.
Definition SP : N := 32.
Definition DASH : N := 45.
Definition COLON : N := 58.

(* strings.Repeat(" ", n) *)
Definition spaces (n : nat) : bytes := repeat SP n.

(* ------------------------------------------------------------------ lines <-> bytes *)
(* strings.Split(s, newline): always at least one piece *)
Fixpoint split_lines (s : bytes) : list line :=
  match s with
  | [] => [[]]
  | c :: r => if c =? NL then [] :: split_lines r
              else match split_lines r with
                   | l :: ls => (c :: l) :: ls
                   | [] => [[c]]
                   end
  end.

(* strings.Join(ls, newline) *)
Fixpoint join_lines (ls : list line) : bytes :=
  match ls with
  | [] => []
  | [l] => l
  | l :: r => l ++ NL :: join_lines r
  end.

Definition no_nl (l : line) : bool := forallb (fun c => negb (c =? NL)) l.

(* ------------------------------------------------------------------ headerNameValidity: ^[a-z](?:-?[a-z0-9])*$ *)
Definition is_lower_digit (c : N) : bool := is_lower c || is_digit c.

Fixpoint name_rest (s : bytes) : bool :=
  match s with
  | [] => true
  | c :: r => if is_lower_digit c then name_rest r
              else if c =? DASH then match r with
                                     | d :: r' => is_lower_digit d && name_rest r'
                                     | [] => false
                                     end
              else false
  end.

Definition valid_name (s : bytes) : bool :=
  match s with
  | c :: r => is_lower c && name_rest r
  | [] => false
  end.

(* strings.Index(s, ":") *)
Fixpoint index_colon (s : bytes) : option nat :=
  match s with
  | [] => None
  | c :: r => if c =? COLON then Some O else option_map S (index_colon r)
  end.

(* ------------------------------------------------------------------ appendEntry, as lines.
   The Go function writes newline + intro + ... into a buffer; the lines returned here are the pieces between those
   newlines.  nil values cannot be written in this tree type; empty lists and maps are omitted as in the code. *)
Definition list_intro (b : nat) : bytes := spaces b ++ [SP; SP; DASH].          (* nestingPrefix(b, listPrefix) *)
Definition map_intro (b : nat) (key : bytes) : bytes := spaces (b + 2) ++ key ++ [COLON].

Fixpoint format_entry (intro : bytes) (v : hv) (b : nat) : list line :=
  match v with
  | Str ls => match ls with
              | [] => [intro ++ [SP]]                                         (* not a Go string; kept total *)
              | [l] => [intro ++ SP :: l]
              | _ => intro :: map (fun l => spaces (b + 4) ++ l) ls
              end
  | Lst l => match l with
             | [] => []
             | _ => intro :: flat_map (fun e => format_entry (list_intro b) e (b + 2)) l
             end
  | Map m => match m with
             | [] => []
             | _ => intro :: flat_map (fun kv => format_entry (map_intro b (fst kv)) (snd kv) (b + 2)) m
             end
  end.

(* writeHeader for every header, in the given order *)
Definition format_headers (h : list (bytes * hv)) : list line :=
  flat_map (fun kv => format_entry (fst kv ++ [COLON]) (snd kv) 0) h.

(* ------------------------------------------------------------------ parser *)
Definition has_key (k : bytes) (m : list (bytes * hv)) : bool := existsb (fun kv => beq (fst kv) k) m.

(* the scanning loop of parseMultilineText: the lines carrying the prefix, with the prefix cut off *)
Fixpoint take_text (pfx : nat) (ls : list line) : list line * list line :=
  match ls with
  | l :: r => if has_prefix (spaces pfx) l
              then let (a, r') := take_text pfx r in (skipn pfx l :: a, r')
              else ([], ls)
  | [] => ([], [])
  end.

(* parseMultilineText(first, lines, baseIndent); ls = lines[first:] *)
Definition parse_text (ls : list line) (b : nat) : res (hv * list line) :=
  match take_text (b + 4) ls with
  | ([], _) => Err                                   (* j == i: expected nesting prefix *)
  | (a, r) => Ok (Str a, r)
  end.

Fixpoint parse_entry (fuel : nat) (consumed : nat) (ls : list line) (b : nat) {struct fuel} : res (hv * list line) :=
  match fuel with
  | O => OutOfFuel
  | S f =>
      match ls with
      | [] => Panic                                                             (* lines[first] *)
      | entry :: rest =>
          if Nat.eqb consumed (length entry) then
            match rest with
            | nxt :: _ =>
                if has_prefix (spaces (b + 2)) nxt then
                  let r := skipn (b + 2) nxt in
                  if has_prefix [DASH] r then parse_list f rest b []
                  else match r with
                       | c :: _ => if negb (c =? SP) then parse_map f rest b [] else parse_text rest b
                       | [] => parse_text rest b
                       end
                else parse_text rest b
            | [] => parse_text rest b
            end
          else
            match nth_error entry consumed with                                  (* entry[consumedByIntro] *)
            | None => Panic
            | Some c => if c =? SP then Ok (Str [skipn (consumed + 1) entry], rest) else Err
            end
      end
  end
with parse_list (fuel : nat) (ls : list line) (b : nat) (acc : list hv) {struct fuel} : res (hv * list line) :=
  match fuel with
  | O => OutOfFuel
  | S f =>
      match ls with
      | [] => Ok (Lst acc, [])
      | l :: _ =>
          if negb (has_prefix (list_intro b) l) then Ok (Lst acc, ls)
          else match parse_entry f (b + 3) ls (b + 2) with
               | Ok (v, r) => parse_list f r b (acc ++ [v])
               | Err => Err
               | Panic => Panic
               | OutOfFuel => OutOfFuel
               end
      end
  end
with parse_map (fuel : nat) (ls : list line) (b : nat) (acc : list (bytes * hv)) {struct fuel} : res (hv * list line) :=
  match fuel with
  | O => OutOfFuel
  | S f =>
      match ls with
      | [] => Ok (Map acc, [])
      | l :: _ =>
          if negb (has_prefix (spaces (b + 2)) l) then Ok (Map acc, ls)
          else
            let entry := skipn (b + 2) l in
            match index_colon entry with
            | None => Err
            | Some k =>
                let key := firstn k entry in
                if negb (valid_name key) then Err
                else match parse_entry f (b + 2 + (k + 1)) ls (b + 2) with
                     | Ok (v, r) => if has_key key acc then Err else parse_map f r b (acc ++ [(key, v)])
                     | Err => Err
                     | Panic => Panic
                     | OutOfFuel => OutOfFuel
                     end
            end
      end
  end.

(* the loop of parseHeaders *)
Fixpoint parse_top (fuel : nat) (ls : list line) (acc : list (bytes * hv)) {struct fuel} : res (list (bytes * hv)) :=
  match fuel with
  | O => OutOfFuel
  | S f =>
      match ls with
      | [] => Ok acc
      | entry :: _ =>
          match index_colon entry with
          | None => Err
          | Some k =>
              let name := firstn k entry in
              if negb (valid_name name) then Err
              else match parse_entry f (k + 1) ls 0 with
                   | Ok (v, r) => if has_key name acc then Err else parse_top f r (acc ++ [(name, v)])
                   | Err => Err
                   | Panic => Panic
                   | OutOfFuel => OutOfFuel
                   end
          end
      end
  end.

Definition fuel_for (ls : list line) : nat := 2 * length ls + 1.

Definition parse_header_lines (ls : list line) : res (list (bytes * hv)) := parse_top (fuel_for ls) ls [].

(* unicode/utf8.Valid *)
Definition cont (c : N) : bool := (128 <=? c) && (c <=? 191).
Definition in_rng (lo hi c : N) : bool := (lo <=? c) && (c <=? hi).

Fixpoint utf8_valid (s : bytes) : bool :=
  match s with
  | [] => true
  | b :: r =>
      if b <? 128 then utf8_valid r
      else if in_rng 194 223 b then
        match r with c1 :: r1 => cont c1 && utf8_valid r1 | _ => false end
      else if in_rng 224 239 b then
        match r with
        | c1 :: c2 :: r2 =>
            (if b =? 224 then in_rng 160 191 c1 else if b =? 237 then in_rng 128 159 c1 else cont c1)
            && cont c2 && utf8_valid r2
        | _ => false
        end
      else if in_rng 240 244 b then
        match r with
        | c1 :: c2 :: c3 :: r3 =>
            (if b =? 240 then in_rng 144 191 c1 else if b =? 244 then in_rng 128 143 c1 else cont c1)
            && cont c2 && cont c3 && utf8_valid r3
        | _ => false
        end
      else false
  end.

(* parseHeaders(head) *)
Definition parse_headers (head : bytes) : res (list (bytes * hv)) :=
  if utf8_valid head then parse_header_lines (split_lines head) else Err.

(* ------------------------------------------------------------------ normal form of Go values: maps sorted by key *)
Fixpoint bltb (a b : bytes) : bool :=
  match a, b with
  | [], [] => false
  | [], _ :: _ => true
  | _ :: _, [] => false
  | x :: a', y :: b' => if x <? y then true else if y <? x then false else bltb a' b'
  end.

Fixpoint insert_kv {A : Type} (kv : bytes * A) (m : list (bytes * A)) : list (bytes * A) :=
  match m with
  | [] => [kv]
  | x :: r => if bltb (fst kv) (fst x) then kv :: m else x :: insert_kv kv r
  end.

Definition sort_kv {A : Type} (m : list (bytes * A)) : list (bytes * A) := fold_right insert_kv [] m.

Fixpoint sort_hv (v : hv) : hv :=
  match v with
  | Str ls => Str ls
  | Lst l => Lst (map sort_hv l)
  | Map m => Map (sort_kv (map (fun kv => (fst kv, sort_hv (snd kv))) m))
  end.

Definition sort_headers (h : list (bytes * hv)) : list (bytes * hv) :=
  sort_kv (map (fun kv => (fst kv, sort_hv (snd kv))) h).

Definition lines_eqb (a b : list line) : bool :=
  (fix go a b := match a, b with
                 | [], [] => true
                 | x :: a', y :: b' => beq x y && go a' b'
                 | _, _ => false end) a b.

Fixpoint hv_eqb (a b : hv) {struct a} : bool :=
  match a, b with
  | Str x, Str y => lines_eqb x y
  | Lst x, Lst y =>
      (fix go x y := match x, y with
                     | [], [] => true
                     | u :: x', v :: y' => hv_eqb u v && go x' y'
                     | _, _ => false end) x y
  | Map x, Map y =>
      (fix go x y := match x, y with
                     | [], [] => true
                     | u :: x', v :: y' => beq (fst u) (fst v) && hv_eqb (snd u) (snd v) && go x' y'
                     | _, _ => false end) x y
  | _, _ => false
  end.

Definition headers_eqb (a b : list (bytes * hv)) : bool := hv_eqb (Map a) (Map b).

(* normalised trees: what a header value must look like to survive the text form.  Strings have at least one line
   (every Go string does) and their lines are newline-free; lists and maps are non-empty (empty ones are omitted by
   appendEntry); map keys are valid names and distinct. *)
Fixpoint keys_distinct {A : Type} (m : list (bytes * A)) : bool :=
  match m with
  | [] => true
  | kv :: r => negb (existsb (fun x => beq (fst x) (fst kv)) r) && keys_distinct r
  end.

Fixpoint norm (v : hv) : bool :=
  match v with
  | Str ls => negb (is_nil_b ls)
  | Lst l => negb (is_nil_b l) && forallb norm l
  | Map m => negb (is_nil_b m) && forallb (fun kv => valid_name (fst kv) && norm (snd kv)) m && keys_distinct m
  end.

Definition norm_headers (h : list (bytes * hv)) : bool :=
  forallb (fun kv => valid_name (fst kv) && norm (snd kv)) h && keys_distinct h.

Fixpoint lines_ok (v : hv) : bool :=
  match v with
  | Str ls => forallb no_nl ls
  | Lst l => forallb lines_ok l
  | Map m => forallb (fun kv => lines_ok (snd kv)) m
  end.

(* ------------------------------------------------------------------ Decode: splitting of a serialized assertion *)
Definition NLNL : bytes := [NL; NL].

(* bytes.Index(s, nlnl): (before, after the delimiter) *)
Fixpoint cut_first_nlnl (s : bytes) : option (bytes * bytes) :=
  match s with
  | [] => None
  | c :: r => if has_prefix NLNL s then Some ([], skipn 1 r)
              else match cut_first_nlnl r with
                   | Some (a, b) => Some (c :: a, b)
                   | None => None
                   end
  end.

(* bytes.LastIndex(s, nlnl) *)
Fixpoint cut_last_nlnl (s : bytes) : option (bytes * bytes) :=
  match s with
  | [] => None
  | c :: r => match cut_last_nlnl r with
              | Some (a, b) => Some (c :: a, b)
              | None => if has_prefix NLNL s then Some ([], skipn 1 r) else None
              end
  end.

(* p_content: the signed content kept with the assertion (what Signature() returns and Encode writes back) *)
Record parts := mkParts { p_headers : list (bytes * hv); p_body : bytes; p_sig : bytes; p_content : bytes }.

(* Decode up to the call of assemble (whose per-type checks are not modelled): Err = rejected before assemble *)
Definition decode_parts (enc : bytes) : res parts :=
  match cut_last_nlnl enc with
  | None => Err
  | Some (content, sig) =>
      let '(head, body) := match cut_first_nlnl content with
                           | None => (content, [])
                           | Some (h, b) => (h, b)
                           end in
      match parse_headers head with
      | Ok h => Ok (mkParts h body sig content)
      | Err => Err
      | Panic => Panic
      | OutOfFuel => OutOfFuel
      end
  end.

(* Encode *)
Definition encode (content sig : bytes) : bytes := content ++ NLNL ++ sig.

(* the serialized form built by assembleAndSign + Encode: header lines joined by newlines, then (only if the body is
   not empty) a blank line and the body, then a blank line and the signature *)
Definition content_of (head body : bytes) : bytes := if is_nil_b body then head else head ++ NLNL ++ body.

Definition encode_assertion (h : list (bytes * hv)) (body sig : bytes) : bytes :=
  encode (content_of (join_lines (format_headers h)) body) sig.

(* Encoder (NewEncoder / WriteEncoded / WriteContentSignature / Encode): one item is the bytes of one serialized
   assertion (content, blank line, signature; WriteContentSignature writes exactly these bytes).  Before every item but
   the first the encoder writes nextSep = one newline, and after an item that does not end in a newline it writes one
   (writeSep), so that consecutive assertions are always separated by exactly one blank line. *)
Fixpoint encode_stream_from (next : bytes) (items : list bytes) : bytes :=
  match items with
  | [] => []
  | e :: r => next ++ e ++ (if last e 0 =? NL then [] else [NL]) ++ encode_stream_from [NL] r
  end.

Definition encode_stream (items : list bytes) : bytes := encode_stream_from [] items.

(* ------------------------------------------------------------------ bufio.Reader.Peek(n) over a reader that returns its
   data in arbitrary pieces: [buf] is what is buffered and unread, [chunks] are the results of the future Read calls.
   Peek calls fill (one Read each time) until n bytes are buffered or the reader is exhausted; it returns the first n
   buffered bytes, or everything together with the error when the reader ended first.  Assumed about bufio, not modelled:
   the buffer is large enough (Decoder.peek re-creates the reader with a larger buffer on ErrBufferFull, carrying the
   buffered bytes over), Read calls returning no data and no error do not go on forever, and an EOF returned together
   with data is reported only once the data is used up. *)
Fixpoint peek_fill (n : nat) (buf : bytes) (chunks : list bytes) : bytes * list bytes * bool :=
  match chunks with
  | [] => (buf, [], Nat.ltb (length buf) n)
  | c :: r => if Nat.leb n (length buf) then (buf, chunks, false) else peek_fill n (buf ++ c) r
  end.

Definition chunk_peek (n : nat) (buf : bytes) (chunks : list bytes) : bytes * bool :=
  let '(b, _, hit_eof) := peek_fill n buf chunks in (firstn n b, hit_eof).

(* ------------------------------------------------------------------ the stream decoder over an in-memory reader.
   State: the bytes not yet consumed and whether the reader has already reported end of input (Decoder.err is
   sticky).  peek(size): fewer than size bytes left -> all of them, with the EOF error; otherwise size bytes and the
   sticky error.  Once EOF has been seen everything left is buffered, so Buffered() is the number of bytes left. *)
Record dstate := mkD { d_rem : bytes; d_eof : bool }.

Definition lenN (s : bytes) : N := N.of_nat (length s).
Definition takeN (n : N) (s : bytes) : bytes := firstn (N.to_nat (N.min n (lenN s))) s.
Definition dropN (n : N) (s : bytes) : bytes := skipn (N.to_nat (N.min n (lenN s))) s.

Definition peek (size : N) (d : dstate) : bytes * bool * dstate :=
  if lenN (d_rem d) <? size then (d_rem d, true, mkD (d_rem d) true)
  else (takeN size (d_rem d), d_eof d, d).

(* position just after the first nlnl in s *)
Definition delim_end (s : bytes) : option N :=
  match cut_first_nlnl s with
  | Some (a, _) => Some (lenN a + 2)
  | None => None
  end.

Inductive rures := RFound (buf : bytes) | REof (buf : bytes) | RTooBig | RFuel.

(* readUntil(nlnl, maxSize): the doubling loop; size starts at initialBufSize *)
Fixpoint read_until (fuel : nat) (size maxSize : N) (d : dstate) : rures * dstate :=
  match fuel with
  | O => (RFuel, d)
  | S f =>
      let '(buf, err, d1) := peek size d in
      match delim_end buf with
      | Some e => (RFound (takeN e buf), mkD (dropN e (d_rem d1)) (d_eof d1))
      | None =>
          if err && (lenN buf =? lenN (d_rem d1)) then (REof buf, mkD [] (d_eof d1))
          else if maxSize <? size * 2 then (RTooBig, d1)
          else read_until f (size * 2) maxSize d1
      end
  end.

(* readUntil exactly as the Go loop searches: each round only looks at buf[last:], where last = size - len(delim) + 1
   of the previous round (0 in the first), i.e. it keeps an overlap of len(delim) - 1 bytes so that a delimiter that
   straddles two rounds is still seen.  [read_until] above searches the whole buffer every round; the two are proved
   equal (C20_read_until_overlap), which is the statement that the overlap loses no delimiter. *)
Definition delim_end_from (last : N) (buf : bytes) : option N :=
  match delim_end (dropN last buf) with
  | Some e => Some (N.min last (lenN buf) + e)
  | None => None
  end.

Fixpoint read_until_go (fuel : nat) (last size maxSize : N) (d : dstate) : rures * dstate :=
  match fuel with
  | O => (RFuel, d)
  | S f =>
      let '(buf, err, d1) := peek size d in
      match delim_end_from last buf with
      | Some e => (RFound (takeN e buf), mkD (dropN e (d_rem d1)) (d_eof d1))
      | None =>
          if err && (lenN buf =? lenN (d_rem d1)) then (REof buf, mkD [] (d_eof d1))
          else if maxSize <? size * 2 then (RTooBig, d1)
          else read_until_go f (size - 1) (size * 2) maxSize d1
      end
  end.

(* enough for any 64-bit size *)
Definition ru_fuel : nat := 70.

(* readExact(size): Ok buf | unexpected EOF *)
Definition read_exact (size : N) (d : dstate) : option bytes * dstate :=
  let '(buf, err, d1) := peek size d in
  let d2 := mkD (dropN (lenN buf) (d_rem d1)) (d_eof d1) in
  if lenN buf =? size then (Some buf, d2) else (None, d2).

(* strconv.Atoi followed by the prefix-zero check of asserts.atoi; int is 64 bit *)
Definition max64 : Z := 9223372036854775807%Z.
Definition min64 : Z := (-9223372036854775808)%Z.

Definition atoi (s : bytes) : option Z :=
  let '(neg, ds) := match s with
                    | c :: r => if c =? 43 then (false, r) else if c =? 45 then (true, r) else (false, s)
                    | [] => (false, s)
                    end in
  match undec ds with
  | None => None
  | Some v => let z := if neg then (- Z.of_N v)%Z else Z.of_N v in
              if (min64 <=? z)%Z && (z <=? max64)%Z
              then match s with
                   | 48 :: _ :: _ => None                                        (* prefixZeros *)
                   | _ => Some z
                   end
              else None
  end.

Fixpoint lookup (k : bytes) (m : list (bytes * hv)) : option hv :=
  match m with
  | [] => None
  | kv :: r => if beq (fst kv) k then Some (snd kv) else lookup k r
  end.

Definition body_length_name : bytes := [98; 111; 100; 121; 45; 108; 101; 110; 103; 116; 104].

(* checkIntWithDefault(headers, body-length, 0) *)
Definition body_length (h : list (bytes * hv)) : option Z :=
  match lookup body_length_name h with
  | None => Some 0%Z
  | Some (Str [l]) => atoi l
  | Some _ => None
  end.

Record limits := mkLim { l_buf : N; l_headers : N; l_body : N; l_sig : N }.

(* one call of Decoder.Decode, up to the call of assemble *)
Inductive sres := SOk (p : parts) | SErr | SEof | SPanic | SFuel.

Definition has_suffix_nlnl (s : bytes) : bool := has_prefix NLNL (rev s).

Definition stream_decode (lim : limits) (d : dstate) : sres * dstate :=
  match read_until ru_fuel (l_buf lim) (l_headers lim) d with
  | (RFuel, d1) => (SFuel, d1)
  | (RTooBig, d1) => (SErr, d1)
  | (REof buf, d1) => (if is_nil_b buf then SEof else SErr, d1)
  | (RFound headAndSep, d1) =>
      let head := firstn (length headAndSep - 2) headAndSep in
      match parse_headers head with
      | Err => (SErr, d1)
      | Panic => (SPanic, d1)
      | OutOfFuel => (SFuel, d1)
      | Ok h =>
          match body_length h with
          | None => (SErr, d1)
          | Some len =>
              if (len <? 0)%Z then (SErr, d1)                                         (* negative body-length rejected *)
              else if (Z.of_N (l_body lim) <? len)%Z then (SErr, d1)
              else if (Z.of_N (lenN headAndSep) + len <? 0)%Z then (SPanic, d1)          (* make([]byte, 0, negative) *)
              else
                let '(bodyo, d2) := if (0 <? len)%Z then read_exact (Z.to_N len) d1 else (Some [], d1) in
                match bodyo with
                | None => (SErr, d2)
                | Some body =>
                    match read_until ru_fuel (l_buf lim) (l_sig lim) d2 with
                    | (RFuel, d3) => (SFuel, d3)
                    | (RTooBig, d3) => (SErr, d3)
                    | (r1, d3) =>
                        let endOfBody := match r1 with RFound b => b | REof b => b | _ => [] end in
                        if beq endOfBody NLNL then
                          match read_until ru_fuel (l_buf lim) (l_sig lim) d3 with
                          | (RFuel, d4) => (SFuel, d4)
                          | (RTooBig, d4) => (SErr, d4)
                          | (r2, d4) =>
                              let sig := match r2 with RFound b => b | REof b => b | _ => [] end in
                              let sig' := if has_suffix_nlnl sig then removelast sig else sig in
                              (SOk (mkParts h (if (0 <? len)%Z then body else []) sig' (headAndSep ++ body)), d4)
                          end
                        else if (0 <? len)%Z then (SErr, d3)
                        else
                          let sig' := if has_suffix_nlnl endOfBody then removelast endOfBody else endOfBody in
                          (SOk (mkParts h [] sig' head), d3)                     (* contentBuf.Truncate(headLen) *)
                    end
                end
          end
      end
  end.

(* repeated Decode, one call per entry of [accepted], stopping at the first result that is not an assertion;
   [accepted] tells, for each assertion the model hands to assemble, whether the implementation's assemble accepted
   it (that part is not modelled) *)
Fixpoint stream_all (lim : limits) (d : dstate) (accepted : list bool) : list sres :=
  match accepted with
  | [] => []
  | a :: acc' =>
      match stream_decode lim d with
      | (SOk p, d1) => if a then SOk p :: stream_all lim d1 acc' else [SErr]
      | (r, _) => [r]
      end
  end.

(* ------------------------------------------------------------------ definitions for the stream round trip (C20_stream_roundtrip) *)
(* the doubling loop reaches a window of n bytes without exceeding the limit *)
Fixpoint ru_ok (fuel : nat) (size maxSize n : N) : bool :=
  match fuel with
  | O => false
  | S f => (n <=? size) || (negb (maxSize <? size * 2) && ru_ok f (size * 2) maxSize n)
  end.

(* ------------------------------------------------------------------ one assertion as written into a stream *)
Record item := mkItem { i_h : list (bytes * hv); i_body : bytes; i_s : bytes }.
Definition i_head (it : item) : bytes := join_lines (format_headers (i_h it)).
Definition i_content (it : item) : bytes := content_of (i_head it) (i_body it).
Definition i_sig (it : item) : bytes := i_s it ++ [NL].
Definition i_parts (it : item) : parts := mkParts (i_h it) (i_body it) (i_sig it) (i_content it).
Definition written (it : item) : bytes := i_content it ++ NLNL ++ i_sig it.

Definition wf_item (it : item) : Prop :=
  norm_headers (i_h it) = true /\ i_h it <> [] /\ forallb no_nl (format_headers (i_h it)) = true /\
  utf8_valid (i_head it) = true /\ body_length (i_h it) = Some (Z.of_N (lenN (i_body it))) /\
  cut_first_nlnl (i_s it) = None /\ last (i_s it) 0 <> NL /\ i_s it <> [].

Definition lim_ok (lim : limits) (it : item) : Prop :=
  ru_ok ru_fuel (l_buf lim) (l_headers lim) (lenN (i_head it) + 2) = true /\
  lenN (i_body it) <= l_body lim /\
  ru_ok ru_fuel (l_buf lim) (l_sig lim) (lenN (i_s it) + 2) = true.

(* what one Encoder writes for a list of assertions: the items separated by one extra newline (a blank line in all) *)
Fixpoint stream_of (l : list item) : bytes :=
  match l with
  | [] => []
  | [it] => written it
  | it :: r => written it ++ NL :: stream_of r
  end.

(* the Encoder: each assertion is handed over complete or without the final newline of its signature *)
Definition enc_item (trim : bool) (it : item) : bytes := if trim then i_content it ++ NLNL ++ i_s it else written it.
Definition enc_items (l : list (bool * item)) : list bytes := map (fun x => enc_item (fst x) (snd x)) l.

(* ------------------------------------------------------------------ correspondence interface *)
Inductive pres := POk (h : list (bytes * hv)) | PErr | PPanic.

(* reenc: asserts.Encode of the returned assertion (its signed content, a blank line, its signature) *)
Inductive ores := OOk (h : list (bytes * hv)) (body sig reenc : bytes) | OErr | OEof | OPanic.

Inductive case :=
(* appendEntry(buf, h:, v, 0): the written text split at newlines, without the empty first piece *)
| CFmt (v : hv) (lines : list line)
(* parseHeaders(head); maps printed sorted by key; POk/PErr/PPanic (panic recovered by the driver) *)
| CParse (head : bytes) (r : pres)
(* a signed assertion: its Headers() (sorted), Body(), signature, its Encode()d form, and what Decode(enc) and a
   NewDecoder(enc).Decode() returned; timeout = a call exceeded the time bound *)
| CCodec (h : list (bytes * hv)) (body sig enc : bytes) (dec sdec : ores) (verified timeout : bool)
(* arbitrary bytes given to Decode *)
| CDecode (enc : bytes) (dec : ores) (timeout : bool)
(* a stream given to a decoder with the given limits, Decode called until the first non-assertion result *)
| CStream (lim : limits) (stream : bytes) (results : list ores) (timeout : bool)
(* valid signed assertions (their Headers(), Body(), signature) written by the real Encoder into one stream, read
   back by a decoder whose limits are ample, through a reader that hands out the bytes [chunk] at a time (0 = all at
   once); sizes are chosen so that the delimiters fall on and around the decoder's read boundaries *)
| CChunk (lim : limits) (origs : list (list (bytes * hv) * bytes * bytes * bytes)) (stream : bytes) (chunk : N)
         (results : list ores) (verified timeout : bool)
(* the same, the stream being what ONE real Encoder wrote when given [items] (the serialized assertions, some with
   their final newline cut off) through Encode / WriteEncoded / WriteContentSignature *)
| CEnc (lim : limits) (items : list bytes) (origs : list (list (bytes * hv) * bytes * bytes * bytes)) (stream : bytes)
       (chunk : N) (results : list ores) (verified timeout : bool).

Definition pres_of (r : res (list (bytes * hv))) : pres :=
  match r with Ok h => POk (sort_headers h) | Err => PErr | _ => PPanic end.

Definition pres_eqb (a b : pres) : bool :=
  match a, b with
  | POk x, POk y => headers_eqb x y
  | PErr, PErr => true
  | PPanic, PPanic => true
  | _, _ => false
  end.

(* the implementation's result agrees with the model's, where the model stops before assemble: an accepted
   assertion must carry exactly the model's parts; a rejection is allowed wherever the model reached assemble *)
Definition parts_agree (p : parts) (o : ores) : bool :=
  match o with
  | OOk h body sig reenc => headers_eqb (sort_headers (p_headers p)) h && beq (p_body p) body && beq (p_sig p) sig
                            && beq (encode (p_content p) (p_sig p)) reenc
  | OErr => true
  | _ => false
  end.

Definition dec_agree (m : res parts) (o : ores) : bool :=
  match m with
  | Ok p => parts_agree p o
  | Err => match o with OErr => true | _ => false end
  | _ => match o with OPanic => true | _ => false end
  end.

Definition accepted_of (rs : list ores) : list bool := map (fun o => match o with OOk _ _ _ _ => true | _ => false end) rs.

Fixpoint stream_agree (ms : list sres) (os : list ores) : bool :=
  match ms, os with
  | [], [] => true
  | SOk p :: ms', (OOk _ _ _ _ as o) :: os' => parts_agree p o && stream_agree ms' os'
  | SErr :: ms', OErr :: os' => is_nil_b ms' && is_nil_b os'
  | SEof :: ms', OEof :: os' => is_nil_b ms' && is_nil_b os'
  | SPanic :: ms', OPanic :: os' => is_nil_b ms' && is_nil_b os'
  | _, _ => false
  end.

Definition default_limits : limits := mkLim 4096 131072 2097152 131072.

Definition mismatch (c : case) : bool :=
  match c with
  | CFmt v lines => negb (lines_eqb (format_entry [104; COLON] v 0) lines)
  | CParse head r => negb (pres_eqb (pres_of (parse_headers head)) r)
  | CCodec _ _ _ enc dec sdec _ _ =>
      negb (dec_agree (decode_parts enc) dec)
      || negb (stream_agree (stream_all default_limits (mkD enc false) (accepted_of [sdec])) [sdec])
  | CDecode enc dec _ => negb (dec_agree (decode_parts enc) dec)
  | CStream lim stream results _ =>
      negb (stream_agree (stream_all lim (mkD stream false) (accepted_of results)) results)
  | CChunk lim _ stream _ results _ _ =>
      negb (stream_agree (stream_all lim (mkD stream false) (accepted_of results)) results)
  | CEnc lim items _ stream _ results _ _ =>
      negb (beq (encode_stream items) stream)
      || negb (stream_agree (stream_all lim (mkD stream false) (accepted_of results)) results)
  end.

(* The property's conclusion on the observed behaviour only (no model function of the codec is used):
   - no call panicked or exceeded its time bound;
   - a signed assertion with normalised headers decodes (both decoders, every chunking of the reader) to the identical
     headers, body and signature, asserts.Encode of the decoded assertion (its signed content, a blank line, its
     signature) is byte for byte the original encoding, and its signature still verifies against the signing key;
   - whatever Decode accepts re-encodes to exactly the bytes it was given;
   - parseHeaders results are well-formed trees (normalised, since the text form cannot express anything else);
   - every assertion returned by a limited stream decoder respects the limits, and the results end with an
     error or EOF. *)
Definition ores_ok_same (h : list (bytes * hv)) (body sig enc : bytes) (o : ores) : bool :=
  match o with
  | OOk h' body' sig' reenc => headers_eqb h h' && beq body body' && beq sig sig' && beq enc reenc
  | _ => false
  end.

Definition is_panic (o : ores) : bool := match o with OPanic => true | _ => false end.

Definition within (lim : limits) (o : ores) : bool :=
  match o with
  | OOk _ body sig _ => (lenN body <=? l_body lim) && (lenN sig <=? N.max (l_buf lim) (l_sig lim))
  | _ => true
  end.

(* every original comes back identical, in order, and then the stream ends cleanly *)
Fixpoint same_all (origs : list (list (bytes * hv) * bytes * bytes * bytes)) (results : list ores) : bool :=
  match origs, results with
  | [], [OEof] => true
  | (h, body, sig, enc) :: origs', r :: results' => ores_ok_same h body sig enc r && same_all origs' results'
  | _, _ => false
  end.

Definition monitor_fail (c : case) : bool :=
  match c with
  | CFmt _ _ => false
  | CParse _ r => match r with POk h => negb (norm_headers h || is_nil_b h) | PErr => false | PPanic => true end
  | CCodec h body sig enc dec sdec verified timeout =>
      timeout || is_panic dec || is_panic sdec
      || (norm_headers h && forallb (fun kv => lines_ok (snd kv)) h
          && negb (ores_ok_same h body sig enc dec && ores_ok_same h body sig enc sdec && verified))
  | CDecode enc dec timeout =>
      timeout || is_panic dec || match dec with OOk _ _ _ reenc => negb (beq enc reenc) | _ => false end
  | CStream lim _ results timeout =>
      timeout || existsb is_panic results || negb (forallb (within lim) results)
      || match rev results with
         | OErr :: _ => false
         | OEof :: _ => false
         | _ => true
         end
  | CChunk lim origs _ _ results verified timeout =>
      timeout || existsb is_panic results
      || (forallb (fun o => norm_headers (fst (fst (fst o))) && forallb (fun kv => lines_ok (snd kv)) (fst (fst (fst o)))) origs
          && negb (same_all origs results && verified))
  | CEnc lim _ origs _ _ results verified timeout =>
      timeout || existsb is_panic results
      || (forallb (fun o => norm_headers (fst (fst (fst o))) && forallb (fun kv => lines_ok (snd kv)) (fst (fst (fst o)))) origs
          && negb (same_all origs results && verified))
  end.
