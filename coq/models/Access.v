(* C26 -- REST API requests are served only to callers the endpoint's access level allows.
   Executable model of daemon/ucrednet.go (credential string print / parse / attach), daemon/access.go (the six access
   checkers) and the dispatch part of daemon/daemon.go:Command.ServeHTTP, written function by function from the Go code.
   The endpoint table is NOT written here: it is gen/Endpoints.v, regenerated from daemon/api*.go on every run.
   No proofs in this file (proofs/AccessProofs.v). *)
From Coq Require Import List NArith ZArith Bool String.
Import ListNotations.
Require Import V.lib.Bytes V.lib.Dec V.gen.Endpoints.
Open Scope N_scope.

(* ------------------------------------------------------------------------------------------------ small helpers *)

Fixpoint strip_prefix (p l : bytes) : option bytes :=
  match p, l with
  | [], _ => Some l
  | x :: p', y :: l' => if x =? y then strip_prefix p' l' else None
  | _, [] => None
  end.

Fixpoint mem (x : bytes) (l : list bytes) : bool :=
  match l with [] => false | y :: r => beq x y || mem x r end.

Definition semi : N := 59.   (* ';' *)
Definition amp : N := 38.    (* '&' *)
Definition not_semi (c : N) : bool := negb (c =? semi).

(* strings.Split(s, "&"): always at least one field *)
Fixpoint split_amp (s : bytes) : list bytes :=
  match s with
  | [] => [[]]
  | c :: r => if c =? amp then [] :: split_amp r
              else match split_amp r with f :: fs => (c :: f) :: fs | [] => [[c]] end
  end.

(* strings.Join(l, "&") *)
Fixpoint join_amp (l : list bytes) : bytes :=
  match l with
  | [] => []
  | [x] => x
  | x :: r => x ++ amp :: join_amp r
  end.

(* ------------------------------------------------------------------------------------------------ ucrednet.go *)

Definition ucrednet_no_process : N := 0.
Definition ucrednet_nobody : N := 4294967295.     (* uint32((1 << 32) - 1) *)

(* type ucrednet struct { Pid int32; Uid uint32; Socket string } -- Pid is only ever used as a positive number here;
   a negative pid prints with a minus sign, which the regexp rejects (see print_ucred's domain in the theorems) *)
Record ucred : Type := mkUcred { u_pid : N; u_uid : N; u_socket : bytes }.

(* ucrednet.String for a non-nil receiver: Sprintf of pid=%d;uid=%d;socket=%s; *)
Definition print_ucred (u : ucred) : bytes :=
  bs "pid=" ++ dec (u_pid u) ++ bs ";uid=" ++ dec (u_uid u) ++ bs ";socket=" ++ u_socket u ++ [semi].

(* ucrednet.String for the nil receiver *)
Definition print_nil_ucred : bytes := bs "pid=;uid=;socket=;".

(* raddrRegexp = ^pid=(\d+);uid=(\d+);socket=(NOSEMI);(iface=(NOSEMI);)?$  with NOSEMI = any run of bytes other than ; -- the submatches.
   The expression is deterministic (each group is delimited by a byte it cannot contain), so leftmost-first matching is
   this single left-to-right pass. ra_iface is group 5 when group 4 took part in the match. *)
Record raddr : Type := mkRaddr { ra_pid : bytes; ra_uid : bytes; ra_socket : bytes; ra_iface : option bytes }.

Definition match_raddr (s : bytes) : option raddr :=
  match strip_prefix (bs "pid=") s with
  | None => None
  | Some r1 =>
    let (pid, r2) := span is_digit r1 in
    if is_nil_b pid then None else
    match strip_prefix (bs ";uid=") r2 with
    | None => None
    | Some r3 =>
      let (uid, r4) := span is_digit r3 in
      if is_nil_b uid then None else
      match strip_prefix (bs ";socket=") r4 with
      | None => None
      | Some r5 =>
        let (sock, r6) := span not_semi r5 in
        match r6 with
        | [] => None
        | _ :: [] => Some (mkRaddr pid uid sock None)           (* the byte is ';' : span stopped on it *)
        | _ :: r7 =>
          match strip_prefix (bs "iface=") r7 with
          | None => None
          | Some r8 =>
            let (ifs, r9) := span not_semi r8 in
            match r9 with
            | _ :: [] => Some (mkRaddr pid uid sock (Some ifs))
            | _ => None
            end
          end
        end
      end
    end
  end.

(* the text before group 4, i.e. remoteAddr[:inds[8]] when the expression matched *)
Definition raddr_prefix (ra : raddr) : bytes :=
  bs "pid=" ++ ra_pid ra ++ bs ";uid=" ++ ra_uid ra ++ bs ";socket=" ++ ra_socket ra ++ [semi].

(* strconv.ParseInt(s, 10, 32) on a digit string; on a range error the field keeps its initial value *)
Definition parse_pid (d : bytes) : N :=
  match undec d with Some n => if n <? 2147483648 then n else ucrednet_no_process | None => ucrednet_no_process end.
(* strconv.ParseUint(s, 10, 32) *)
Definition parse_uid (d : bytes) : N :=
  match undec d with Some n => if n <? 4294967296 then n else ucrednet_nobody | None => ucrednet_nobody end.

(* ucrednetGetWithInterfacesImpl: None = errNoID *)
Definition ucrednet_get_with_interfaces (remote : bytes) : option (ucred * list bytes) :=
  match match_raddr remote with
  | None => None                                   (* Pid/Uid keep the NoProcess/Nobody defaults *)
  | Some ra =>
    let pid := parse_pid (ra_pid ra) in
    let uid := parse_uid (ra_uid ra) in
    let ifaces := match ra_iface ra with Some g => split_amp g | None => [] end in
    if (pid =? ucrednet_no_process) || (uid =? ucrednet_nobody) then None
    else Some (mkUcred pid uid (ra_socket ra), ifaces)
  end.

(* ucrednetGetImpl *)
Definition ucrednet_get (remote : bytes) : option ucred :=
  match ucrednet_get_with_interfaces remote with Some (u, _) => Some u | None => None end.

(* ucrednetAttachInterface *)
Definition ucrednet_attach_interface (remote iface : bytes) : bytes :=
  match match_raddr remote with
  | None => remote ++ bs "iface=" ++ iface ++ [semi]
  | Some ra =>
    match ra_iface ra with
    | None => remote ++ bs "iface=" ++ iface ++ [semi]
    | Some g =>
      let ifaces := split_amp g in
      if mem iface ifaces then remote
      else raddr_prefix ra ++ bs "iface=" ++ join_amp (ifaces ++ [iface]) ++ [semi]
    end
  end.

(* ------------------------------------------------------------------------------------------------ request context *)

(* dirs.SnapdSocket / dirs.SnapSocket with the default root directory (the driver forges RemoteAddr from the real values) *)
Definition snapd_socket : bytes := bs "/run/snapd.socket".
Definition snap_socket : bytes := bs "/run/snapd-snap.socket".

(* what polkit.CheckAuthorization returns: (true,nil) / (false,nil) / ErrDismissed / any other error *)
Inductive polkit_answer : Type := PkYes | PkNo | PkDismissed | PkError.

(* one entry of the persisted conns: plug snap and slot snap of the reference (instance names, compared exactly),
   Interface, Undesired, HotplugGone. The code looks at the plug side only; the slot side is part of the context so
   that the specification can say so and the driver can offer connections in which the caller is the slot side. *)
Record conn : Type := mkConn { c_plug_snap : bytes; c_slot_snap : bytes; c_iface : bytes;
                               c_undesired : bool; c_hotplug_gone : bool }.

Record ctx : Type := mkCtx {
  x_remote : bytes;                          (* r.RemoteAddr as set by the listener (or forged) *)
  x_user : bool;                             (* userFromRequest found a user for the Authorization header *)
  x_polkit : bytes -> polkit_answer;         (* polkit's answer for this peer and the given action id *)
  x_snap_of_pid : option bytes;              (* cgroupSnapNameFromPid(ucred.Pid); None = error *)
  x_conns : list conn;                       (* ifacestate.ConnectionStates(st), in iteration order *)
  x_degraded : bool                          (* c.d.degradedErr != nil *)
}.

(* polkit answers given as a table with a default (how the driver describes its mock) *)
Fixpoint pk_table (t : list (bytes * polkit_answer)) (d : polkit_answer) (a : bytes) : polkit_answer :=
  match t with [] => d | (k, v) :: r => if beq k a then v else pk_table r d a end.

(* ------------------------------------------------------------------------------------------------ access.go *)

(* the error responses, by HTTP meaning *)
Inductive denial : Type := Forbidden | Unauthorized | AuthCancelled.

(* requireSnapdSocket *)
Definition require_snapd_socket (uc : option ucred) : option denial :=
  match uc with
  | None => Some Forbidden
  | Some u => if beq (u_socket u) snapd_socket then None else Some Forbidden
  end.

(* checkPolkitActionImpl *)
Definition check_polkit_action (x : ctx) (action : bytes) : option denial :=
  match x_polkit x action with
  | PkYes => None
  | PkNo => Some Unauthorized
  | PkDismissed => Some AuthCancelled
  | PkError => Some Unauthorized
  end.

(* the common tail of authenticatedAccess / interfaceAuthenticatedAccess *)
Definition auth_tail (x : ctx) (u : ucred) (polkit : bytes) : option denial :=
  if x_user x then None
  else if u_uid u =? 0 then None
  else if negb (is_nil_b polkit) then check_polkit_action x polkit
  else Some Unauthorized.

(* ConnectionState.Active *)
Definition conn_active (c : conn) : bool := negb (c_undesired c || c_hotplug_gone c).

(* the interfaces requireInterfaceApiAccessImpl attaches, in iteration order *)
Definition matching_conns (x : ctx) (snap_name : bytes) (names : list bytes) : list bytes :=
  map c_iface (filter (fun c => conn_active c && mem (c_iface c) names && beq (c_plug_snap c) snap_name) (x_conns x)).

(* requireInterfaceApiAccessImpl: decision and the new r.RemoteAddr *)
Definition require_interface_api_access (x : ctx) (remote : bytes) (uc : option ucred) (names : list bytes)
  : option denial * bytes :=
  match uc with
  | None => (Some Forbidden, remote)
  | Some u =>
    if beq (u_socket u) snapd_socket then (None, remote)
    else if beq (u_socket u) snap_socket then
      match x_snap_of_pid x with
      | None => (Some Forbidden, remote)
      | Some sn =>
        let found := matching_conns x sn names in
        let remote' := fold_left ucrednet_attach_interface found remote in
        (if is_nil_b found then Some Forbidden else None, remote')
      end
    else (Some Forbidden, remote)
  end.

(* CheckAccess of each checker type; ANil (nil interface) is handled by the caller *)
Definition check_access (a : access) (x : ctx) (remote : bytes) (uc : option ucred) : option denial * bytes :=
  match a with
  | ANil => (Some Forbidden, remote)         (* not reached: serve handles the nil checker *)
  | AOpen => (require_snapd_socket uc, remote)
  | AAuth polkit =>
    match require_snapd_socket uc, uc with
    | Some d, _ => (Some d, remote)
    | None, Some u => (auth_tail x u polkit, remote)
    | None, None => (Some Forbidden, remote)
    end
  | ARoot =>
    match require_snapd_socket uc, uc with
    | Some d, _ => (Some d, remote)
    | None, Some u => (if u_uid u =? 0 then None else Some Forbidden, remote)
    | None, None => (Some Forbidden, remote)
    end
  | ASnap =>
    match uc with
    | None => (Some Forbidden, remote)
    | Some u => (if beq (u_socket u) snap_socket then None else Some Forbidden, remote)
    end
  | AIfaceOpen names => require_interface_api_access x remote uc names
  | AIfaceAuth names polkit =>
    match require_interface_api_access x remote uc names, uc with
    | (Some d, r'), _ => (Some d, r')
    | (None, r'), Some u => (auth_tail x u polkit, r')
    | (None, r'), None => (Some Forbidden, r')
    end
  end.

(* ------------------------------------------------------------------------------------------------ daemon.go *)

Inductive meth : Type := GET | PUT | POST | OTHER.    (* OTHER: DELETE, HEAD, PATCH, ... *)

Inductive outcome : Type :=
| Handler            (* the endpoint's ResponseFunc ran *)
| MethodNotAllowed   (* 405 *)
| Denied (d : denial)
| InternalErr        (* degraded mode, non-GET *)
| NilChecker.        (* a verb is set but its access field is nil: CheckAccess on a nil interface panics *)

Definition registered (e : endpoint) (m : meth) : bool :=
  match m with GET => ep_get e | PUT => ep_put e | POST => ep_post e | OTHER => false end.

Definition declared (e : endpoint) (m : meth) : access :=
  match m with GET => ep_read e | PUT => ep_write e | POST => ep_write e | OTHER => ANil end.

Definition is_get (m : meth) : bool := match m with GET => true | _ => false end.

(* Command.ServeHTTP up to the call of the ResponseFunc: outcome and the RemoteAddr the handler sees *)
Definition serve (e : endpoint) (m : meth) (x : ctx) : outcome * bytes :=
  if x_degraded x && negb (is_get m) then (InternalErr, x_remote x)
  else
    let uc := ucrednet_get (x_remote x) in
    if negb (registered e m) then (MethodNotAllowed, x_remote x)
    else match declared e m with
         | ANil => (NilChecker, x_remote x)
         | a => match check_access a x (x_remote x) uc with
                | (Some d, r') => (Denied d, r')
                | (None, r') => (Handler, r')
                end
         end.

(* ------------------------------------------------------------------------------------------------ api_notices.go
   the part of the notices handlers that depends on what the access checker attached to RemoteAddr *)

(* noticeReadInterfaces[t] (nil for a type that is not a key) *)
Fixpoint lookup_ifaces (tbl : list (bytes * list bytes)) (t : bytes) : list bytes :=
  match tbl with [] => [] | (k, v) :: r => if beq k t then v else lookup_ifaces r t end.

(* noticeTypesViewableBySnap(types, r) *)
Definition notice_types_viewable (types : list bytes) (remote : bytes) : bool :=
  match ucrednet_get_with_interfaces remote with
  | None => false
  | Some (u, ifaces) =>
    if beq (u_socket u) snapd_socket then true
    else if is_nil_b types then false
    else forallb (fun t => existsb (fun i => mem i (lookup_ifaces notice_read_interfaces t)) ifaces) types
  end.

(* ------------------------------------------------------------------------------------------------ api_snapctl.go
   runSnapctl: the uid handed to ctlcmd.Run is ucrednetGet(r.RemoteAddr).Uid (0 stands for the error return, which
   makes runSnapctl answer Forbidden without calling Run) *)
Definition snapctl_uid (remote : bytes) : N :=
  match ucrednet_get remote with Some u => u_uid u | None => 0 end.

(* ------------------------------------------------------------------------------------------------ the pinned policy
   Written by hand (pinned from the endpoint table of the tree this check was built on, each row reviewed against the
   REST API documentation), kept independent of the generated table: for each path and verb the
   WEAKEST access level that may be declared. The theorems state that the generated table declares, for every
   registered verb, a level at least as strict as this one. A path that is not listed has no policy: the table
   obligation fails for it (a new endpoint must be classified here). *)

Definition pk_login := bs "io.snapcraft.snapd.login".
Definition pk_manage := bs "io.snapcraft.snapd.manage".
Definition pk_manage_ifaces := bs "io.snapcraft.snapd.manage-interfaces".
Definition pk_manage_conf := bs "io.snapcraft.snapd.manage-configuration".
Definition if_refresh_observe := bs "snap-refresh-observe".
Definition if_themes := bs "snap-themes-control".
Definition if_prompting := bs "snap-interfaces-requests-control".

(* path, level for GET, level for PUT/POST (ANil: the verb class must not be served at all) *)
Definition policy : list (bytes * access * access) := [
  (bs "/", AOpen, ANil);
  (bs "/v2/system-info", AIfaceOpen [if_prompting], ANil);
  (bs "/v2/login", ANil, AAuth pk_login);
  (bs "/v2/logout", ANil, AAuth pk_login);
  (bs "/v2/icons/{name}/icon", AOpen, ANil);
  (bs "/v2/find", AOpen, ANil);
  (bs "/v2/snaps", AIfaceOpen [if_refresh_observe], AAuth pk_manage);
  (bs "/v2/snaps/{name}", AIfaceOpen [if_refresh_observe], AAuth pk_manage);
  (bs "/v2/snaps/{name}/file", AOpen, ANil);
  (bs "/v2/download", ANil, AAuth pk_manage);
  (bs "/v2/snaps/{name}/conf", AAuth pk_manage_conf, AAuth pk_manage_conf);
  (bs "/v2/interfaces", AOpen, AAuth pk_manage_ifaces);
  (bs "/v2/assertions", AOpen, AAuth []);
  (bs "/v2/assertions/{assertType}", AOpen, ANil);
  (bs "/v2/changes/{id}", AIfaceOpen [if_refresh_observe], AAuth pk_manage);
  (bs "/v2/changes", AIfaceOpen [if_refresh_observe], ANil);
  (bs "/v2/create-user", ANil, ARoot);
  (bs "/v2/buy", ANil, AAuth []);
  (bs "/v2/buy/ready", AAuth [], ANil);
  (bs "/v2/snapctl", ANil, ASnap);
  (bs "/v2/users", ARoot, ARoot);
  (bs "/v2/sections", AOpen, ANil);
  (bs "/v2/categories", AOpen, ANil);
  (bs "/v2/aliases", AOpen, AAuth []);
  (bs "/v2/apps", AOpen, AAuth pk_manage);
  (bs "/v2/logs", AAuth pk_manage, ANil);
  (bs "/v2/warnings", AOpen, AAuth pk_manage);
  (bs "/v2/debug/pprof/", ARoot, ANil);
  (bs "/v2/debug", AOpen, ARoot);
  (bs "/v2/snapshots", AOpen, AAuth pk_manage);
  (bs "/v2/snapshots/{id}/export", AAuth [], ANil);
  (bs "/v2/connections", AOpen, ANil);
  (bs "/v2/model", AOpen, ARoot);
  (bs "/v2/cohorts", ANil, AAuth []);
  (bs "/v2/model/serial", AOpen, ARoot);
  (bs "/v2/systems", AAuth [], ARoot);
  (bs "/v2/systems/{label}", ARoot, ARoot);
  (bs "/v2/accessories/themes", AIfaceOpen [if_themes], AIfaceAuth [if_themes] pk_manage);
  (bs "/v2/accessories/changes/{id}", AIfaceOpen [if_themes], ANil);
  (bs "/v2/validation-sets", AAuth [], ANil);
  (bs "/v2/validation-sets/{account}/{name}", AAuth [], AAuth []);
  (bs "/v2/internal/console-conf-start", ANil, AAuth []);
  (bs "/v2/system-recovery-keys", ARoot, ARoot);
  (bs "/v2/quotas", AOpen, ARoot);
  (bs "/v2/quotas/{group}", AOpen, ANil);
  (bs "/v2/registry/{account}/{registry}/{view}", AAuth pk_manage, AAuth pk_manage);
  (bs "/v2/notices", AIfaceOpen [if_refresh_observe; if_prompting], AOpen);
  (bs "/v2/notices/{id}", AIfaceOpen [if_refresh_observe; if_prompting], ANil)
].

Fixpoint policy_lookup (t : list (bytes * access * access)) (path : bytes) : option (access * access) :=
  match t with
  | [] => None
  | (p, r, w) :: rest => if beq p path then Some (r, w) else policy_lookup rest path
  end.

(* the level the policy demands for a path and verb; None = the path is not classified *)
Definition policy_for (path : bytes) (m : meth) : option access :=
  match policy_lookup policy path with
  | None => None
  | Some (r, w) => Some (match m with GET => r | PUT => w | POST => w | OTHER => ANil end)
  end.

(* `a` is at least as strict as `p` (syntactic, sound for the spec below: proofs/AccessProofs.v) *)
Definition subset (l1 l2 : list bytes) : bool := forallb (fun x => mem x l2) l1.
Definition pk_le (k1 k2 : bytes) : bool := is_nil_b k1 || beq k1 k2.
Definition acc_le (a p : access) : bool :=
  match a, p with
  | AOpen, AOpen => true
  | AOpen, AIfaceOpen _ => true
  | AAuth _, AOpen => true
  | AAuth k1, AAuth k2 => pk_le k1 k2
  | AAuth _, AIfaceOpen _ => true
  | AAuth k1, AIfaceAuth _ k2 => pk_le k1 k2
  | ARoot, AOpen => true
  | ARoot, AAuth _ => true
  | ARoot, ARoot => true
  | ARoot, AIfaceOpen _ => true
  | ARoot, AIfaceAuth _ _ => true
  | ASnap, ASnap => true
  | AIfaceOpen n1, AIfaceOpen n2 => subset n1 n2
  | AIfaceAuth n1 _, AIfaceOpen n2 => subset n1 n2
  | AIfaceAuth n1 k1, AIfaceAuth n2 k2 => subset n1 n2 && pk_le k1 k2
  | _, _ => false
  end.

(* table obligation, evaluated on gen/Endpoints.v: every registered verb has a checker that is at least as strict as
   the policy of its path *)
Definition endpoint_ok (e : endpoint) : bool :=
  forallb (fun m => negb (registered e m) ||
                    match policy_for (ep_path e) m with
                    | Some p => acc_le (declared e m) p
                    | None => false
                    end) [GET; PUT; POST].

Definition table_ok (t : list endpoint) : bool := forallb endpoint_ok t.

(* ------------------------------------------------------------------------------------------------ the independent spec
   (boolean form, used by the monitor on what the driver forged; the Prop form over raw strings is in the proofs file)
   creds: the peer credentials the driver put on the wire, None when it forged something that carries none. *)

Definition connected_b (x : ctx) (names : list bytes) : bool :=
  match x_snap_of_pid x with
  | None => false
  | Some sn => existsb (fun c => beq (c_plug_snap c) sn && mem (c_iface c) names &&
                                 negb (c_undesired c) && negb (c_hotplug_gone c)) (x_conns x)
  end.

Definition authenticated_b (x : ctx) (uid : N) (polkit : bytes) : bool :=
  x_user x || (uid =? 0) ||
  (negb (is_nil_b polkit) && match x_polkit x polkit with PkYes => true | _ => false end).

Definition allowed_b (p : access) (x : ctx) (creds : option ucred) : bool :=
  match creds with
  | None => false
  | Some u =>
    let on_snapd := beq (u_socket u) snapd_socket in
    let on_snap := beq (u_socket u) snap_socket in
    match p with
    | ANil => false
    | AOpen => on_snapd
    | AAuth k => on_snapd && authenticated_b x (u_uid u) k
    | ARoot => on_snapd && (u_uid u =? 0)
    | ASnap => on_snap
    | AIfaceOpen names => on_snapd || (on_snap && connected_b x names)
    | AIfaceAuth names k => (on_snapd || (on_snap && connected_b x names)) && authenticated_b x (u_uid u) k
    end
  end.

(* which interface lets a snap read which notice type over snapd-snap.socket: hand-written (pinned), independent of the
   generated noticeReadInterfaces; `warning` is readable by no snap *)
Definition spec_notice_ifaces : list (bytes * list bytes) := [
  (bs "change-update", [if_refresh_observe]);
  (bs "refresh-inhibit", [if_refresh_observe]);
  (bs "snap-run-inhibit", [if_refresh_observe]);
  (bs "interfaces-requests-prompt", [if_prompting]);
  (bs "interfaces-requests-rule-update", [if_prompting])
].

(* ------------------------------------------------------------------------------------------------ driver vocabulary
   Shared literals that keep the generated case terms small. The Go driver (c26ConnMode / c26PkMode) has the same
   tables; if the two diverge, model and implementation are given different contexts and the correspondence reports it. *)
Definition drv_snap := bs "some-snap".
Definition drv_other := bs "other-snap".
Definition if_refresh_control := bs "snap-refresh-control".
Definition if_network := bs "network".
Definition drv_core := bs "core".
Definition drv_conns (k : nat) : list conn :=
  match k with
  | 0%nat => []
  | 1%nat => [mkConn drv_snap drv_core if_refresh_observe false false; mkConn drv_snap drv_core if_themes false false;
              mkConn drv_snap drv_core if_prompting false false]
  | 2%nat => [mkConn drv_snap drv_core if_refresh_observe true false; mkConn drv_snap drv_core if_themes false true;
              mkConn drv_other drv_core if_prompting false false; mkConn drv_other drv_core if_refresh_observe false false;
              mkConn drv_snap drv_core if_network false false]
  | 3%nat => [mkConn drv_snap drv_core if_refresh_observe false false; mkConn drv_snap drv_core if_refresh_observe true false]
  | 4%nat => [mkConn drv_snap drv_core if_themes false false; mkConn drv_other drv_core if_refresh_observe false false]
  | 5%nat => [mkConn drv_snap drv_core if_prompting false false; mkConn drv_snap drv_core if_refresh_control false false]
  | _ => [mkConn drv_snap drv_core if_refresh_control false false; mkConn drv_snap drv_core if_network false false]
  end.
Definition drv_pk (k : nat) : bytes -> polkit_answer :=
  match k with
  | 0%nat => pk_table [] PkNo
  | 1%nat => pk_table [] PkYes
  | 2%nat => pk_table [] PkDismissed
  | 3%nat => pk_table [] PkError
  | 4%nat => pk_table [(pk_login, PkYes)] PkNo
  | 5%nat => pk_table [(pk_manage, PkYes)] PkNo
  | 6%nat => pk_table [(pk_manage_ifaces, PkYes); (pk_manage_conf, PkYes)] PkNo
  | _ => pk_table [(pk_manage, PkNo)] PkYes
  end.

(* ------------------------------------------------------------------------------------------------ correspondence *)

(* what the driver observed, projected: did the stub handler run / 405 / denied (401 or 403) / 500 / panic *)
Inductive obs_class : Type := OServed | ONotAllowed | ODenied | OInternal | OPanic.

Definition classify_outcome (o : outcome) : obs_class :=
  match o with
  | Handler => OServed | MethodNotAllowed => ONotAllowed | Denied _ => ODenied
  | InternalErr => OInternal | NilChecker => OPanic
  end.

Definition obs_eqb (a b : obs_class) : bool :=
  match a, b with
  | OServed, OServed | ONotAllowed, ONotAllowed | ODenied, ODenied | OInternal, OInternal | OPanic, OPanic => true
  | _, _ => false
  end.

Definition ucred_eqb (a b : ucred) : bool :=
  (u_pid a =? u_pid b) && (u_uid a =? u_uid b) && beq (u_socket a) (u_socket b).

Definition opt_ucred_eqb (a b : option ucred) : bool :=
  match a, b with Some u, Some v => ucred_eqb u v | None, None => true | _, _ => false end.

Definition set_eqb (a b : list bytes) : bool := subset a b && subset b a.

Inductive case : Type :=
| CServe (idx : nat) (path : bytes) (m : meth)   (* index into the runtime `api` slice, its Path/PathPrefix, verb *)
         (x : ctx)
         (creds : option ucred)                   (* what the driver meant to put on the wire (monitor only) *)
         (pre : list bytes)                       (* interfaces the driver already wrote into the forged address (monitor only) *)
         (o : obs_class)                          (* observed *)
         (h_cred : option ucred) (h_ifaces : list bytes)  (* served: ucrednetGetWithInterfaces(r.RemoteAddr) inside the handler *)
| CTable (n : nat)                                (* len(api) at run time *)
| CCred (pid : Z) (uid : N) (socket : bytes)      (* (&ucrednet{..}).String() and parsed back by the implementation *)
        (printed : bytes) (back : option ucred) (back_ifaces : list bytes)
| CParse (s : bytes) (back : option ucred) (back_ifaces : list bytes)   (* ucrednetGetWithInterfaces on any string *)
| CAttach (s iface : bytes) (r : bytes)           (* ucrednetAttachInterface *)
| CAttachParse (s iface : bytes) (r : bytes) (back : option ucred) (back_ifaces : list bytes)
                                                  (* attach, then ucrednetGetWithInterfaces on the result *)
| CSnapctl (remote : bytes) (creds : option ucred) (called : bool) (uid : N)
                                                  (* the real runSnapctl behind the real ServeHTTP: was ctlcmd.Run called,
                                                     and with which uid *)
| CViewable (types : list bytes) (remote : bytes) (creds : option ucred) (pre : list bytes) (b : bool).
                                                  (* noticeTypesViewableBySnap on a forged address; creds/pre: what the
                                                     driver meant to put there (monitor only) *)

Definition nth_ep (idx : nat) : option endpoint := nth_error api idx.

Definition print_ucred_z (pid : Z) (uid : N) (socket : bytes) : bytes :=
  bs "pid=" ++ (if (pid <? 0)%Z then 45 :: dec (Z.to_N (- pid)) else dec (Z.to_N pid))
     ++ bs ";uid=" ++ dec uid ++ bs ";socket=" ++ socket ++ [semi].

Definition get_full (s : bytes) : option ucred * list bytes :=
  match ucrednet_get_with_interfaces s with Some (u, l) => (Some u, l) | None => (None, []) end.

Definition list_bytes_eqb (a b : list bytes) : bool :=
  (fix go a b := match a, b with
                 | [], [] => true
                 | x :: a', y :: b' => beq x y && go a' b'
                 | _, _ => false end) a b.

(* the model's answer differs from the observed one *)
Definition mismatch (c : case) : bool :=
  match c with
  | CServe idx path m x _ _ o h_cred h_ifaces =>
    match nth_ep idx with
    | None => true
    | Some e =>
      negb (beq (ep_path e) path) ||
      let (out, r') := serve e m x in
      negb (obs_eqb (classify_outcome out) o) ||
      match out with
      | Handler => let (mc, mi) := get_full r' in
                   negb (opt_ucred_eqb mc h_cred) || negb (set_eqb mi h_ifaces)
      | _ => false
      end
    end
  | CTable n => negb (Nat.eqb n (List.length api))
  | CCred pid uid socket printed back back_ifaces =>
    negb (beq (print_ucred_z pid uid socket) printed) ||
    let (mc, mi) := get_full printed in
    negb (opt_ucred_eqb mc back) || negb (list_bytes_eqb mi back_ifaces)
  | CParse s back back_ifaces =>
    let (mc, mi) := get_full s in
    negb (opt_ucred_eqb mc back) || negb (list_bytes_eqb mi back_ifaces)
  | CAttach s iface r => negb (beq (ucrednet_attach_interface s iface) r)
  | CAttachParse s iface r back back_ifaces =>
    negb (beq (ucrednet_attach_interface s iface) r) ||
    let (mc, mi) := get_full r in
    negb (opt_ucred_eqb mc back) || negb (list_bytes_eqb mi back_ifaces)
  | CViewable types remote _ _ b => negb (Bool.eqb (notice_types_viewable types remote) b)
  | CSnapctl remote _ called uid =>
    match find (fun e => beq (ep_path e) (bs "/v2/snapctl")) api with
    | None => true
    | Some e =>
      let (out, r') := serve e POST (mkCtx remote false (pk_table [] PkNo) None [] false) in
      match out with
      | Handler => negb called || negb (snapctl_uid r' =? uid)
      | _ => called
      end
    end
  end.

(* the property's conclusion is false on the implementation's OBSERVED behaviour. Uses the pinned policy, the creds the
   driver forged and the boolean spec -- not the generated table, not the model's checkers, not the model's parser. *)
Definition monitor_fail (c : case) : bool :=
  match c with
  | CServe _ path m x creds pre o h_cred h_ifaces =>
    match o with
    | OServed =>
      match policy_for path m with
      | None => true                                      (* served on a path the policy does not classify *)
      | Some p =>
        negb (allowed_b p x creds) ||                     (* served although the caller does not satisfy the level *)
        negb (opt_ucred_eqb h_cred creds) ||              (* the handler sees other credentials than the peer's *)
        negb (forallb (fun i => mem i pre || connected_b x [i]) h_ifaces)   (* an attached interface is not actively connected *)
      end
    | OPanic => true
    | _ => false
    end
  | CTable _ => false
  | CCred pid uid socket printed back back_ifaces =>
    (* round trip: a real peer (pid > 0 in int32, uid other than nobody, socket path without ;) reads back exactly;
       a pid or uid that is no real peer's reads back as no credentials (a socket path with ; is the listener's own
       doing and outside the property: no claim) *)
    let ids_ok := (0 <? pid)%Z && (pid <? 2147483648)%Z && (uid <? 4294967295) in
    if negb ids_ok then match back with None => false | Some _ => true end
    else if forallb not_semi socket
         then negb (opt_ucred_eqb back (Some (mkUcred (Z.to_N pid) uid socket))) || negb (is_nil_b back_ifaces)
         else false
  | CParse s back _ =>
    (* whatever is accepted carries a real pid and uid *)
    match back with
    | None => false
    | Some u => (u_pid u =? 0) || (2147483648 <=? u_pid u) || (4294967295 <=? u_uid u) || negb (forallb not_semi (u_socket u))
    end
  | CAttach _ _ _ => false
  | CAttachParse s iface r back back_ifaces =>
    (* attaching a proper interface name (no ; no &) to an address that carried credentials keeps them and the name is
       among the interfaces read back; uses only what the implementation returned for s (a CParse twin is not needed:
       the claim is conditional on `back` being some credentials) *)
    if forallb not_semi iface && forallb (fun c => negb (c =? amp)) iface
    then match back with
         | Some _ => negb (mem iface back_ifaces)
         | None => false
         end
    else false
  | CSnapctl _ creds called uid =>
    (* ctlcmd.Run was called for a request that is not a real peer on snapd-snap.socket, or with another uid than the peer's *)
    called && match creds with
              | None => true
              | Some u => negb (beq (u_socket u) snap_socket) || negb (uid =? u_uid u)
              end
  | CViewable types _ creds pre b =>
    (* viewable although the peer is not on snapd.socket and some requested type has no attached interface that the
       hand-written table lists for it (or no type was requested, or there are no credentials) *)
    b && match creds with
         | None => true
         | Some u => negb (beq (u_socket u) snapd_socket) &&
                     (is_nil_b types ||
                      negb (forallb (fun t => existsb (fun i => mem i (lookup_ifaces spec_notice_ifaces t)) pre) types))
         end
  end.
