(* C23, tree variant — model of osutil/synctree.go (EnsureTreeState, removeEmptyDirs, matchAnyComponent), written from
   the Go code on top of models/SyncDir.v (the per-directory step is ensure_dir_state = EnsureDirStateGlobs). No proofs here.

   A tree is an association list  relative path (list of components, [] = the base directory) -> the files of that
   directory. Sub-directories are their own entries of the list (prefix closed); by the documented caller obligation no
   directory name matches the globs, so the per-directory lists hold files and symlinks only.
   Explicit where the Go code is implicit: `ord1` = the order in which `range subdirs` visits the directories in the
   synchronisation loop, `ord2` = the order of the second `range subdirs` in the erase pass after a failure. *)
From Coq Require Import List NArith Bool.
Import ListNotations.
Require Import V.lib.Bytes V.models.SyncDir.
Open Scope N_scope.

Definition path := list bytes.
Definition files := list (bytes * node).
Definition tree := list (path * files).

Fixpoint path_eqb (a b : path) : bool :=
  match a, b with
  | [], [] => true
  | x :: a', y :: b' => beq x y && path_eqb a' b'
  | _, _ => false
  end.
Fixpoint tlookup {A : Type} (t : list (path * A)) (p : path) : option A :=
  match t with [] => None | (k, v) :: r => if path_eqb k p then Some v else tlookup r p end.
(* files of a directory; a directory that does not exist has none *)
Definition foe (t : tree) (p : path) : files := match tlookup t p with Some fs => fs | None => [] end.
Definition file_at (t : tree) (p : path) (n : bytes) : option node := lookup (foe t p) n.
Fixpoint tset (t : tree) (p : path) (fs : files) : tree :=
  match t with
  | [] => [(p, fs)]
  | (k, v) :: r => if path_eqb k p then (k, fs) :: r else (k, v) :: tset r p fs
  end.
Definition tdel (t : tree) (p : path) : tree := filter (fun e => negb (path_eqb (fst e) p)) t.

(* os.MkdirAll: the directory and every missing parent, empty *)
Fixpoint prefixes (p : path) : list path :=
  match p with [] => [[]] | c :: r => [] :: map (cons c) (prefixes r) end.
Definition mkdir (t : tree) (q : path) : tree := match tlookup t q with Some _ => t | None => t ++ [(q, [])] end.
Definition mkdir_all (t : tree) (p : path) : tree := fold_left mkdir (prefixes p) t.

(* removeEmptyDirs: remove the directory if it has neither files nor sub-directories, then try its parent, up to but
   not including the base directory; a missing directory or a non-empty one stops the walk *)
Definition has_child (t : tree) (p : path) : bool :=
  existsb (fun e => negb (is_nil_b (fst e)) && path_eqb (removelast (fst e)) p) t.
Fixpoint remove_empty_dirs (fuel : nat) (t : tree) (p : path) : tree :=
  match fuel with
  | O => t
  | S f =>
      match p with
      | [] => t
      | _ => match tlookup t p with
             | None => t
             | Some fs => if is_nil_b fs && negb (has_child t p) then remove_empty_dirs f (tdel t p) (removelast p) else t
             end
      end
  end.

(* filepath.Join(relPath, name) *)
Fixpoint join (p : path) (n : bytes) : bytes :=
  match p with [] => n | c :: r => c ++ [47] ++ join r n end.

Definition content_of (content : list (path * list (bytes * dstate))) (p : path) : list (bytes * dstate) :=
  match tlookup content p with Some dc => dc | None => [] end.

Record acc := mkAcc { a_t : tree; a_changed : list bytes; a_removed : list bytes; a_maybe : list path; a_failed : bool }.

Section Tree.
Variables (mt : bytes -> bool) (um : N) (out : list (bytes * onode)) (content : list (path * list (bytes * dstate))).

(* the synchronisation loop; stops at the first directory whose EnsureDirStateGlobs returns an error.
   Note `if len(removed) != 0`: it is the CUMULATIVE removed list that decides whether a directory is remembered as
   maybe-empty, as in the Go code *)
Fixpoint loop1 (ord : list path) (a : acc) : acc :=
  match ord with
  | [] => a
  | p :: r =>
      let t1 := mkdir_all (a_t a) p in
      let res := ensure_dir_state mt um out (foe t1 p) (content_of content p) in
      let t2 := tset t1 p (r_dir res) in
      let ch := a_changed a ++ map (join p) (r_changed res) in
      let rm := a_removed a ++ map (join p) (r_removed res) in
      if r_err res then mkAcc t2 ch rm (a_maybe a) true
      else loop1 r (mkAcc t2 ch rm (if is_nil_b rm then a_maybe a else a_maybe a ++ [p]) false)
  end.

(* the erase pass: every existing directory is synchronised against NO content; errors are ignored *)
Fixpoint loop2 (ord : list path) (a : acc) : acc :=
  match ord with
  | [] => a
  | p :: r =>
      match tlookup (a_t a) p with
      | None => loop2 r a                                         (* !IsDirectory(path) *)
      | Some fs =>
          let res := ensure_dir_state mt um out fs [] in
          let rm := a_removed a ++ map (join p) (r_removed res) in
          loop2 r (mkAcc (tset (a_t a) p (r_dir res)) (a_changed a) rm (if is_nil_b rm then a_maybe a else a_maybe a ++ [p]) (a_failed a))
      end
  end.

(* the validity checks before anything is touched: no component of a directory path matches a glob; every file name is
   a base name matching a glob *)
Definition valid_tree_input : bool :=
  forallb (fun e => negb (existsb mt (fst e)) && forallb (fun n => valid_base n && mt n) (names (snd e))) content.

Record tresult := mkT { t_tree : tree; t_changed : list bytes; t_removed : list bytes; t_err : bool }.

Definition ensure_tree_state (t : tree) (ord1 ord2 : list path) : tresult :=
  if negb valid_tree_input then mkT t [] [] true
  else
    let a1 := loop1 ord1 (mkAcc t [] [] [] false) in
    let a2 := if a_failed a1 then loop2 ord2 (mkAcc (a_t a1) [] (a_removed a1) (a_maybe a1) true) else a1 in
    let t3 := fold_left (fun t p => remove_empty_dirs (S (length p)) t p) (a_maybe a2) (a_t a2) in
    mkT t3 (sort (a_changed a2)) (sort (a_removed a2)) (a_failed a2).
End Tree.

(* ------------------------------------------------------------------ correspondence / monitor interface *)
(* Which EMPTY directories survive depends on the two iteration orders (see the note at loop1), which the driver cannot
   observe for directories without content; so trees are compared file by file (an absent directory has no files), and
   the removal of emptied directories is checked by the monitor only where the code is unambiguous. *)
Definition files_sub (a b : tree) : bool :=
  forallb (fun e => forallb (fun f => onode_eqb (Some (snd f)) (file_at b (fst e) (fst f))) (snd e)) a.
Definition tree_files_eqb (a b : tree) : bool := files_sub a b && files_sub b a.

Inductive case :=
| CTree (globs : list bytes) (um : N) (out : list (bytes * onode)) (t : tree) (content : list (path * list (bytes * dstate)))
        (ord1 : list path) (changed removed : list bytes) (err : bool) (after : tree).

Definition all_dirs (t : tree) (content : list (path * list (bytes * dstate))) : list path := map fst t ++ map fst content.

Definition mismatch (c : case) : bool :=
  match c with
  | CTree globs um out t content ord1 changed removed err after =>
      let r := ensure_tree_state (match_any globs) um out content t ord1 (all_dirs t content) in
      negb (tree_files_eqb (t_tree r) after) || negb (names_eqb (t_changed r) changed)
      || negb (names_eqb (t_removed r) removed) || negb (Bool.eqb (t_err r) err)
  end.

(* the property on the observed behaviour, without ensure_tree_state *)
Definition monitor_fail (c : case) : bool :=
  match c with
  | CTree globs um out t content ord1 changed removed err after =>
      let mt := match_any globs in
      let dirs := all_dirs t content ++ map fst after in
      let untouched :=
        forallb (fun p => forallb (fun f => mt (fst f) || onode_eqb (Some (snd f)) (file_at after p (fst f))) (foe t p)
                          && forallb (fun f => mt (fst f) || onode_eqb (Some (snd f)) (file_at t p (fst f))) (foe after p)) dirs in
      if negb (valid_tree_input mt content) then negb (tree_files_eqb t after && is_nil_b changed && is_nil_b removed && err)
      else if negb err then
        negb (untouched
              && forallb (fun p => forallb (fun f => negb (mt (fst f)) || mem_name (fst f) (names (content_of content p))) (foe after p)) dirs
              && forallb (fun e => negb (umask_ok um (snd e)) ||
                                   forallb (fun w => match file_at after (fst e) (fst w) with Some v => reads_as out v (snd w) | None => false end) (snd e)) content
              && sortedb changed && sortedb removed
              (* every initially present managed file that is not desired is reported removed *)
              && forallb (fun p => forallb (fun f => negb (mt (fst f)) || mem_name (fst f) (names (content_of content p))
                                                     || mem_name (join p (fst f)) removed) (foe t p)) dirs)
      else
        (* failed: nothing reported changed, no managed file left anywhere in the tree (files and symlinks are always
           removable), unrelated files untouched *)
        negb (untouched && is_nil_b changed
              && forallb (fun p => forallb (fun f => negb (mt (fst f)) || negb (removable (snd f))) (foe after p)) dirs)
  end.
