(* C37 — model of interfaces/prompting/patterns: scan.go (scan), parse.go (parseSeq/parseAlt), render.go (literal/seq/alt
   render nodes, optimize, nodeEqual, NumVariants, renderAllVariants), variant.go (prepareVariantForParsing,
   parsePatternVariant, PatternVariant.Compare) and patterns.go (ParsePathPattern, HighestPrecedencePattern).
   Patterns and paths are ASCII byte strings (the Go code works on runes; the driver sends ASCII only).
   doublestar.Match (third party) is ported as ds_match and pinned by the differential run; regexp submatching is not modelled
   (Compare takes the submatches as input).
   No proofs in this file. *)
From Coq Require Import List NArith ZArith Bool.
Import ListNotations.
Require Import V.lib.Bytes.
Open Scope N_scope.

(* characters *)
Definition cSLASH : N := 47.   Definition cSTAR : N := 42.    Definition cQM : N := 63.
Definition cBSL : N := 92.     Definition cOPEN : N := 123.   Definition cCLOSE : N := 125.
Definition cCOMMA : N := 44.   Definition cLBR : N := 91.     Definition cRBR : N := 93.
Definition cDSTAR : N := 8273. (* U+2051, the rune variant.go substitutes for an unescaped doublestar *)

(* ------------------------------------------------------------------ scan.go *)
Inductive token := TText (s : bytes) | TOpen | TClose | TComma.

(* cur = the text accumulated so far, reversed *)
Definition flush (cur : bytes) (acc : list token) : list token :=
  match cur with [] => acc | _ => TText (rev cur) :: acc end.

(* acc = tokens so far, reversed *)
Fixpoint scan_go (s : bytes) (cur : bytes) (acc : list token) : option (list token) :=
  match s with
  | [] => Some (rev (flush cur acc))
  | c :: r =>
      if c =? cOPEN then scan_go r [] (TOpen :: flush cur acc)
      else if c =? cCLOSE then scan_go r [] (TClose :: flush cur acc)
      else if c =? cCOMMA then scan_go r [] (TComma :: flush cur acc)
      else if c =? cBSL then match r with
                             | [] => None                                   (* trailing unescaped backslash *)
                             | c2 :: r2 => scan_go r2 (c2 :: c :: cur) acc
                             end
      else if (c =? cLBR) || (c =? cRBR) then None
      else scan_go r (c :: cur) acc
  end.

Definition scan (s : bytes) : option (list token) :=
  match s with
  | [] => None
  | c :: _ => if c =? cSLASH then scan_go s [] [] else None
  end.

(* ------------------------------------------------------------------ render.go: nodes, nodeEqual, optimize *)
Inductive node := Lit (s : bytes) | Seq (l : list node) | Alt (l : list node).

Fixpoint node_eqb (a b : node) : bool :=
  match a, b with
  | Lit s, Lit t => beq s t
  | Seq l, Seq m =>
      (fix go (l m : list node) : bool :=
         match l, m with
         | [], [] => true
         | x :: l', y :: m' => node_eqb x y && go l' m'
         | _, _ => false
         end) l m
  | Alt l, Alt m =>
      (fix go (l m : list node) : bool :=
         match l, m with
         | [], [] => true
         | x :: l', y :: m' => node_eqb x y && go l' m'
         | _, _ => false
         end) l m
  | _, _ => false
  end.

(* seq.optimize: join adjacent literals, drop empty ones; items in source order, buf = pending literal text *)
Fixpoint seq_merge (items : list node) (buf : bytes) : list node :=
  match items with
  | [] => match buf with [] => [] | _ => [Lit buf] end
  | Lit s :: r => seq_merge r (buf ++ s)
  | n :: r => match buf with [] => n :: seq_merge r [] | _ => Lit buf :: n :: seq_merge r [] end
  end.
Definition optimize_seq (items : list node) : node :=
  match seq_merge items [] with
  | [] => Lit []
  | [n] => n
  | l => Seq l
  end.

(* alt.optimize: drop items equal to an earlier one; seen = kept items, reversed *)
Fixpoint alt_dedupe (items : list node) (seen : list node) : list node :=
  match items with
  | [] => rev seen
  | n :: r => if existsb (fun s => node_eqb s n) seen then alt_dedupe r seen else alt_dedupe r (n :: seen)
  end.
Definition optimize_alt (items : list node) : node :=
  match alt_dedupe items [] with
  | [n] => n
  | l => Alt l
  end.

(* ------------------------------------------------------------------ parse.go, as a structurally recursive shift/reduce pass
   frame = (finished alternatives of the open group, reversed; items of the current sequence, reversed).
   `top` are the items of the outermost sequence, reversed. The recursive descent of parse.go opens a frame per brace-open,
   closes the current alternative at a comma inside a group, and the group at the brace-close. *)
Definition frame := (list node * list node)%type.
Definition max_expanded : N := 1000.

Fixpoint parse_go (ts : list token) (stack : list frame) (top : list node) : option node :=
  match ts with
  | [] => match stack with [] => Some (optimize_seq (rev top)) | _ => None end      (* unmatched brace-open *)
  | t :: r =>
      match t, stack with
      | TText s, [] => parse_go r [] (Lit s :: top)
      | TText s, (alts, cur) :: st => parse_go r ((alts, Lit s :: cur) :: st) top
      | TOpen, _ => if max_expanded <=? N.of_nat (S (length stack)) then None    (* nesting depth limit *)
                    else parse_go r (([], []) :: stack) top
      | TComma, [] => parse_go r [] (Lit [cCOMMA] :: top)
      | TComma, (alts, cur) :: st => parse_go r ((optimize_seq (rev cur) :: alts, []) :: st) top
      | TClose, [] => None                                                       (* unmatched brace-close *)
      | TClose, (alts, cur) :: st =>
          let g := optimize_alt (rev (optimize_seq (rev cur) :: alts)) in
          match st with
          | [] => parse_go r [] (g :: top)
          | (alts', cur') :: st' => parse_go r ((alts', g :: cur') :: st') top
          end
      end
  end.

(* NumVariants: Go int arithmetic (int64 on amd64), saturating at math.MaxInt since /repo commit 1160e46:
   seq: `if v != 0 && num > math.MaxInt/v { return math.MaxInt }; num *= v`, starting from 1, left to right;
   alt: `if num > math.MaxInt-v { return math.MaxInt }; num += v`, starting from 0 *)
Definition max_int : Z := 9223372036854775807%Z.
Fixpoint num_variants64 (n : node) : Z :=
  match n with
  | Lit _ => 1%Z
  | Seq l => (fix go (l : list node) (num : Z) : Z :=
                match l with
                | [] => num
                | x :: r => let v := num_variants64 x in
                            if negb (v =? 0)%Z && (max_int / v <? num)%Z then max_int else go r (num * v)%Z
                end) l 1%Z
  | Alt l => (fix go (l : list node) (num : Z) : Z :=
                match l with
                | [] => num
                | x :: r => let v := num_variants64 x in
                            if (max_int - v <? num)%Z then max_int else go r (num + v)%Z
                end) l 0%Z
  end.

(* the mathematical count *)
Fixpoint num_variants (n : node) : N :=
  match n with
  | Lit _ => 1
  | Seq l => (fix go (l : list node) : N := match l with [] => 1 | x :: r => num_variants x * go r end) l
  | Alt l => (fix go (l : list node) : N := match l with [] => 0 | x :: r => num_variants x + go r end) l
  end.

(* PathPattern.parse *)
Definition parse_pattern (s : bytes) : option node :=
  match scan s with
  | None => None
  | Some ts => match parse_go ts [] [] with
               | None => None
               | Some t => if (Z.of_N max_expanded <? num_variants64 t)%Z then None else Some t
               end
  end.

(* ------------------------------------------------------------------ expansion: every alternative of every group, in the order
   renderAllVariants produces them (first group slowest, alternatives in source order) *)
Fixpoint expand (n : node) : list bytes :=
  match n with
  | Lit s => [s]
  | Seq l => (fix go (l : list node) : list bytes :=
                match l with
                | [] => [[]]
                | x :: r => flat_map (fun a => map (app a) (go r)) (expand x)
                end) l
  | Alt l => (fix go (l : list node) : list bytes :=
                match l with [] => [] | x :: r => expand x ++ go r end) l
  end.

(* ------------------------------------------------------------------ variant.go: components *)
Definition tGLOB : N := 1.   (* compGlobstar *)
Definition tSDT : N := 2.    (* compSeparatorDoublestarTerminal *)
Definition tSDST : N := 3.   (* compSeparatorDoublestarSeparatorTerminal *)
Definition tSD : N := 4.     (* compSeparatorDoublestar *)
Definition tTERM : N := 5.   (* compTerminal *)
Definition tSEP : N := 6.    (* compSeparator *)
Definition tANY : N := 7.    (* compAnySingle *)
Definition tLIT : N := 8.    (* compLiteral *)
Definition comp := (N * bytes)%type.
Definition mk (t : N) : comp := (t, []).

(* prepareVariantForParsing (ASCII input, so only the doublestar replacement applies): a run of k backslashes followed by
   two stars keeps the stars when k is odd and replaces them by the marker when k is even *)
Fixpoint count_bsl (s : bytes) : nat * bytes :=
  match s with
  | c :: r => if c =? cBSL then let (k, t) := count_bsl r in (S k, t) else (O, s)
  | [] => (O, [])
  end.
Fixpoint prepare (fuel : nat) (s : bytes) : bytes :=
  match fuel with
  | O => s
  | S f =>
      match s with
      | [] => []
      | c :: r =>
          let (k, t) := count_bsl s in
          match t with
          | a :: b :: t' =>
              if (a =? cSTAR) && (b =? cSTAR) then
                if Nat.even k then repeat cBSL k ++ cDSTAR :: prepare f t'
                else repeat cBSL k ++ cSTAR :: cSTAR :: prepare f t'
              else match k with
                   | O => c :: prepare f r
                   | _ => repeat cBSL k ++ prepare f t
                   end
          | _ => s
          end
      end
  end.

(* the component stack is kept most-recent-first *)
Definition top_is (st : list comp) (t : N) : bool := match st with (u, _) :: _ => u =? t | [] => false end.

Definition add_globstar (st : list comp) : list comp :=
  if top_is st tGLOB || top_is st tSD then st else mk tGLOB :: st.
Definition reduce_prev_doublestar (st : list comp) : list comp :=
  match st with
  | (u, _) :: r => if u =? tSD then mk tGLOB :: mk tSEP :: r else st
  | [] => st
  end.
(* runes = accumulated literal text, reversed *)
Definition consume_text (runes : bytes) (st : list comp) : list comp :=
  match runes with [] => st | _ => (tLIT, rev runes) :: reduce_prev_doublestar st end.

Definition is_special (c : N) : bool :=
  (c =? cSTAR) || (c =? cQM) || (c =? cLBR) || (c =? cRBR) || (c =? cOPEN) || (c =? cCLOSE) || (c =? cBSL).

Fixpoint components_go (s : bytes) (runes : bytes) (st : list comp) : option (list comp) :=
  match s with
  | [] => Some (consume_text runes st)
  | c :: r =>
      if c =? cSLASH then
        let st1 := consume_text runes st in
        let st2 := match st1 with
                   | (a, _) :: (b, _) :: (d, _) :: rest =>
                       if (a =? tGLOB) && (b =? tSEP) && (d =? tSD) then mk tSD :: mk tGLOB :: mk tSEP :: rest else st1
                   | _ => st1
                   end in
        components_go r [] (if top_is st2 tSEP then st2 else mk tSEP :: st2)
      else if c =? cQM then
        let st1 := consume_text runes (reduce_prev_doublestar st) in
        components_go r [] (match st1 with
                            | (a, _) :: rest => if a =? tGLOB then mk tGLOB :: mk tANY :: rest else mk tANY :: st1
                            | [] => mk tANY :: st1
                            end)
      else if c =? cDSTAR then
        let st1 := consume_text runes st in
        components_go r [] (match st1 with
                            | (a, _) :: (b, x) :: rest =>
                                if (a =? tSEP) && (b =? tSD) then (b, x) :: rest
                                else if a =? tSEP then mk tSD :: (b, x) :: rest
                                else add_globstar st1
                            | (a, _) :: rest => if a =? tSEP then mk tSD :: rest else add_globstar st1
                            | [] => add_globstar st1
                            end)
      else if c =? cSTAR then
        components_go r [] (add_globstar (consume_text runes (reduce_prev_doublestar st)))
      else if c =? cBSL then
        match r with
        | [] => None
        | c2 :: r2 => if is_special c2 then components_go r2 (c2 :: c :: runes) st else components_go r2 (c2 :: runes) st
        end
      else if (c =? cLBR) || (c =? cRBR) || (c =? cOPEN) || (c =? cCLOSE) then None
      else components_go r (c :: runes) st
  end.

(* the end of parsePatternVariant: strip a trailing /**/* to /**, then add the terminal marker *)
Definition finish (st : list comp) : list comp :=
  let st1 := match st with
             | (a, _) :: (b, _) :: (d, x) :: rest =>
                 if (a =? tGLOB) && (b =? tSEP) && (d =? tSD) then (d, x) :: rest else st
             | _ => st
             end in
  match st1 with
  | (a, _) :: (b, x) :: rest =>
      if (a =? tSEP) && (b =? tSD) then mk tSDST :: rest
      else if a =? tSD then mk tSDT :: (b, x) :: rest
      else mk tTERM :: st1
  | [(a, _)] => if a =? tSD then [mk tSDT] else mk tTERM :: st1
  | [] => [mk tTERM]
  end.

Definition components (variant : bytes) : option (list comp) :=
  match components_go (prepare (S (length variant)) variant) [] [] with
  | Some st => Some (rev (finish st))
  | None => None
  end.

(* component.String *)
Definition comp_string (c : comp) : bytes :=
  let t := fst c in
  if t =? tGLOB then [cSTAR]
  else if (t =? tSDT) || (t =? tSD) then [cSLASH; cSTAR; cSTAR]
  else if t =? tSDST then [cSLASH; cSTAR; cSTAR; cSLASH]
  else if t =? tSEP then [cSLASH]
  else if t =? tANY then [cQM]
  else if t =? tLIT then snd c
  else [].
Definition variant_string (cs : list comp) : bytes := flat_map comp_string cs.

(* the rendered (normalised) form of an expanded string *)
Definition normalise (s : bytes) : option bytes := option_map variant_string (components s).

Fixpoint all_some {A} (l : list (option A)) : option (list A) :=
  match l with
  | [] => Some []
  | Some x :: r => option_map (cons x) (all_some r)
  | None :: _ => None
  end.

(* RenderAllVariants: the variant strings in order *)
Definition render_all (t : node) : option (list bytes) := all_some (map normalise (expand t)).

(* a pattern is in normal form when rendering does not rewrite any of its expansions *)
Definition normal_form (t : node) : bool :=
  forallb (fun s => match normalise s with Some s' => beq s s' | None => false end) (expand t).

(* ------------------------------------------------------------------ PatternVariant.Compare, HighestPrecedencePattern
   a keyed component = (component type, submatch of the variant's regex for it on the path) *)
Definition kcomp := (N * bytes)%type.

Fixpoint bytes_cmp (a b : bytes) : comparison :=       (* Go string comparison *)
  match a, b with
  | [], [] => Eq
  | [], _ => Lt
  | _, [] => Gt
  | x :: a', y :: b' => match x ?= y with Eq => bytes_cmp a' b' | c => c end
  end.

Definition is_terminal (t : N) : bool := (t =? tSDT) || (t =? tSDST) || (t =? tTERM).

(* one iteration of the loop of Compare on the two current components: Some c = decided, None = go on *)
Definition step (a b : kcomp) : option comparison :=
  match fst a ?= fst b with
  | Lt => Some Lt
  | Gt => Some Gt
  | Eq =>
      if (fst a =? tGLOB) || (fst a =? tSD) then
        match N.of_nat (length (snd a)) ?= N.of_nat (length (snd b)) with
        | Gt => Some Lt | Lt => Some Gt | Eq => None
        end
      else if is_terminal (fst a) then Some Eq
      else if fst a =? tLIT then
        match bytes_cmp (snd a) (snd b) with Lt => Some Lt | Gt => Some Gt | Eq => None end
      else None
  end.

Definition kterm : kcomp := (tTERM, []).               (* componentReader.next past the end *)

Fixpoint compare (l1 : list kcomp) : list kcomp -> comparison :=
  fix compare2 (l2 : list kcomp) : comparison :=
    match l1, l2 with
    | [], [] => Eq
    | [], b :: r2 => match step kterm b with Some c => c | None => compare2 r2 end
    | a :: r1, [] => match step a kterm with Some c => c | None => compare r1 [] end
    | a :: r1, b :: r2 => match step a b with Some c => c | None => compare r1 r2 end
    end.

(* HighestPrecedencePattern: the index-free fold; a contender replaces the current one when Compare returns -1 *)
Definition highest {A} (cmp : A -> A -> comparison) (l : list A) : option A :=
  match l with
  | [] => None
  | x :: r => Some (fold_left (fun cur c => match cmp cur c with Lt => c | _ => cur end) r x)
  end.

(* ------------------------------------------------------------------ doublestar.Match (github.com/bmatcuk/doublestar/v4 v4.6.1,
   third party) ported function by function for the pattern language ParsePathPattern accepts (no character classes, ASCII):
   doMatchWithSeparator (separator = slash; the iterative matcher with one star and one doublestar backtrack point, groups
   handled by splicing each alternative into the pattern text and re-entering), isZeroLengthPattern,
   indexMatchedClosingAlt, indexNextAlt; then PathPatternMatches of patterns.go. Pattern errors count as no match.
   Indices are nat; fuel bounds the depth of the loop (see dmatch_fuel). *)
Definition at_ (l : bytes) (i : nat) : N := nth i l 0.

(* indexMatchedClosingAlt: index of the brace closing the group whose opening brace was just consumed *)
Fixpoint closing_alt (s : bytes) (alts i : nat) : option nat :=
  match s with
  | [] => None
  | c :: r =>
      if c =? cBSL then match r with [] => None | _ :: r2 => closing_alt r2 alts (S (S i)) end
      else if c =? cOPEN then closing_alt r (S alts) (S i)
      else if c =? cCLOSE then match alts with
                               | S O => Some i
                               | S a => closing_alt r a (S i)
                               | O => None
                               end
      else closing_alt r alts (S i)
  end.

(* the alternatives of the inside of a group (indexNextAlt applied repeatedly): split at the commas of nesting depth 1;
   cur = current alternative reversed *)
Fixpoint split_alts (s : bytes) (alts : nat) (cur : bytes) : list bytes :=
  match s with
  | [] => [rev cur]
  | c :: r =>
      if c =? cBSL then match r with [] => [rev (c :: cur)] | c2 :: r2 => split_alts r2 alts (c2 :: c :: cur) end
      else if c =? cOPEN then split_alts r (S alts) (c :: cur)
      else if c =? cCLOSE then split_alts r (pred alts) (c :: cur)
      else if (c =? cCOMMA) && Nat.eqb alts 1 then rev cur :: split_alts r alts []
      else split_alts r alts (c :: cur)
  end.

Definition zl_base (p : bytes) : bool :=
  beq p [] || beq p [cSTAR] || beq p [cSTAR; cSTAR] || beq p [cSLASH; cSTAR; cSTAR] || beq p [cSTAR; cSTAR; cSLASH]
  || beq p [cSLASH; cSTAR; cSTAR; cSLASH].

(* isZeroLengthPattern *)
Fixpoint zero_len (fuel : nat) (p : bytes) : bool :=
  match fuel with
  | O => false
  | S f =>
      if zl_base p then true
      else match p with
           | c :: r => if c =? cOPEN then
                         match closing_alt r 1 0 with
                         | Some k => existsb (fun a => zero_len f (a ++ skipn (S k) r)) (split_alts (firstn k r) 1 [])
                         | None => false
                         end
                       else false
           | [] => false
           end
  end.

(* first index >= from of a slash in name *)
Fixpoint find_sep (name : bytes) (from i : nat) : option nat :=
  match name with
  | [] => None
  | c :: r => if Nat.leb from i && (c =? cSLASH) then Some i else find_sep r from (S i)
  end.

(* doMatchWithSeparator: dsP/dsN = doublestar pattern/name backtrack, stP/stN = star backtrack (None = -1),
   pi/ni = patIdx/nameIdx, sos = startOfSegment *)
Fixpoint dmatch (fuel : nat) (pat name : bytes) (dsP dsN stP stN : option nat) (pi ni : nat) (sos : bool) {struct fuel} : bool :=
  match fuel with
  | O => false
  | S f =>
      let lp := length pat in
      let ln := length name in
      if Nat.leb ln ni then zero_len (S lp) (skipn pi pat)
      else
        let ds_back (_ : unit) : bool :=
          match dsP, dsN with
          | Some dp, Some dn => match find_sep name dn 0 with
                                | Some j => dmatch f pat name dsP (Some (S j)) stP stN dp (S j) true
                                | None => false
                                end
          | _, _ => false
          end in
        let back (_ : unit) : bool :=
          match stP, stN with
          | Some sp, Some sn => if negb (at_ name sn =? cSLASH) then dmatch f pat name dsP dsN stP (Some (S sn)) sp (S sn) false
                                else ds_back tt
          | _, _ => ds_back tt
          end in
        if Nat.leb lp pi then back tt
        else
          let c := at_ pat pi in
          if c =? cSTAR then
            let pi1 := S pi in
            if Nat.ltb pi1 lp && (at_ pat pi1 =? cSTAR) then
              let pi2 := S pi1 in
              if sos then
                if Nat.leb lp pi2 then true
                else if at_ pat pi2 =? cSLASH then dmatch f pat name (Some (S pi2)) (Some ni) None None (S pi2) ni sos
                else dmatch f pat name dsP dsN (Some pi2) (Some ni) pi2 ni false
              else dmatch f pat name dsP dsN (Some pi2) (Some ni) pi2 ni false
            else dmatch f pat name dsP dsN (Some pi1) (Some ni) pi1 ni false
          else if c =? cQM then
            if at_ name ni =? cSLASH then back tt else dmatch f pat name dsP dsN stP stN (S pi) (S ni) false
          else if c =? cOPEN then
            match closing_alt (skipn (S pi) pat) 1 0 with
            | Some k =>
                let inner := firstn k (skipn (S pi) pat) in
                let rest := skipn (S (S pi + k)) pat in
                existsb (fun a => dmatch f (firstn pi pat ++ a ++ rest) name dsP dsN stP stN pi ni true) (split_alts inner 1 [])
            | None => false
            end
          else if c =? cBSL then
            if Nat.leb lp (S pi) then false
            else let e := at_ pat (S pi) in
                 if e =? at_ name ni then dmatch f pat name dsP dsN stP stN (S (S pi)) (S ni) (e =? cSLASH) else back tt
          else if c =? at_ name ni then dmatch f pat name dsP dsN stP stN (S pi) (S ni) (c =? cSLASH)
          else back tt
  end.

Definition dmatch_fuel (pat name : bytes) : nat := 16 + 2 * (length pat + 2) * (length name + 2) * (length name + 2).
Definition ds_match (pat name : bytes) : bool := dmatch (dmatch_fuel pat name) pat name None None None None 0 0 true.

Definition ends_slash (s : bytes) : bool := match rev s with c :: _ => c =? cSLASH | [] => false end.

(* PathPatternMatches (patterns.go) *)
Definition path_pattern_matches (pattern path : bytes) : bool :=
  if ends_slash pattern && negb (ends_slash path) then false
  else if ds_match pattern path then true
  else if ends_slash pattern then false
  else ds_match (pattern ++ [cSLASH]) path.

(* ------------------------------------------------------------------ correspondence / monitor interface *)
Fixpoint bl_eqb (a b : list bytes) : bool :=
  match a, b with
  | [], [] => true
  | x :: a', y :: b' => beq x y && bl_eqb a' b'
  | _, _ => false
  end.
Fixpoint comps_eqb (a b : list comp) : bool :=
  match a, b with
  | [], [] => true
  | (t, x) :: a', (u, y) :: b' => (t =? u) && beq x y && comps_eqb a' b'
  | _, _ => false
  end.
Fixpoint bools_eqb (a b : list bool) : bool :=
  match a, b with [], [] => true | x :: a', y :: b' => Bool.eqb x y && bools_eqb a' b' | _, _ => false end.
Definition cmp_code (c : comparison) : Z := match c with Lt => (-1)%Z | Eq => 0%Z | Gt => 1%Z end.

Inductive case :=
(* ParsePathPattern(pattern): None = error; else NumVariants(), the raw expansions (the render tree's own Render/NextVariant),
   the rendered variants in RenderAllVariants order with the components of each, and for each path:
   PathPatternMatches(pattern, path) and PathPatternMatches(variant, path) per variant.
   When the reported count is not in 1..1000 nothing is enumerated (empty lists). *)
| CPat (pattern : bytes)
       (obs : option (Z * list bytes * list (bytes * list comp) * list (bytes * bool * list bool)))
       (* the other entry point, json.Unmarshal -> PathPattern.UnmarshalJSON: None = error, else NumVariants() and the
          number of raw expansions enumerated (the driver stops at 1001) *)
       (js : option (Z * N))
(* variants all matching `path`, given as (variant string, components with the regex submatch of each on the path);
   cmps = Compare(i, j) for all ordered pairs in row order; perms = for each permutation (as index list) the index of the
   variant HighestPrecedencePattern returned (by its string) *)
| CPrec (path : bytes) (vs : list (bytes * list kcomp)) (cmps : list Z) (perms : list (list N * N)).

Definition nth_v (vs : list (bytes * list kcomp)) (i : N) : bytes * list kcomp := nth (N.to_nat i) vs ([], []).
Definition idx_list (n : nat) : list N := map N.of_nat (seq 0 n).

Definition model_cmps (vs : list (bytes * list kcomp)) : list Z :=
  flat_map (fun a => map (fun b => cmp_code (compare (snd a) (snd b))) vs) vs.
Fixpoint zl_eqb (a b : list Z) : bool :=
  match a, b with [], [] => true | x :: a', y :: b' => (x =? y)%Z && zl_eqb a' b' | _, _ => false end.

Definition mismatch (c : case) : bool :=
  match c with
  | CPat p obs js =>
      (* every entry point is the one function parse_pattern *)
      match parse_pattern p, js with
      | None, None => false
      | Some t, Some (nj, _) => negb (nj =? num_variants64 t)%Z
      | _, _ => true
      end
      ||
      match parse_pattern p, obs with
      | None, None => false
      | Some t, Some (n, raws, vars, paths) =>
          negb (n =? num_variants64 t)%Z
          || existsb (fun pm => match pm with
                                | (path, orig, vm) =>
                                    negb (Bool.eqb (path_pattern_matches p path) orig)
                                    || negb (bools_eqb (map (fun v => path_pattern_matches (fst v) path) vars) vm)
                                end) paths
          || (if (0 <? n)%Z && (n <=? 1000)%Z      (* `if`, not andb: the expansion must not be computed for a wrapped count *)
              then (negb (bl_eqb (expand t) raws)
                  || match all_some (map components raws) with
                     | Some css => negb (bl_eqb (map variant_string css) (map fst vars))
                                   || negb ((fix go (a : list (list comp)) (b : list (bytes * list comp)) : bool :=
                                               match a, b with
                                               | [], [] => true
                                               | x :: a', y :: b' => comps_eqb x (snd y) && go a' b'
                                               | _, _ => false
                                               end) css vars)
                     | None => true
                     end)
              else false)
      | _, _ => true
      end
  | CPrec _ vs cmps perms =>
      negb (zl_eqb (model_cmps vs) cmps)
      || negb (forallb (fun pr => match highest (fun a b => compare (snd a) (snd b)) (map (nth_v vs) (fst pr)) with
                                  | Some w => beq (fst w) (fst (nth_v vs (snd pr)))
                                  | None => false
                                  end) perms)
  end.

(* a pattern text in which every square bracket and brace is escaped and no backslash is left dangling (esc = the previous
   byte was an escaping backslash). snapd rejects unescaped brackets in patterns and expands every group, so a rendered variant
   must satisfy this: otherwise doublestar reads a character class or a group the user never wrote. Independent of the renderer. *)
Fixpoint scan_ok (esc : bool) (s : bytes) : bool :=
  match s with
  | [] => negb esc
  | c :: r => if esc then scan_ok false r
              else if c =? cBSL then scan_ok true r
              else if (c =? cLBR) || (c =? cRBR) || (c =? cOPEN) || (c =? cCLOSE) then false
              else scan_ok false r
  end.

(* the property on the observed behaviour, without the model functions:
   CPat: ParsePathPattern and json.Unmarshal (UnmarshalJSON) agree on accept/reject and on the count; the reported count equals the number of enumerated expansions (the driver stops enumerating at 1001) and of
   rendered variants, and is at most 1000; no rendered variant contains an unescaped bracket or brace; for every path the original pattern matches
   iff some rendered variant matches.
   CPrec: every permutation selects the same variant; Compare is sign-antisymmetric and 0 only between equal variants. *)
Definition monitor_fail (c : case) : bool :=
  match c with
  | CPat _ None None => false
  | CPat _ None (Some _) => true                       (* accepted by one entry point, rejected by the other *)
  | CPat _ (Some _) None => true
  | CPat _ (Some (n, raws, vars, paths)) (Some (nj, cj)) =>
      negb (nj =? n)%Z || negb (nj =? Z.of_N cj)%Z
      || negb (n =? Z.of_nat (length raws))%Z || (1000 <? n)%Z
      || existsb (fun v => negb (scan_ok false (fst v))) vars
      || (if (0 <? n)%Z && (n <=? 1000)%Z then negb (n =? Z.of_nat (length vars))%Z else false)
      || existsb (fun pm => match pm with (_, orig, vm) => negb (Bool.eqb orig (existsb (fun b => b) vm)) end) paths
  | CPrec _ vs cmps perms =>
      let k := length vs in
      match perms with
      | [] => false
      | (_, w) :: r => existsb (fun pr => negb (beq (fst (nth_v vs (snd pr))) (fst (nth_v vs w)))) r
      end
      || existsb (fun ij => let i := fst ij in let j := snd ij in
                            let cij := nth (i * k + j) cmps 0%Z in let cji := nth (j * k + i) cmps 0%Z in
                            negb (cij =? - cji)%Z
                            || ((cij =? 0)%Z && negb (beq (fst (nth i vs ([], []))) (fst (nth j vs ([], []))))))
                 (list_prod (seq 0 k) (seq 0 k))
  end.
