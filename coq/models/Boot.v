(* C17 -- kernel and base updates can always fall back to the last known-good revision.

   Executable model of snapd's boot-state protocol, written function by function from
     boot/bootstate16.go, boot/bootstate20.go, boot/bootstate20_bloader_kernel_state.go, boot/boot.go
     (MarkBootSuccessful, coreBootParticipant.SetNextBoot in boot/kernel_os.go) and boot/initramfs.go,
   with the firmware step of UC20/grub taken from the table that translators/grubcfg.go extracts from
   bootloader/assets/data/grub.cfg (V.gen.GrubKernelStatus).

   Every snapd operation is a LIST OF ATOMIC WRITES in the order of the code, computed from the state read when the
   operation starts (that is what the Go code does: revisions()/load()/loadModeenv() first, commit() afterwards).
   A machine executes one write at a time, so that a power loss can fall between any two writes.

   Revisions are positive numbers (the snap file name is <name>_<rev>.snap); `option rev` stands for a variable or
   symlink that may be empty/absent. No proofs in this file. *)
From Coq Require Import List NArith Bool.
Import ListNotations.
Require V.gen.GrubKernelStatus.
Open Scope N_scope.

Definition rev := N.

(* kernel_status / base_status / snap_mode: "" | "try" | "trying" | anything else *)
Inductive status := SDef | STry | STrying | SBad.

Definition status_eqb (a b : status) : bool :=
  match a, b with SDef, SDef | STry, STry | STrying, STrying | SBad, SBad => true | _, _ => false end.

Definition mem (r : rev) (l : list rev) : bool := existsb (N.eqb r) l.
Definition orev_eqb (a b : option rev) : bool :=
  match a, b with Some x, Some y => N.eqb x y | None, None => true | _, _ => false end.
Fixpoint revs_eqb (a b : list rev) : bool :=
  match a, b with [], [] => true | x :: a', y :: b' => N.eqb x y && revs_eqb a' b' | _, _ => false end.

(* ------------------------------------------------------------------------------------------------------------ *)
(* grub.cfg: firmware-side handling of kernel_status (table generated from the file)                              *)

Definition status_of_code (c : N) (old : status) : status :=
  match c with 0 => SDef | 1 => STry | 2 => STrying | 3 => SBad | _ => old end.

Definition test_matches (t : N) (ks : status) : bool :=
  match t with
  | 0 => status_eqb ks SDef | 1 => status_eqb ks STry | 2 => status_eqb ks STrying
  | 9 => negb (status_eqb ks SDef)
  | _ => false
  end.

(* result: (persisted kernel_status, boot try-kernel.efi instead of kernel.efi, fallback=1 set) *)
Fixpoint grub_eval (bs : list (N * N * bool * bool * bool)) (ks : status) : status * bool * bool :=
  match bs with
  | [] => (ks, false, false)
  | (t, ns, saved, use_try, fb) :: r =>
      if test_matches t ks then ((if saved then status_of_code ns ks else ks), use_try, fb) else grub_eval r ks
  end.

Definition grub_step (ks : status) : status * bool * bool := grub_eval GrubKernelStatus.branches ks.

(* ------------------------------------------------------------------------------------------------------------ *)
(* UC20+ with a bootloader that keeps kernel.efi / try-kernel.efi links (grub)                                    *)

(* the modeenv fields the property talks about: base, try_base, base_status, current_kernels *)
Record menv := { m_base : rev; m_try : option rev; m_bst : status; m_ck : list rev }.

Definition menv_eqb (a b : menv) : bool :=
  N.eqb (m_base a) (m_base b) && orev_eqb (m_try a) (m_try b) && status_eqb (m_bst a) (m_bst b) &&
  revs_eqb (m_ck a) (m_ck b).

(* bootloader: kernel_status, kernel.efi -> kl, try-kernel.efi -> tkl; modeenv *)
Record st20 := { ks : status; kl : rev; tkl : option rev; me : menv }.

Definition st20_eqb (a b : st20) : bool :=
  status_eqb (ks a) (ks b) && N.eqb (kl a) (kl b) && orev_eqb (tkl a) (tkl b) && menv_eqb (me a) (me b).

Inductive write20 :=
| WStatus (s : status)      (* bl.SetBootVars({kernel_status: s}) *)
| WEnable (r : rev)         (* ebl.EnableKernel(r): kernel.efi -> r *)
| WEnableTry (r : rev)      (* ebl.EnableTryKernel(r) *)
| WDisableTry               (* ebl.DisableTryKernel() *)
| WModeenv (m : menv)       (* Modeenv.Write(): atomic replacement of the file *)
| WEnv (s : status) (k : rev) (t : option rev).
   (* bootloaders without kernel links (envRefExtractedKernelBootloaderKernelState): one bl.SetBootVars call carrying
      kernel_status, snap_kernel, snap_try_kernel *)

Definition apply20 (w : write20) (s : st20) : st20 :=
  match w with
  | WStatus x => {| ks := x; kl := kl s; tkl := tkl s; me := me s |}
  | WEnable r => {| ks := ks s; kl := r; tkl := tkl s; me := me s |}
  | WEnableTry r => {| ks := ks s; kl := kl s; tkl := Some r; me := me s |}
  | WDisableTry => {| ks := ks s; kl := kl s; tkl := None; me := me s |}
  | WModeenv m => {| ks := ks s; kl := kl s; tkl := tkl s; me := m |}
  | WEnv x k t => {| ks := x; kl := k; tkl := t; me := me s |}
  end.

Definition set_ck (m : menv) (l : list rev) : menv :=
  {| m_base := m_base m; m_try := m_try m; m_bst := m_bst m; m_ck := l |}.
Definition set_bst (m : menv) (x : status) : menv :=
  {| m_base := m_base m; m_try := m_try m; m_bst := x; m_ck := m_ck m |}.

(* bootStateUpdate20.commit: pre-modeenv tasks, modeenv write only if it changed, post-modeenv tasks *)
Definition modeenv_write (old new : menv) : list write20 := if menv_eqb new old then [] else [WModeenv new].

(* bootState20Kernel.setNext + extractedRunKernelImageBootloaderKernelState.setNextKernel / setNextKernelNoTry.
   fx = false is the code as it is. fx = true is the repair proposed in notes/C17-fix.diff: when the undo switches
   kernel.efi to another revision, current_kernels keeps the running kernel too until the next mark-successful. *)
Definition set_next_kernel (fx : bool) (s : st20) (r : rev) (notry : bool) : list write20 :=
  let cur := kl s in
  let reboot := negb (N.eqb r cur) in                               (* genericSetNext *)
  let next_status := if reboot && negb notry then STry else SDef in
  let ck' := if notry then (if fx && reboot then [cur; r] else [r])
             else if reboot then m_ck (me s) ++ [r] else m_ck (me s) in
  modeenv_write (me s) (set_ck (me s) ck') ++
  (if notry
   then (if reboot then [WEnable r] else []) ++ [WDisableTry] ++
        (if status_eqb (ks s) SDef then [] else [WStatus SDef])      (* setNextKernelNoTry *)
   else (if reboot then [WEnableTry r] else []) ++
        (if status_eqb next_status (ks s) then [] else [WStatus next_status])).   (* setNextKernel *)

(* bootState20Base.setNext: one modeenv write *)
Definition set_next_base (s : st20) (r : rev) (notry : bool) : list write20 :=
  let m := me s in
  let reboot := negb (N.eqb r (m_base m)) in
  let m1 := if reboot
            then (if notry then {| m_base := r; m_try := None; m_bst := m_bst m; m_ck := m_ck m |}
                  else {| m_base := m_base m; m_try := Some r; m_bst := m_bst m; m_ck := m_ck m |})
            else m in
  modeenv_write m (set_bst m1 (if reboot && negb notry then STry else SDef)).

(* selectSuccessfulBootSnap for the base (bootState20Base.revisionsFromModeenv) and the kernel (bootloader) *)
Definition mark_base_sn (m : menv) : rev :=
  match m_bst m, m_try m with STrying, Some t => t | _, _ => m_base m end.
Definition mark_kernel_sn (s : st20) : rev :=
  match ks s, tkl s with STrying, Some t => t | _, _ => kl s end.

(* boot.MarkBootSuccessful on a device with modeenv: base.markSuccessful, kernel.markSuccessful, commit:
   markSuccessfulKernel (status, kernel.efi, try-kernel.efi) BEFORE the modeenv, then the modeenv *)
Definition mark20 (s : st20) : list write20 :=
  let ksn := mark_kernel_sn s in
  let m' := {| m_base := mark_base_sn (me s); m_try := None; m_bst := SDef; m_ck := [ksn] |} in
  (if status_eqb (ks s) SDef then [] else [WStatus SDef]) ++
  (if N.eqb (kl s) ksn then [] else [WEnable ksn]) ++
  [WDisableTry] ++
  modeenv_write (me s) m'.

(* ---- the same operations on a bootloader that keeps snap_kernel / snap_try_kernel in its environment
   (envRefExtractedKernelBootloaderKernelState; piboot, u-boot on UC20). kl/tkl then stand for snap_kernel /
   snap_try_kernel. The modeenv part (bootState20Kernel.setNext / markSuccessful) is the same code. *)
Definition orev_is_none (o : option rev) : bool := match o with None => true | _ => false end.

Definition set_next_kernel_env (fx : bool) (s : st20) (r : rev) (notry : bool) : list write20 :=
  let cur := kl s in
  let reboot := negb (N.eqb r cur) in
  let next_status := if reboot && negb notry then STry else SDef in
  let ck' := if notry then (if fx && reboot then [cur; r] else [r])
             else if reboot then m_ck (me s) ++ [r] else m_ck (me s) in
  modeenv_write (me s) (set_ck (me s) ck') ++
  (* commonStateCommitUpdate: write if kernel_status changes or the snap differs from the current one *)
  (if negb (status_eqb next_status (ks s)) || reboot
   then (if notry then [WEnv SDef (if reboot then r else cur) (tkl s)]                (* setNextKernelNoTry *)
         else [WEnv next_status cur (if reboot then Some r else tkl s)])              (* setNextKernel *)
   else []).

Definition mark20_env (s : st20) : list write20 :=
  let ksn := mark_kernel_sn s in
  let m' := {| m_base := mark_base_sn (me s); m_try := None; m_bst := SDef; m_ck := [ksn] |} in
  (* markSuccessfulKernel: one SetBootVars if anything changes *)
  (if negb (status_eqb SDef (ks s)) || negb (N.eqb ksn (kl s)) || negb (orev_is_none (tkl s))
   then [WEnv SDef ksn None] else []) ++
  modeenv_write (me s) m'.

(* configurations of UC20+ *)
Inductive conf :=
| Grub      (* kernel.efi / try-kernel.efi links, grub.cfg handles kernel_status *)
| EnvNS.    (* environment variables only, firmware cannot run scripts (piboot): the initramfs updates the status *)

Inductive op20 :=
| SetK (r : rev) (notry : bool)   (* Participant(kernel r).SetNextBoot({BootWithoutTry: notry}) *)
| SetB (r : rev) (notry : bool)   (* Participant(base r).SetNextBoot(...) *)
| Mark.                           (* MarkBootSuccessful *)

Definition writes20 (cf : conf) (fx : bool) (o : op20) (s : st20) : list write20 :=
  match o, cf with
  | SetK r nt, Grub => set_next_kernel fx s r nt
  | SetK r nt, EnvNS => set_next_kernel_env fx s r nt
  | SetB r nt, _ => set_next_base s r nt
  | Mark, Grub => mark20 s
  | Mark, EnvNS => mark20_env s
  end.

(* ------------------------------------------------------------------------------------------------------------ *)
(* UC20 with a bootloader that cannot run scripts (piboot): boot/initramfs.go updateNotScriptableBootloaderStatus *)
(* arguments: kernel_status in the bootloader configuration, kernel_status= on the kernel command line;
   result: None = nothing written, Some s = SetBootVarsFromInitramfs({kernel_status: s}) *)
Definition not_scriptable_update (conf cmdline : status) : option status :=
  match conf with
  | SDef => None
  | _ => Some (match cmdline, conf with STrying, STry => STrying | _, _ => SDef end)
  end.

(* firmware: grub.cfg. Result: new state and what is chainloaded *)
Inductive fwres := FwImage (r : rev) | FwReboot | FwStuck.

Definition firmware20 (s : st20) : st20 * fwres :=
  let '(ns, use_try, fb) := grub_step (ks s) in
  let s' := {| ks := ns; kl := kl s; tkl := tkl s; me := me s |} in
  if use_try
  then match tkl s with
       | Some t => (s', FwImage t)
       | None => (s', if fb && GrubKernelStatus.fallback_entry_reboots then FwReboot else FwStuck)
       end
  else (s', FwImage (kl s)).

(* firmware that cannot run scripts (Raspberry Pi + piboot), together with the first thing the initramfs does
   (InitramfsRunModeUpdateBootloaderVars -> updateNotScriptableBootloaderStatus). The firmware itself is NOT in the
   repository; modelled: with the one-shot tryboot flag tb (snapd passes it on an orderly reboot only while
   kernel_status is try, piboot.GetRebootArguments) it boots the try configuration (snap_try_kernel, kernel_status=trying
   on the command line), and falls back to a normal boot when that cannot be started; without the flag it boots
   snap_kernel with no kernel_status on the command line. It writes nothing itself, so a power loss between the
   firmware and the status update is the same as one before the firmware. *)
Definition ns_status (s : st20) (cmdline : status) : st20 :=
  {| ks := match not_scriptable_update (ks s) cmdline with Some x => x | None => ks s end;
     kl := kl s; tkl := tkl s; me := me s |}.

Definition firmware_ns (tb : bool) (s : st20) : st20 * fwres :=
  if tb && status_eqb (ks s) STry
  then match tkl s with
       | Some t => (ns_status s STrying, FwImage t)
       | None => (s, FwReboot)
       end
  else (ns_status s SDef, FwImage (kl s)).

Definition firmware_c (cf : conf) (tb : bool) (s : st20) : st20 * fwres :=
  match cf with Grub => firmware20 s | EnvNS => firmware_ns tb s end.

(* initramfs, base: bootState20Base.selectAndCommitSnapInitramfsMount (genericInitramfsSelectSnap with expected
   status try); returns the modeenv to write and the base to mount. Snap files are assumed present. *)
Definition initramfs_base (m : menv) : menv * rev :=
  match m_bst m with
  | STry => match m_try m with Some t => (set_bst m STrying, t) | None => (m, m_base m) end
  | STrying => (set_bst m SDef, m_base m)
  | SDef | SBad => (m, m_base m)
  end.

(* initramfs, kernel: bootState20Kernel.selectAndCommitSnapInitramfsMount (expected status trying) *)
Inductive kres := KMount (r : rev) | KReboot | KDead.

Definition initramfs_kernel (s : st20) : kres :=
  match ks s with
  | STrying => match tkl s with
               | Some t => if mem t (m_ck (me s)) then KMount t else KReboot
               | None => KReboot
               end
  | SDef => if mem (kl s) (m_ck (me s)) then KMount (kl s) else KDead
  | STry | SBad => KReboot
  end.

(* InitramfsRunModeSelectSnapsToMount with types [base, gadget, kernel] (cmd/snap-bootstrap generateMountsModeRun):
   the base is selected and the modeenv written first, then the kernel *)
Definition initramfs20 (s : st20) : st20 * kres * rev :=
  let '(m', b) := initramfs_base (me s) in
  let s' := {| ks := ks s; kl := kl s; tkl := tkl s; me := m' |} in
  (s', initramfs_kernel s', b).

(* ---------------- the machine *)

Inductive phase :=
| PhOff                 (* powered off / rebooting: the firmware runs next *)
| PhFw (img : rev)      (* the firmware chainloaded kernel image img; the initramfs runs next *)
| PhRun (k b : rev)     (* the initramfs mounted kernel k and base b; snapd may run operations *)
| PhDead.               (* boot stopped: untrusted kernel without fallback, or grub stuck (a power cycle retries) *)

Inductive ev20 :=
| EOp (o : op20)        (* snapd starts an operation (reads the state, plans the writes) *)
| EWrite                (* the next planned write reaches the disk *)
| EReset                (* power loss, crash, failed boot, or orderly reboot *)
| ERestart              (* snapd is restarted WITHOUT a reboot while the writes of an operation are in flight: the rest
                           of the write list is dropped, the task will be re-run from the top on the partial state *)
| EFirmware (tb : bool)   (* tb: the one-shot tryboot flag (only the not-scriptable firmware looks at it) *)
| EInitramfs.

(* ghost state: gk/gb = revisions that booted and were marked successful (initially the installed ones);
   ak/ab = the revisions under trial (see fin_ak below) *)
Record mach := {
  st : st20; ph : phase; pend : list write20; cur : option op20;
  gk : list rev; gb : list rev; ak : list rev; ab : list rev
}.

Definition with_st (m : mach) (s : st20) (p : phase) : mach :=
  {| st := s; ph := p; pend := []; cur := None; gk := gk m; gb := gb m; ak := ak m; ab := ab m |}.

(* the window of the finding: a kernel-switching undo has written the modeenv and not yet moved kernel.efi *)
Definition in_window (m : mach) : bool :=
  match cur m, pend m with
  | Some (SetK _ true), WEnable _ :: _ | Some (SetK _ true), WEnv _ _ _ :: _ => true
  | _, _ => false
  end.

(* A restart is considered everywhere except inside a kernel setNext that was itself started while the outcome of a
   trial was still unrecorded (kernel_status = trying): snapd runs MarkBootSuccessful first thing after every start,
   before any task, so such a setNext does not occur; re-entering MarkBootSuccessful on the half-retargeted
   try-kernel would commit a kernel that never booted. *)
Definition is_setk (c : option op20) : bool := match c with Some (SetK _ _) => true | _ => false end.
Definition restart_ok (m : mach) : bool := negb (is_setk (cur m) && status_eqb (ks (st m)) STrying).

(* NoTry (undo) is only ever asked for a revision that was known-good before *)
Definition op_enabled (m : mach) (o : op20) : bool :=
  match o with
  | SetK r true => mem r (gk m)
  | SetB r true => mem r (gb m)
  | _ => true
  end.

(* The revisions under trial are REPLACED, not extended, by a completed request: a completed setNext for another
   revision makes that revision the single one under trial, a completed setNext for the current revision, a
   completed undo and a completed mark-successful end every trial of that snap type. While the writes of a request
   are still in flight both the old trial and the new one can be what the next boot tries. *)
Definition fin_ak (o : op20) (s : st20) (a : list rev) : list rev :=
  match o with
  | Mark | SetK _ true => []
  | SetK r false => if N.eqb r (kl s) then [] else [r]
  | SetB _ _ => a
  end.
Definition fin_ab (o : op20) (s : st20) (a : list rev) : list rev :=
  match o with
  | Mark | SetB _ true => []
  | SetB r false => if N.eqb r (m_base (me s)) then [] else [r]
  | SetK _ _ => a
  end.

Definition start_op (cf : conf) (fx : bool) (m : mach) (o : op20) (k b : rev) : mach :=
  let ws := writes20 cf fx o (st m) in
  let ak1 := match o with SetK r false => if N.eqb r (kl (st m)) then ak m else r :: ak m | _ => ak m end in
  let ab1 := match o with SetB r false => if N.eqb r (m_base (me (st m))) then ab m else r :: ab m | _ => ab m end in
  let none := match ws with [] => true | _ => false end in
  {| st := st m; ph := ph m; pend := ws; cur := if none then None else Some o;
     gk := match o with Mark => k :: gk m | _ => gk m end;
     gb := match o with Mark => b :: gb m | _ => gb m end;
     ak := if none then fin_ak o (st m) ak1 else ak1;
     ab := if none then fin_ab o (st m) ab1 else ab1 |}.

(* fx: the repaired setNext; g: power loss is assumed not to fall into the window *)
Definition step20 (cf : conf) (fx g : bool) (m : mach) (e : ev20) : mach :=
  match e, ph m with
  | EOp o, PhRun k b =>
      match pend m with
      | [] => if op_enabled m o then start_op cf fx m o k b else m
      | _ => m
      end
  | EWrite, PhRun k b =>
      match pend m with
      | [] => m
      | w :: ws =>
          let done := match ws with [] => true | _ => false end in
          let s' := apply20 w (st m) in
          {| st := s'; ph := ph m; pend := ws; cur := if done then None else cur m;
             gk := gk m; gb := gb m;
             ak := match cur m with Some o => if done then fin_ak o s' (ak m) else ak m | None => ak m end;
             ab := match cur m with Some o => if done then fin_ab o s' (ab m) else ab m | None => ab m end |}
      end
  | EReset, _ => if g && in_window m then m else with_st m (st m) PhOff
  | ERestart, PhRun k b =>
      match pend m with
      | [] => m
      | _ => if (g && in_window m) || negb (restart_ok m) then m
             else {| st := st m; ph := ph m; pend := []; cur := None;
                     gk := gk m; gb := gb m; ak := ak m; ab := ab m |}
      end
  | EFirmware tb, PhOff =>
      let '(s', r) := firmware_c cf tb (st m) in
      with_st m s' (match r with FwImage i => PhFw i | FwReboot => PhOff | FwStuck => PhDead end)
  | EInitramfs, PhFw _ =>
      let '(s', r, b) := initramfs20 (st m) in
      with_st m s' (match r with KMount k => PhRun k b | KReboot => PhOff | KDead => PhDead end)
  | _, _ => m
  end.

Definition run20 (cf : conf) (fx g : bool) (m : mach) (evs : list ev20) : mach := fold_left (step20 cf fx g) evs m.

(* a freshly installed system *)
Definition init20 (k b : rev) : mach :=
  {| st := {| ks := SDef; kl := k; tkl := None;
              me := {| m_base := b; m_try := None; m_bst := SDef; m_ck := [k] |} |};
     ph := PhOff; pend := []; cur := None; gk := [k]; gb := [b]; ak := []; ab := [] |}.

(* ------------------------------------------------------------------------------------------------------------ *)
(* UC16/18: bootloader variables only (boot/bootstate16.go). One SetBootVars call per operation.                  *)

Record st16 := { mode : status; sk : rev; stk : option rev; sc : rev; stc : option rev }.

Definition st16_eqb (a b : st16) : bool :=
  status_eqb (mode a) (mode b) && N.eqb (sk a) (sk b) && orev_eqb (stk a) (stk b) &&
  N.eqb (sc a) (sc b) && orev_eqb (stc a) (stc b).

Inductive op16 := Set16 (kernel : bool) (r : rev) (notry : bool) | Mark16.

(* bootState16.setNext + bootStateUpdate16.commit; None = no SetBootVars call *)
Definition set_next16 (s : st16) (kernel : bool) (r : rev) (notry : bool) : option st16 :=
  let good := if kernel then sk s else sc s in
  let upd (m : status) (gd : rev) (t : option rev) :=
    if kernel then {| mode := m; sk := gd; stk := t; sc := sc s; stc := stc s |}
    else {| mode := m; sk := sk s; stk := stk s; sc := gd; stc := t |} in
  if N.eqb good r
  then (if status_eqb (mode s) SDef then None else Some (upd SDef good None))
  else if notry then Some (upd SDef r None)
  else Some (upd STry good (Some r)).

(* bootState16.markSuccessful for the base, then for the kernel, threading one update; one commit *)
Definition mark16 (s : st16) : st16 :=
  match mode s with
  | STrying =>
      {| mode := SDef;
         sk := match stk s with Some t => t | None => sk s end; stk := None;
         sc := match stc s with Some t => t | None => sc s end; stc := None |}
  | _ => {| mode := mode s; sk := sk s; stk := None; sc := sc s; stc := None |}
  end.

Definition write16 (o : op16) (s : st16) : option st16 :=
  match o with Set16 kn r nt => set_next16 s kn r nt | Mark16 => Some (mark16 s) end.

(* The UC16/18 boot script lives in the gadget snap, not in this repository. Modelled from the protocol comment
   above boot.MarkBootSuccessful: try -> set trying and boot snap_try_* (where set); trying -> set "" and boot
   snap_*; anything else -> boot snap_*. *)
Definition firmware16 (s : st16) : st16 * rev * rev :=
  match mode s with
  | STry => ({| mode := STrying; sk := sk s; stk := stk s; sc := sc s; stc := stc s |},
             match stk s with Some t => t | None => sk s end,
             match stc s with Some t => t | None => sc s end)
  | STrying => ({| mode := SDef; sk := sk s; stk := stk s; sc := sc s; stc := stc s |}, sk s, sc s)
  | SDef | SBad => (s, sk s, sc s)
  end.

Inductive phase16 := P16Off | P16Run (k c : rev).

Inductive ev16 := E16Op (o : op16) | E16Reset | E16Firmware.

Record mach16 := {
  s16 : st16; ph16 : phase16;
  gk16 : list rev; gc16 : list rev; ak16 : list rev; ac16 : list rev
}.

Definition op16_enabled (m : mach16) (o : op16) : bool :=
  match o with
  | Set16 true r true => mem r (gk16 m)
  | Set16 false r true => mem r (gc16 m)
  | _ => true
  end.

(* revisions under trial after a setNext (one atomic write, so the replacement is immediate): a request for the
   current revision ends the trial -- unless snap_mode is already "" and the code writes nothing --, an undo ends
   it, a request for another revision replaces it *)
Definition trial16 (s : st16) (good r : rev) (nt : bool) (a : list rev) : list rev :=
  if N.eqb good r then (if status_eqb (mode s) SDef then a else [])
  else if nt then [] else [r].

(* an operation is a single atomic write: a power loss falls before or after it *)
(* fw: the gadget's boot script (firmware16 is the reading of the protocol comment used for the correspondence;
   the theorems hold for every script that satisfies the contract BootProofs.fw16_ok) *)
Definition step16 (fw : st16 -> st16 * rev * rev) (m : mach16) (e : ev16) : mach16 :=
  match e, ph16 m with
  | E16Op o, P16Run k c =>
      if op16_enabled m o then
        {| s16 := match write16 o (s16 m) with Some s' => s' | None => s16 m end; ph16 := ph16 m;
           gk16 := match o with Mark16 => k :: gk16 m | _ => gk16 m end;
           gc16 := match o with Mark16 => c :: gc16 m | _ => gc16 m end;
           ak16 := match o with
                   | Mark16 => []
                   | Set16 true r nt => trial16 (s16 m) (sk (s16 m)) r nt (ak16 m)
                   | _ => ak16 m end;
           ac16 := match o with
                   | Mark16 => []
                   | Set16 false r nt => trial16 (s16 m) (sc (s16 m)) r nt (ac16 m)
                   | _ => ac16 m end |}
      else m
  | E16Reset, _ =>
      {| s16 := s16 m; ph16 := P16Off; gk16 := gk16 m; gc16 := gc16 m; ak16 := ak16 m; ac16 := ac16 m |}
  | E16Firmware, P16Off =>
      let '(s', k, c) := fw (s16 m) in
      {| s16 := s'; ph16 := P16Run k c; gk16 := gk16 m; gc16 := gc16 m; ak16 := ak16 m; ac16 := ac16 m |}
  | _, _ => m
  end.

Definition run16 (fw : st16 -> st16 * rev * rev) (m : mach16) (evs : list ev16) : mach16 :=
  fold_left (step16 fw) evs m.

Definition init16 (k c : rev) : mach16 :=
  {| s16 := {| mode := SDef; sk := k; stk := None; sc := c; stc := None |}; ph16 := P16Off;
     gk16 := [k]; gc16 := [c]; ak16 := []; ac16 := [] |}.

(* ------------------------------------------------------------------------------------------------------------ *)
(* Correspondence interface                                                                                       *)

(* what the driver does: whole operations, optionally cut by a power loss after `cut` writes, and (re)boots *)
Inductive act20 :=
| AOp (o : op20) (cut : option nat)
| AOpR (o : op20) (cut : nat)   (* the operation is cut after `cut` writes by a snapd restart; no reboot *)
| AFw (tb : bool)    (* reset, firmware runs, then the boot dies before the initramfs *)
| ABoot (tb : bool).  (* reset, then up to three firmware+initramfs rounds; tb: tryboot flag of the first one *)

Definition expand20 (a : act20) : list ev20 :=
  match a with
  | AOp o None => EOp o :: repeat EWrite 8
  | AOp o (Some k) => EOp o :: repeat EWrite k ++ [EReset]
  | AOpR o k => EOp o :: repeat EWrite k ++ [ERestart]
  | AFw tb => [EReset; EFirmware tb]
  | ABoot tb => [EReset; EFirmware tb; EInitramfs; EFirmware false; EInitramfs; EFirmware false; EInitramfs]
  end.

(* trace items, printed identically by the driver from the real code's behaviour *)
Inductive item20 :=
| OAct (i : N)            (* action number i starts *)
| OS (s : st20)           (* state after a write / firmware / initramfs step *)
| OBoot (k b : rev)       (* initramfs mounted kernel k and base b *)
| OReboot                 (* firmware fallback entry or initramfs asked for a reboot *)
| ODead                   (* boot stopped *)
| OErr.                   (* the implementation returned an unexpected error *)

Definition item20_eqb (a b : item20) : bool :=
  match a, b with
  | OAct i, OAct j => N.eqb i j
  | OS s, OS t => st20_eqb s t
  | OBoot k b, OBoot k' b' => N.eqb k k' && N.eqb b b'
  | OReboot, OReboot | ODead, ODead | OErr, OErr => true
  | _, _ => false
  end.

Definition trace_ev (cf : conf) (fx : bool) (m : mach) (e : ev20) : mach * list item20 :=
  let m' := step20 cf fx false m e in
  (m',
   match e, ph m with
   | EWrite, PhRun _ _ => match pend m with [] => [] | _ => [OS (st m')] end
   | EFirmware _, PhOff =>
       OS (st m') :: match ph m' with PhOff => [OReboot] | PhDead => [ODead] | _ => [] end
   | EInitramfs, PhFw _ =>
       OS (st m') :: match ph m' with PhRun k b => [OBoot k b] | PhOff => [OReboot] | _ => [ODead] end
   | _, _ => []
   end).

Fixpoint trace_evs (cf : conf) (fx : bool) (m : mach) (evs : list ev20) : mach * list item20 :=
  match evs with
  | [] => (m, [])
  | e :: r => let '(m1, t1) := trace_ev cf fx m e in let '(m2, t2) := trace_evs cf fx m1 r in (m2, t1 ++ t2)
  end.

Fixpoint trace_acts (cf : conf) (fx : bool) (m : mach) (i : N) (acts : list act20) : list item20 :=
  match acts with
  | [] => []
  | a :: r => let '(m', t) := trace_evs cf fx m (expand20 a) in OAct i :: t ++ trace_acts cf fx m' (i + 1) r
  end.

(* stutter removal: a write that does not change the state is not an observable *)
Fixpoint dedup (l : list item20) : list item20 :=
  match l with
  | OS a :: ((OS b :: _) as r) => if st20_eqb a b then dedup r else OS a :: dedup r
  | x :: r => x :: dedup r
  | [] => []
  end.

Fixpoint items_eqb (a b : list item20) : bool :=
  match a, b with
  | [], [] => true
  | x :: a', y :: b' => item20_eqb x y && items_eqb a' b'
  | _, _ => false
  end.

(* UC16 trace items *)
Inductive act16 := A16Op (o : op16) (crash_before : bool) | A16Boot.
Inductive item16 := O16Act (i : N) | O16S (s : st16) | O16Boot (k c : rev) | O16Err.

Definition item16_eqb (a b : item16) : bool :=
  match a, b with
  | O16Act i, O16Act j => N.eqb i j
  | O16S s, O16S t => st16_eqb s t
  | O16Boot k c, O16Boot k' c' => N.eqb k k' && N.eqb c c'
  | O16Err, O16Err => true
  | _, _ => false
  end.

Fixpoint trace_acts16 (m : mach16) (i : N) (acts : list act16) : list item16 :=
  match acts with
  | [] => []
  | A16Op o true :: r => O16Act i :: trace_acts16 (step16 firmware16 m E16Reset) (i + 1) r
  | A16Op o false :: r =>
      let m' := step16 firmware16 m (E16Op o) in
      O16Act i ::
      (match ph16 m with P16Run _ _ => if op16_enabled m o then
                                        match write16 o (s16 m) with Some s' => [O16S s'] | None => [] end else []
                    | _ => [] end) ++
      trace_acts16 m' (i + 1) r
  | A16Boot :: r =>
      let m' := step16 firmware16 (step16 firmware16 m E16Reset) E16Firmware in
      O16Act i :: O16S (s16 m') ::
      (match ph16 m' with P16Run k c => [O16Boot k c] | _ => [] end) ++ trace_acts16 m' (i + 1) r
  end.

Fixpoint items16_eqb (a b : list item16) : bool :=
  match a, b with
  | [], [] => true
  | x :: a', y :: b' => item16_eqb x y && items16_eqb a' b'
  | _, _ => false
  end.

(* ---- monitors: the property's conclusion evaluated on the OBSERVED trace, with the ghost sets recomputed from
   the actions and the observed boots only (no model function of the protocol is used) *)

Record mon := { tk : list rev; tb : list rev; rk : list rev; rb : list rev;   (* trusted / requested *)
                bk : option rev; bb : option rev;                           (* what the last boot mounted *)
                trial_k : bool; trial_b : bool;                             (* last boot was a trial, nothing done since *)
                want_boot : bool;                                           (* inside an ABoot without OBoot yet *)
                lk : rev; lb : rev; lm : status;                            (* fall-back pointers / snap_mode last observed *)
                bad : bool }.

Definition nth_act {A} (acts : list A) (i : N) : option A := nth_error acts (N.to_nat i).

(* all fields but the last observed pointers *)
Definition mon_set (m : mon) (tk' tb' rk' rb' : list rev) (bk' bb' : option rev) (trk trb wb bad' : bool) : mon :=
  {| tk := tk'; tb := tb'; rk := rk'; rb := rb'; bk := bk'; bb := bb'; trial_k := trk; trial_b := trb;
     want_boot := wb; lk := lk m; lb := lb m; lm := lm m; bad := bad' |}.

Definition mon_close (m : mon) : mon :=   (* an ABoot that ended without mounting anything is a failure *)
  if want_boot m then mon_set m (tk m) (tb m) (rk m) (rb m) (bk m) (bb m) (trial_k m) (trial_b m) false true else m.

(* revisions under trial after a request for revision r: replaced by a completed request (emptied by a request for
   the current revision `good` or by an undo); a request cut by a power loss leaves the old and the new candidate *)
Definition req (full nt : bool) (good r : rev) (old : list rev) : list rev :=
  if full then (if nt then [] else if N.eqb r good then [] else [r])
  else (if nt then old else if N.eqb r good then old else r :: old).

Definition mon_item (acts : list act20) (m : mon) (it : item20) : mon :=
  match it with
  | OAct i =>
      let m := mon_close m in
      match nth_act acts i with
      | Some (AOp o c) =>
          let full := match c with None => true | _ => false end in
          let bk' := if full then bk m else None in
          let bb' := if full then bb m else None in
          match o with
          | Mark =>
              (* marking makes what is running known-good; a completed mark ends all trials *)
              mon_set m (match bk m with Some k => k :: tk m | None => tk m end)
                        (match bb m with Some b => b :: tb m | None => tb m end)
                        (if full then [] else rk m) (if full then [] else rb m) bk' bb' false false false (bad m)
          | SetK r nt => mon_set m (tk m) (tb m) (req full nt (lk m) r (rk m)) (rb m) bk' bb' false false false (bad m)
          | SetB r nt => mon_set m (tk m) (tb m) (rk m) (req full nt (lb m) r (rb m)) bk' bb' false false false (bad m)
          end
      | Some (AOpR o _) =>
          (* like a cut operation, but the same boot goes on *)
          match o with
          | Mark =>
              mon_set m (match bk m with Some k => k :: tk m | None => tk m end)
                        (match bb m with Some b => b :: tb m | None => tb m end)
                        (rk m) (rb m) (bk m) (bb m) false false false (bad m)
          | SetK r nt => mon_set m (tk m) (tb m) (req false nt (lk m) r (rk m)) (rb m) (bk m) (bb m) false false false (bad m)
          | SetB r nt => mon_set m (tk m) (tb m) (rk m) (req false nt (lb m) r (rb m)) (bk m) (bb m) false false false (bad m)
          end
      | Some (AFw _) => mon_set m (tk m) (tb m) (rk m) (rb m) None None (trial_k m) (trial_b m) false (bad m)
      | Some (ABoot _) => mon_set m (tk m) (tb m) (rk m) (rb m) None None (trial_k m) (trial_b m) true (bad m)
      | None => m
      end
  | OS s =>
      (* the fallback pointers only ever name revisions that booted and were marked *)
      {| tk := tk m; tb := tb m; rk := rk m; rb := rb m; bk := bk m; bb := bb m;
         trial_k := trial_k m; trial_b := trial_b m; want_boot := want_boot m;
         lk := kl s; lb := m_base (me s); lm := lm m;
         bad := bad m || negb (mem (kl s) (tk m)) || negb (mem (m_base (me s)) (tb m)) |}
  | OBoot k b =>
      (* what is mounted is known-good or THE revision under trial *)
      let okk := mem k (tk m) || mem k (rk m) in
      let okb := mem b (tb m) || mem b (rb m) in
      (* a failed or interrupted trial boot is followed by a boot of known-good revisions *)
      let back_k := negb (trial_k m) || mem k (tk m) in
      let back_b := negb (trial_b m) || mem b (tb m) in
      mon_set m (tk m) (tb m) (rk m) (rb m) (Some k) (Some b) (negb (mem k (tk m))) (negb (mem b (tb m))) false
              (bad m || negb okk || negb okb || negb back_k || negb back_b)
  | OReboot => m
  | ODead | OErr => mon_set m (tk m) (tb m) (rk m) (rb m) (bk m) (bb m) (trial_k m) (trial_b m) false true
  end.

Definition mon_init (k0 b0 : rev) : mon :=
  {| tk := [k0]; tb := [b0]; rk := []; rb := []; bk := None; bb := None; trial_k := false; trial_b := false;
     want_boot := false; lk := k0; lb := b0; lm := SDef; bad := false |}.

Definition monitor20 (k0 b0 : rev) (acts : list act20) (obs : list item20) : bool :=
  bad (mon_close (fold_left (mon_item acts) obs (mon_init k0 b0))).

(* UC16 monitor, same idea. A request for the current revision while the observed snap_mode is "" writes nothing and
   leaves the trial set alone (what is left over from a failed trial is cleaned by the next mark). *)
Definition req16 (md : status) (nt : bool) (good r : rev) (old : list rev) : list rev :=
  if N.eqb good r then (if status_eqb md SDef then old else []) else if nt then [] else [r].

Definition mon16_item (acts : list act16) (m : mon) (it : item16) : mon :=
  match it with
  | O16Act i =>
      match nth_act acts i with
      | Some (A16Op Mark16 false) =>
          mon_set m (match bk m with Some k => k :: tk m | None => tk m end)
                    (match bb m with Some b => b :: tb m | None => tb m end) [] [] (bk m) (bb m) false false false (bad m)
      | Some (A16Op (Set16 kn r nt) false) =>
          mon_set m (tk m) (tb m) (if kn then req16 (lm m) nt (lk m) r (rk m) else rk m)
                    (if kn then rb m else req16 (lm m) nt (lb m) r (rb m)) (bk m) (bb m) false false false (bad m)
      | Some (A16Op _ true) => mon_set m (tk m) (tb m) (rk m) (rb m) None None (trial_k m) (trial_b m) false (bad m)
      | Some A16Boot => mon_set m (tk m) (tb m) (rk m) (rb m) None None (trial_k m) (trial_b m) true (bad m)
      | None => m
      end
  | O16S s =>
      {| tk := tk m; tb := tb m; rk := rk m; rb := rb m; bk := bk m; bb := bb m;
         trial_k := trial_k m; trial_b := trial_b m; want_boot := want_boot m;
         lk := sk s; lb := sc s; lm := mode s;
         bad := bad m || negb (mem (sk s) (tk m)) || negb (mem (sc s) (tb m)) |}
  | O16Boot k b =>
      let okk := mem k (tk m) || mem k (rk m) in
      let okb := mem b (tb m) || mem b (rb m) in
      let back_k := negb (trial_k m) || mem k (tk m) in
      let back_b := negb (trial_b m) || mem b (tb m) in
      mon_set m (tk m) (tb m) (rk m) (rb m) (Some k) (Some b) (negb (mem k (tk m))) (negb (mem b (tb m))) false
              (bad m || negb okk || negb okb || negb back_k || negb back_b)
  | O16Err => mon_set m (tk m) (tb m) (rk m) (rb m) (bk m) (bb m) (trial_k m) (trial_b m) false true
  end.

Definition monitor16 (k0 c0 : rev) (acts : list act16) (obs : list item16) : bool :=
  bad (mon_close (fold_left (mon16_item acts) obs (mon_init k0 c0))).

(* ---- cases *)
Inductive case :=
| Case20 (cf : conf) (k0 b0 : rev) (acts : list act20) (obs : list item20)
| Case16 (k0 c0 : rev) (acts : list act16) (obs : list item16)
| CaseNS (conf cmdline : status) (wrote : option status).   (* updateNotScriptableBootloaderStatus *)

Definition ostatus_eqb (a b : option status) : bool :=
  match a, b with Some x, Some y => status_eqb x y | None, None => true | _, _ => false end.

Definition mismatch (c : case) : bool :=
  match c with
  | Case20 cf k0 b0 acts obs =>
      let m0 := with_st (init20 k0 b0) (st (init20 k0 b0)) (PhRun k0 b0) in
      negb (items_eqb (dedup (trace_acts cf false m0 0 acts)) (dedup obs))
  | Case16 k0 c0 acts obs =>
      let m0 := step16 firmware16 (init16 k0 c0) E16Firmware in
      negb (items16_eqb (trace_acts16 m0 0 acts) obs)
  | CaseNS conf cl w => negb (ostatus_eqb (not_scriptable_update conf cl) w)
  end.

Definition monitor_fail (c : case) : bool :=
  match c with
  | Case20 _ k0 b0 acts obs => monitor20 k0 b0 acts obs
  | Case16 k0 c0 acts obs => monitor16 k0 c0 acts obs
  | CaseNS conf cl w =>
      (* the trial status may only advance try -> trying, and only when the firmware really used the try
         configuration; everything else ends the trial *)
      match w with
      | Some STrying => negb (status_eqb conf STry && status_eqb cl STrying)
      | Some STry | Some SBad => true
      | Some SDef => false
      | None => negb (status_eqb conf SDef)
      end
  end.
