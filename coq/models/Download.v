(* C31 -- model of store/store_download.go: Store.Download and downloadImpl, function by function.
   No proofs here.

   What is modelled:
   - the .partial file is a byte list [file] plus the write position [pos] of the open *os.File (every Seek of
     the Go code is mirrored);
   - SHA3-384 is IDEAL (collision free): a running hash is the list of bytes fed to it, `digest matches` is
     equality with the expected content [expected];
   - the server is a SCRIPT: one [beh] per request the client sends (a redirect is followed by the Go http client
     inside the same attempt, so it just consumes the next item); when the script runs out connections are dropped;
   - the retry strategy is count limited (retry.LimitCount n): attempt k can `continue` iff k < n.
   Not modelled: the download cache and deltas (switched off in the driver too), context cancellation, the
   transfer speed monitor, rate limiting, errors of the local file system calls (open, seek, truncate, rename, sync).

   The flag [trunc]: [true] is the code as it is since commit adc145b (the file is truncated where the position is
   reset because the server ignored Range: `t.Truncate(0)` after `w.Seek(0, io.SeekStart)`); [false] is the code
   before that repair (seek only), kept for the historical counterexample. *)
From Coq Require Import List NArith Bool Arith.
Import ListNotations.
Require Import V.lib.Bytes.
Open Scope N_scope.

(* how the body transfer of one response ends *)
Inductive cut :=
| Full                      (* the whole payload arrives, io.Copy returns nil *)
| EarlyClose (n : nat)      (* n payload bytes arrive, then the connection is lost: io.ErrUnexpectedEOF (retryable) *)
| BadChunk (n : nat).       (* n payload bytes arrive, then a malformed chunk header: an error ShouldRetryError refuses *)

(* what the server does with one request *)
Inductive beh :=
| Drop                      (* connection closed without a response: client.Do fails with EOF (retryable) *)
| Garbage                   (* not an HTTP response: client.Do fails with a non retryable error *)
| Redirect                  (* 302 to the same server; the http client re-sends the request (headers kept) *)
| Resp (status : N) (honours_range : bool) (body : bytes) (c : cut).

(* the three error classes Store.Download distinguishes *)
Inductive derr := ENone | EHash | EOther.

Definition derr_eqb (a b : derr) : bool :=
  match a, b with ENone, ENone | EHash, EHash | EOther, EOther => true | _, _ => false end.

(* os.File.Write at offset pos (pos <= length f in every reachable state) *)
Definition write_at (f : bytes) (pos : nat) (data : bytes) : bytes :=
  firstn pos f ++ data ++ skipn (pos + length data) f.

(* the response that answers the next request: redirects are followed by net/http within client.Do *)
Fixpoint next_beh (s : list beh) : beh * list beh :=
  match s with
  | [] => (Drop, [])
  | Redirect :: r => next_beh r
  | b :: r => (b, r)
  end.

Definition delivered (c : cut) (payload : bytes) : bytes :=
  match c with
  | Full => payload
  | EarlyClose n | BadChunk n => firstn n payload
  end.

Definition status_ok (st : N) : bool := (st =? 200) || (st =? 206).

(* downloadImpl: the body of the retry loop, [r] = attempts that may still follow this one (attempt.More() <-> r > 0).
   Arguments: the file behind w, its write position, the resume offset. Result: finalErr class, file, position,
   unused rest of the server script. *)
Fixpoint dl_loop (trunc : bool) (r : nat) (script : list beh) (expected f : bytes) (pos resume : nat)
  : derr * bytes * nat * list beh :=
  (* h := sha3.New(); if resume > 0 { Range header; w.Seek(0, Start); n := io.Copy(h, w); n != resume -> error } *)
  let ranged := (0 <? resume)%nat in
  let h0 := if ranged then f else [] in
  let pos0 := if ranged then length f else pos in
  if ranged && negb (length f =? resume)%nat then (EOther, f, pos0, script) else
  (* resp, finalErr = s.doRequest(...) *)
  let (b, rest) := next_beh script in
  match b with
  | Redirect => (EOther, f, pos0, rest)     (* unreachable: next_beh never returns Redirect *)
  | Garbage => (EOther, f, pos0, rest)      (* ShouldRetryAttempt = false: break *)
  | Drop =>
      match r with
      | S r' => dl_loop trunc r' rest expected f pos0 resume      (* continue *)
      | O => (EOther, f, pos0, rest)
      end
  | Resp status hr body c =>
      let honoured := ranged && hr in
      let st := if honoured then 206 else status in
      let payload := if honoured then skipn resume body else body in
      (* if resume > 0 && resp.StatusCode != 206 { w.Seek(0, Start); w.Truncate(0) [trunc]; h = New(); resume = 0 } *)
      let reset := ranged && negb (st =? 206) in
      let f1 := if reset && trunc then [] else f in
      let h1 := if reset then [] else h0 in
      let pos1 := if reset then O else pos0 in
      let resume1 := if reset then O else resume in
      (* ShouldRetryHttpResponse: attempt.More() && status >= 500 *)
      if (500 <=? st) && negb (r =? 0)%nat then
        match r with
        | S r' => dl_loop trunc r' rest expected f1 pos1 resume1
        | O => (EOther, f1, pos1, rest)
        end
      else if negb (status_ok st) then (EOther, f1, pos1, rest)    (* 402 / DownloadError *)
      else
        (* io.Copy(io.MultiWriter(w, h, ...), resp.Body) *)
        let data := delivered c payload in
        let f2 := write_at f1 pos1 data in
        let pos2 := (pos1 + length data)%nat in
        let h2 := h1 ++ data in
        match c with
        | Full => if beq h2 expected then (ENone, f2, pos2, rest) else (EHash, f2, pos2, rest)
        | BadChunk _ => (EOther, f2, pos2, rest)
        | EarlyClose _ =>
            match r with
            | S r' => dl_loop trunc r' rest expected f2 (length f2) (length f2)   (* resume = w.Seek(0, End); continue *)
            | O => (EOther, f2, pos2, rest)
            end
        end
  end.

Record outcome := { o_err : derr; o_target : option bytes; o_partial : option bytes }.

(* Store.Download (cache and deltas off). [partial] is the content of targetPath.partial before the call
   (a missing file and an empty one behave alike: O_CREATE), [attempts] the count limit of downloadRetryStrategy. *)
Definition download_gen (trunc : bool) (size : N) (expected partial : bytes) (leave : bool) (attempts : nat)
  (script : list beh) : outcome :=
  let r := pred attempts in
  let resume := length partial in                      (* w.Seek(0, End) *)
  let '(e1, f1, _, rest1) :=
    if (size =? 0) || (N.of_nat resume <? size)
    then dl_loop trunc r script expected partial resume resume
    else (if beq partial expected then ENone else EHash, partial, resume, script) in   (* hash of the whole file *)
  let '(e2, f2) :=
    match e1 with
    | EHash =>                                          (* w.Truncate(0); w.Seek(0, Start); download(..., 0, ...) *)
        let '(e, f, _, _) := dl_loop trunc r rest1 expected [] O O in (e, f)
    | _ => (e1, f1)
    end in
  match e2 with
  | ENone => {| o_err := ENone; o_target := Some f2; o_partial := None |}        (* os.Rename(partial, target) *)
  | _ => {| o_err := e2; o_target := None;
            o_partial := if leave && negb (is_nil_b f2) then Some f2 else None |}  (* deferred cleanup *)
  end.

Definition download := download_gen true.               (* the code as it is (since commit adc145b) *)
Definition download_before_fix := download_gen false.   (* the code before the repair: historical counterexample only *)

(* ---------------------------------------------------------------- the download cache (store/cache.go, CacheManager)

   [cache] = the content of the cache file named by the digest, if there is one. Download starts with
   cacher.Get(sha3, target) = os.Link(cachefile, target): success, OR the error EEXIST (a file is already at the target
   path), both count as a hit and Download returns nil at once -- no request, the .partial is not opened, NOTHING IS
   HASHED. A successful real download ends with cacher.Put(sha3, target): the target is hard-linked into the cache.
   [k_pre] = a file that is already at the target path before the call (outside the property's quantifier; kept in the
   model so that the tie covers it). *)
Record call := { k_pre : option bytes; k_partial : option bytes; k_leave : bool; k_script : list beh }.

Definition opt_bytes (o : option bytes) : bytes := match o with Some b => b | None => [] end.

Definition download_c (cache : option bytes) (size : N) (expected : bytes) (attempts : nat) (k : call)
  : outcome * option bytes :=
  match cache with
  | Some c =>
      ({| o_err := ENone; o_target := Some (match k_pre k with Some t => t | None => c end); o_partial := k_partial k |},
       cache)
  | None =>
      let o := download size expected (opt_bytes (k_partial k)) (k_leave k) attempts (k_script k) in
      match o_err o with
      | ENone => (o, o_target o)                 (* rename replaces whatever was at the target; Put *)
      | _ => ({| o_err := o_err o; o_target := k_pre k; o_partial := o_partial o |}, None)
      end
  end.

(* any number of calls on one Store for the same DownloadInfo (each to its own target path) *)
Fixpoint download_seq (cache : option bytes) (size : N) (expected : bytes) (attempts : nat) (ks : list call)
  : list outcome * option bytes :=
  match ks with
  | [] => ([], cache)
  | k :: r =>
      let (o, cache') := download_c cache size expected attempts k in
      let (os, cache'') := download_seq cache' size expected attempts r in
      (o :: os, cache'')
  end.

(* ---------------------------------------------------------------- deltas (downloadAndApplyDelta, applyDeltaImpl)

   DownloadInfo carries exactly one delta. Its file is downloaded by the same downloadImpl (fresh O_TRUNC file, no
   hash-error retry) from the same server, then xdelta3 -- an ORACLE here -- is run with output targetPath.partial (the
   very file the full download uses), the result is hashed, and renamed to the target only if the digest matches.
   Any error falls back to the full download. *)
Inductive xdelta :=
| XFail                   (* non-zero exit: the code removes targetPath.partial *)
| XWrite (out : bytes)    (* exit 0, targetPath.partial now holds [out] *)
| XNoOutput.              (* exit 0 without touching targetPath.partial *)

Record delta := {
  d_format_ok : bool;     (* deltaInfo.Format = s.deltaFormat = xdelta3 (checked before any request) *)
  d_from_present : bool;  (* the snap of the delta's from-revision is in dirs.SnapBlobDir *)
  d_content : bytes;      (* the delta file whose digest is declared *)
  d_x : xdelta
}.

Definition download_delta (size : N) (expected : bytes) (partial : option bytes) (leave : bool) (attempts : nat)
  (d : delta) (script : list beh) : outcome :=
  let full := fun (p : option bytes) (s : list beh) => download size expected (opt_bytes p) leave attempts s in
  let accept := fun (f : bytes) => {| o_err := ENone; o_target := Some f; o_partial := None |} in
  if negb (d_format_ok d) then full partial script else
  let '(e, _, _, rest) := dl_loop true (pred attempts) script (d_content d) [] O O in
  match e with
  | ENone =>
      if negb (d_from_present d) then full partial rest else
      match d_x d with
      | XFail => full None rest
      | XWrite out => if beq out expected then accept out else full None rest
      | XNoOutput =>
          match partial with
          | Some p => if beq p expected then accept p else full None rest
          | None => full partial rest                                  (* Chmod fails: no such file *)
          end
      end
  | _ => full partial rest
  end.

(* Guard of the conditional theorem: a response never carries more than [sz] bytes (the declared size), and the
   status 206 is only sent when the requested range is really honoured. *)
Definition beh_within (sz : nat) (b : beh) : bool :=
  match b with
  | Resp st hr body _ => (length body <=? sz)%nat && (hr || negb (st =? 206))
  | _ => true
  end.

(* ---------------------------------------------------------------- correspondence interface *)

Inductive case :=
| Case (size : N) (expected : bytes) (partial : option bytes) (leave : bool) (attempts : nat) (script : list beh)
       (obs_err : derr) (obs_target : option bytes) (obs_partial_present : bool)
| CaseSeq (size : N) (expected : bytes) (attempts : nat) (calls : list call)
       (obs : list (derr * option bytes * bool))              (* per call: error, target, .partial present *)
| CaseDelta (size : N) (expected : bytes) (partial : option bytes) (leave : bool) (attempts : nat) (d : delta)
       (script : list beh) (obs_err : derr) (obs_target : option bytes) (obs_partial_present : bool).

Definition opt_beq (a b : option bytes) : bool :=
  match a, b with
  | None, None => true
  | Some x, Some y => beq x y
  | _, _ => false
  end.

Definition is_some {A} (o : option A) : bool := match o with Some _ => true | None => false end.

Fixpoint outcomes_match (os : list outcome) (obs : list (derr * option bytes * bool)) : bool :=
  match os, obs with
  | [], [] => true
  | o :: os', (oe, ot, op) :: obs' =>
      derr_eqb (o_err o) oe && opt_beq (o_target o) ot && Bool.eqb (is_some (o_partial o)) op && outcomes_match os' obs'
  | _, _ => false
  end.

Definition mismatch (c : case) : bool :=
  match c with
  | Case size expected partial leave attempts script oe ot op =>
      let o := download size expected (match partial with Some p => p | None => [] end) leave attempts script in
      negb (derr_eqb (o_err o) oe && opt_beq (o_target o) ot && Bool.eqb (is_some (o_partial o)) op)
  | CaseSeq size expected attempts calls obs =>
      negb (outcomes_match (fst (download_seq None size expected attempts calls)) obs)
  | CaseDelta size expected partial leave attempts d script oe ot op =>
      let o := download_delta size expected partial leave attempts d script in
      negb (derr_eqb (o_err o) oe && opt_beq (o_target o) ot && Bool.eqb (is_some (o_partial o)) op)
  end.

(* the property's conclusion on the implementation's observed behaviour (does not use the model):
   success -> the target exists and is the content whose digest was declared; failure -> no target *)
Definition monitor_fail (c : case) : bool :=
  match c with
  | Case size expected partial leave attempts script oe ot op =>
      match oe with
      | ENone => negb (opt_beq ot (Some expected))
      | _ => is_some ot
      end
  | CaseSeq size expected attempts calls obs =>
      (* the same for every call whose target path was free before the call (the property does not speak about files
         already at the target path): also a target produced from the cache has the expected digest *)
      (fix go (ks : list call) (obs : list (derr * option bytes * bool)) : bool :=
         match ks, obs with
         | k :: ks', (oe, ot, _) :: obs' =>
             (match k_pre k with
              | Some _ => false
              | None => match oe with ENone => negb (opt_beq ot (Some expected)) | _ => is_some ot end
              end) || go ks' obs'
         | _, _ => false
         end) calls obs
  | CaseDelta size expected partial leave attempts d script oe ot op =>
      match oe with
      | ENone => negb (opt_beq ot (Some expected))
      | _ => is_some ot
      end
  end.
