(* C16, manager level — model of the planning logic of autoRefresh.Ensure (overlord/snapstate/autorefresh.go):
   refreshScheduleWithDefaultsFallback, the timer-change check, the computation of nextRefresh through timeutil.Next
   with maxPostponement, the attempt when nextRefresh is due, launchAutoRefresh's retry delay and last-refresh update.
   NOT modelled (the driver keeps them out): refresh.hold / gating holds, metered connections, the legacy
   refresh.schedule option, a store that is offline or fails, changes already in flight. Times are whole seconds.
   No proofs in this file. *)
From Coq Require Import List ZArith Bool String.
Import ListNotations.
Require Import V.lib.Bytes V.gen.RefreshConsts V.models.Timer V.models.TimerText.
Open Scope Z_scope.

Definition default_str : bytes := bs default_timer.
Definition managed_str : bytes := bs "managed".
Definition default_sched : list schedule :=
  match parse_schedule default_str with Some l => l | None => [] end.

(* refreshScheduleWithDefaultsFallback: None = managed (no schedule); otherwise the schedules and the string that
   Ensure remembers in lastRefreshSchedule. An unset or unparsable refresh.timer falls back to the default. *)
Definition effective (conf : bytes) : option (list schedule * bytes) :=
  if beq conf managed_str then None
  else if is_nil_b conf then Some (default_sched, default_str)
  else match parse_schedule conf with
       | Some l => Some (l, conf)
       | None => Some (default_sched, default_str)
       end.

(* ghost record of how nextRefresh was computed: timer string, last-refresh and now at that moment, random spread *)
Record plan := mkPlan { p_str : bytes; p_last : option Z; p_now : Z; p_rand : Z }.

Record mstate := mkM {
  m_last : option Z;          (* state "last-refresh" (None = zero time) *)
  m_next : option Z;          (* m.nextRefresh (None = zero time) *)
  m_last_sched : bytes;       (* m.lastRefreshSchedule *)
  m_attempt : option Z;       (* m.lastRefreshAttempt *)
  m_plan : option plan        (* ghost *)
}.

Definition init_m : mstate := mkM None None [] None None.

(* now + timeutil.Next(sched, last, maxPostponement), with r the random amount added inside a spread window;
   None = the model's day search ran out of fuel *)
Definition plan_time (sch : list schedule) (last : option Z) (now r : Z) : option Z :=
  match last with
  | None => Some now                       (* no last refresh: immediately *)
  | Some l =>
      match top_window sch l now max_postponement_s with
      | None => None
      | Some w => Some (now + delay_base w now + (if (w_start w <? now) then 0 else if w_spread w then r else 0))
      end
  end.

Definition obytes_neq (a b : bytes) : bool := negb (beq a b).

(* one Ensure at time `now`; returns the new state and whether a refresh attempt was launched *)
Definition ensure (conf : bytes) (now r : Z) (st : mstate) : option (mstate * bool) :=
  match effective conf with
  | None => Some (mkM (m_last st) None managed_str (m_attempt st) None, false)
  | Some (sch, str) =>
      (* we already have a refresh time, check if we got a new config *)
      let keep := match m_next st with Some _ => beq (m_last_sched st) str | None => false end in
      let nx := if keep then m_next st else None in
      let pl := if keep then m_plan st else None in
      (* compute next refresh attempt time (if needed) *)
      let np := match nx with
                | Some p => Some (p, pl)
                | None => match plan_time sch (m_last st) now r with
                          | Some p => Some (p, Some (mkPlan str (m_last st) now r))
                          | None => None
                          end
                end in
      match np with
      | None => None
      | Some (p, pl') =>
          if p <=? now then
            (* launchAutoRefresh: not sooner than refreshRetryDelay after the previous attempt *)
            let too_soon := match m_attempt st with Some a => now <? a + refresh_retry_delay_s | None => false end in
            if too_soon then Some (mkM (m_last st) (Some p) str (m_attempt st) pl', false)
            else Some (mkM (Some now) None str (Some now) None, true)
          else Some (mkM (m_last st) (Some p) str (m_attempt st) pl', false)
      end
  end.

(* histories: the configuration is changed, last-refresh is set (a refresh done by other means), Ensure runs *)
Inductive ev :=
| ESetTimer (conf : bytes)
| ESetLast (l : option Z)
| EEnsure (now r : Z).

Definition hstate := (mstate * bytes)%type.    (* manager state, configured refresh.timer *)

Definition hstep (h : hstate) (e : ev) : option hstate :=
  let (st, conf) := h in
  match e with
  | ESetTimer c => Some (st, c)
  | ESetLast l => Some (mkM l (m_next st) (m_last_sched st) (m_attempt st) (m_plan st), conf)
  | EEnsure now r => match ensure conf now r st with Some (st', _) => Some (st', conf) | None => None end
  end.

Fixpoint hrun (h : hstate) (evs : list ev) : option hstate :=
  match evs with
  | [] => Some h
  | e :: r => match hstep h e with Some h' => hrun h' r | None => None end
  end.

(* ------------------------------------------------------------------ correspondence interface *)
(* one observed Ensure: the configured timer text, the schedules the REAL ParseSchedule made of it (default when unset
   or rejected; [] when managed), last-refresh before the call, the clock (whole seconds; timeutil's clock is pinned to
   `now`, the manager's own clock reads at most a second later), nextRefresh afterwards (seconds, rounded down), and
   whether the store was asked for refreshes (an attempt) *)
Inductive mobs := MObs (conf : bytes) (scheds : list schedule) (last : option Z) (now : Z)
                       (next_after : option Z) (attempted : bool).
Inductive mcase := MHist (steps : list mobs).

Definition slack : Z := 2.

(* P lies in a window of the schedule: some flattened clock span on P's day or the day before, the day accepted by
   the week spans; single-instant windows count for a minute *)
Definition in_window_of (s : schedule) (P : Z) : bool :=
  existsb (fun D =>
    week_ok s D &&
    existsb (fun cs => let w := window_of cs D in
                       (w_start w <=? P) && (P <=? Z.max (w_end w) (w_start w + 60) + slack)) (flattened s))
    [P / 86400; P / 86400 - 1].
Definition in_some_window (l : list schedule) (P : Z) : bool := existsb (fun s => in_window_of s P) l.

(* monitor, on observed values only: after every Ensure, a planned attempt (nextRefresh) lies in a window of the
   CURRENTLY configured timer, or is the limit fallback last + maxPostponement, or is due (not after now: overdue or
   first refresh); an attempt that was launched happened at a time inside a window of the current timer, or at/after
   the limit, or without any previous refresh *)
Definition obs_fail (o : mobs) : bool :=
  let 'MObs _ l last now nx att := o in
  (match nx with
   | None => false
   | Some P =>
       negb ((P <=? now + slack) || in_some_window l P ||
             match last with Some t => (t + max_postponement_s <=? P) && (P <=? t + max_postponement_s + slack) | None => true end)
   end) ||
  (att && negb (in_some_window l now || in_some_window l (now + 1) ||
                match last with Some t => t + max_postponement_s <=? now + slack | None => true end)).

Definition mmonitor_fail (c : mcase) : bool := let 'MHist steps := c in existsb obs_fail steps.

(* mismatch: replay the history in the model (the random spread is read off the observation) *)
Definition oz_close (a b : option Z) : bool :=
  match a, b with
  | None, None => true
  | Some x, Some y => (x <=? y) && (y <=? x + slack)
  | _, _ => false
  end.

Fixpoint replay (st : mstate) (steps : list mobs) : bool :=
  match steps with
  | [] => false
  | MObs conf _ last now nx att :: r =>
      let st0 := mkM last (m_next st) (m_last_sched st) (m_attempt st) (m_plan st) in
      (* the random part: what the observation has beyond the deterministic plan *)
      let rnd := match nx, effective conf with
                 | Some P, Some (sch, _) =>
                     match plan_time sch last now 0 with Some p0 => Z.max 0 (P - p0) | None => 0 end
                 | _, _ => 0
                 end in
      match ensure conf now rnd st0 with
      | None => true
      | Some (st1, a) =>
          negb (Bool.eqb a att) || negb (oz_close (m_next st1) nx) ||
          (* a freshly computed plan must be within the window's random range *)
          (match m_plan st1, effective conf with
           | Some pl, Some (sch, _) =>
               match p_last pl, top_window sch (match p_last pl with Some l => l | None => 0 end) (p_now pl) max_postponement_s with
               | Some _, Some w => Z.max 0 (rand_bound w) + slack <? p_rand pl
               | _, _ => false
               end
           | _, _ => false
           end) ||
          replay (mkM (m_last st1) nx (m_last_sched st1) (m_attempt st1) (m_plan st1)) r
      end
  end.

Definition mmismatch (c : mcase) : bool := let 'MHist steps := c in replay init_m steps.
