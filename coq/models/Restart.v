(* C04 — a compact model of the task runner (overlord/state/taskrunner.go: Ensure, run, mustWait, tryUndo, abortLanes for a
   single lane) with persist/reload, for the restart property. Self-contained (does not use TaskEngine.v). No proofs here.

   One change, all tasks in the default lane, no Wait/Retry outcomes. Handlers are deterministic: the do handler of a task
   fails iff the task is in [fail_do]; a task in [no_undo] has no undo handler; undo handlers succeed. This determinism IS
   the idempotence hypothesis of the property. What is persisted is the task list (ids, statuses, edges); what is lost
   at a restart is [running] (the tombs). [log] is the observer's record of handler starts and survives (it is not
   part of the runner). *)
From Coq Require Import List NArith Bool.
Import ListNotations.
Open Scope N_scope.

Record task := mkT { t_id : N; t_status : N; t_waits : list N }.
Record cfg := mkCfg { fail_do : list N; no_undo : list N }.
(* log entry: (task id, is_undo) *)
Record st := mkSt { tasks : list task; running : list N; log : list (N * bool) }.

Definition mem (x : N) (l : list N) : bool := existsb (N.eqb x) l.
(* Hold 1, Do 2, Doing 3, Done 4, Abort 5, Undo 6, Undoing 7, Undone 8, Error 9; Default 0 counts as Do *)
Definition norm (s : N) : N := if s =? 0 then 2 else s.
Definition ready (s : N) : bool := (s =? 4) || (s =? 8) || (s =? 1) || (s =? 9).

Definition status_of (ts : list task) (id : N) : N :=
  match find (fun t => t_id t =? id) ts with Some t => norm (t_status t) | None => 0 end.
Definition set_status (id s : N) (ts : list task) : list task :=
  map (fun t => if t_id t =? id then mkT (t_id t) s (t_waits t) else t) ts.
(* Task.HaltTasks: the tasks that wait for id *)
Definition halts (ts : list task) (id : N) : list N := map t_id (filter (fun t => mem id (t_waits t)) ts).

(* mustWait *)
Definition must_wait (ts : list task) (t : task) : bool :=
  let s := norm (t_status t) in
  if s =? 2 then negb (forallb (fun w => status_of ts w =? 4) (t_waits t))
  else if s =? 6 then negb (forallb (fun h => ready (status_of ts h)) (halts ts (t_id t)))
  else false.

(* the body of Ensure's loop for the task with this id *)
Definition consider (c : cfg) (id : N) (s : st) : st :=
  match find (fun t => t_id t =? id) (tasks s) with
  | None => s
  | Some t0 =>
      let is_running := mem id (running s) in
      (* Abort: a running handler is killed and left alone; otherwise tryUndo *)
      if (norm (t_status t0) =? 5) && is_running then s else
      let ts1 := if norm (t_status t0) =? 5
                 then set_status id (if mem id (no_undo c) then 1 else 6) (tasks s) else tasks s in
      if is_running then mkSt ts1 (running s) (log s) else
      let st1 := status_of ts1 id in
      if ready st1 then mkSt ts1 (running s) (log s) else
      match find (fun t => t_id t =? id) ts1 with
      | None => s
      | Some t1 =>
          if must_wait ts1 t1 then mkSt ts1 (running s) (log s)
          else if (st1 =? 6) && mem id (no_undo c) then mkSt (set_status id 4 ts1) (running s) (log s)
          else if (st1 =? 2) || (st1 =? 3) then mkSt (set_status id 3 ts1) (running s ++ [id]) (log s ++ [(id, false)])
          else if (st1 =? 6) || (st1 =? 7) then mkSt (set_status id 7 ts1) (running s ++ [id]) (log s ++ [(id, true)])
          else mkSt ts1 (running s) (log s)
      end
  end.

(* Ensure: every task in turn (Go iterates a map; the list order stands for one such order) *)
Definition ensure (c : cfg) (s : st) : st := fold_left (fun acc t => consider c (t_id t) acc) (tasks s) s.

(* Change.AbortLanes for the single default lane: every task of the change *)
Definition abort1 (s : N) : N := let n := norm s in if n =? 2 then 1 else if n =? 3 then 5 else if n =? 4 then 6 else s.
Definition abort_all (ts : list task) : list task := map (fun t => mkT (t_id t) (abort1 (t_status t)) (t_waits t)) ts.

(* the handler of a running task returns (the tail of the goroutine in run) *)
Definition finish (c : cfg) (id : N) (s : st) : st :=
  if negb (mem id (running s)) then s else
  let run' := filter (fun x => negb (x =? id)) (running s) in
  let cur := status_of (tasks s) id in
  if (cur =? 3) || (cur =? 5) then
    if mem id (fail_do c) then mkSt (set_status id 9 (abort_all (tasks s))) run' (log s)
    else mkSt (set_status id (if cur =? 3 then 4 else 6) (tasks s)) run' (log s)
  else if cur =? 7 then mkSt (set_status id 8 (tasks s)) run' (log s)
  else mkSt (tasks s) run' (log s).

(* persist at a checkpoint and reload: the task list survives, the tombs do not *)
Definition persist (s : st) : list task := tasks s.
Definition reload (ts : list task) (lg : list (N * bool)) : st := mkSt ts [] lg.
Definition restart (s : st) : st := reload (persist s) (log s).

(* TaskRunner.Stop (graceful stop): every tomb is killed and waited for. A handler that honours its tomb returns a plain
   cancellation error; because the runner is stopping that error counts as Retry (the conversion in the goroutine of run), in
   BOTH directions: a task in Doing stays Doing, a task in Undoing stays Undoing; a task that had been aborted while running
   (Abort) goes through tryUndo as for any Retry. Nothing is running afterwards. *)
Definition stop_task (c : cfg) (rs : list N) (t : task) : task :=
  if mem (t_id t) rs && (norm (t_status t) =? 5)
  then mkT (t_id t) (if mem (t_id t) (no_undo c) then 1 else 6) (t_waits t) else t.
Definition stop (c : cfg) (s : st) : st := mkSt (map (stop_task c (running s)) (tasks s)) [] (log s).

Inductive event := EEnsure | EFinish (id : N) | ERestart | EStop.
Definition step (c : cfg) (s : st) (e : event) : st :=
  match e with EEnsure => ensure c s | EFinish id => finish c id s | ERestart => restart s | EStop => stop c s end.
Definition run_events (c : cfg) (s : st) (evs : list event) : st := fold_left (step c) evs s.

(* Ensure passes repeated until nothing more starts or changes (what one pass does depends on the order in which it
   visits the tasks - Go iterates a map; the repeated pass does not: every enabling condition is monotone) *)
Fixpoint iter_ensure (n : nat) (c : cfg) (s : st) : st :=
  match n with O => s | S m => iter_ensure m c (ensure c s) end.
Definition ensureF (c : cfg) (s : st) : st := iter_ensure (2 * length (tasks s) + 2) c s.

(* a deterministic fair schedule: Ensure (to its fixpoint), then every running handler returns, oldest start first; repeated *)
Definition round (c : cfg) (s : st) : st :=
  let s1 := ensureF c s in fold_left (fun acc id => finish c id acc) (running s1) s1.
Fixpoint settle (fuel : nat) (c : cfg) (s : st) : st :=
  match fuel with O => s | S f => settle f c (round c s) end.
Definition statuses (s : st) : list (N * N) := map (fun t => (t_id t, norm (t_status t))) (tasks s).
(* two rounds per task are more than enough for do, then undo; generous constant factor *)
Definition settle_fuel (ts : list task) : nat := 4 * length ts + 4.

Definition count (id : N) (u : bool) (lg : list (N * bool)) : N :=
  N.of_nat (length (filter (fun e => (fst e =? id) && Bool.eqb (snd e) u) lg)).

(* ------------------------------------------------------------------ correspondence interface *)
(* the driver's schedule is a list of actions: AE = Ensure passes to the fixpoint, AF id = the handler of id returns.
   input: the graph (ids with the ids they wait for), the handler configuration, the actions of the run without restart;
   observed: the final statuses of that run, and for each sampled crash point j (after the first j actions):
   the statuses in the last checkpoint payload, the final statuses after ReadState + fresh runner (restart run), the final
   statuses of the BASELINE run without restart in which an Ensure happens at that moment (actions 1..j replayed on a
   fresh state, then the same policy), and how often each do / undo handler was started after the restart *)
Inductive action := AE | AF (id : N).
(* [recorded]: the tasks whose handler, at the crash point, has recorded its step in the task data and released the state lock
   (it is blocked in its unlocked section); [persisted]: those of them whose step is in the last payload *)
Inductive restart_obs := RObs (j : nat) (payload final_restart final_baseline : list (N * N)) (dos undos : list (N * N))
                              (recorded persisted : list N).
(* [releases]: one entry per handler start of the run without restart: the task, and whether the step the handler recorded
   before releasing the state lock was in the last payload at the moment it had released it (a crash right there) *)
(* a graceful stop after the first j actions (TaskRunner.Stop with the handlers in flight honouring their tombs), then
   ReadState of the last payload + fresh runner: statuses before the stop (= at the crash point j), statuses in the payload after
   the stop, final statuses of that run, final statuses of the baseline run, handler starts after the restart *)
Inductive stop_obs := SObs (j : nat) (before after final_stop final_baseline : list (N * N)) (dos undos : list (N * N)).
Inductive case := Case (graph : list (N * list N)) (c : cfg) (acts : list action) (final : list (N * N)) (rs : list restart_obs)
                       (releases : list (N * bool)) (stops : list stop_obs).

Definition do_action (c : cfg) (s : st) (a : action) : st :=
  match a with AE => ensureF c s | AF id => finish c id s end.

Definition pair_eqb (a b : N * N) : bool := (fst a =? fst b) && (snd a =? snd b).
Fixpoint plist_eqb (a b : list (N * N)) : bool :=
  match a, b with [], [] => true | x :: a', y :: b' => pair_eqb x y && plist_eqb a' b' | _, _ => false end.
Fixpoint nlist_eqb (a b : list N) : bool :=
  match a, b with [], [] => true | x :: a', y :: b' => (x =? y) && nlist_eqb a' b' | _, _ => false end.
Definition lookup (l : list (N * N)) (id : N) : N := match find (fun p => fst p =? id) l with Some p => snd p | None => 0 end.

Definition init_tasks (graph : list (N * list N)) (sts : list (N * N)) : list task :=
  map (fun g => mkT (fst g) (lookup sts (fst g)) (snd g)) graph.

Definition mismatch (k : case) : bool :=
  match k with
  | Case graph c acts final rs releases stops =>
      let s0 := mkSt (init_tasks graph []) [] [] in
      let fuel := settle_fuel (tasks s0) in
      negb (plist_eqb (statuses (settle fuel c s0)) final
            && plist_eqb (statuses (fold_left (do_action c) acts s0)) final
            && forallb (fun r => match r with
                                 | RObs j payload finr finb dos undos _ _ =>
                                     let sj := fold_left (do_action c) (firstn j acts) s0 in
                                     let sr := settle fuel c (mkSt (tasks sj) [] []) in
                                     plist_eqb (statuses sj) payload
                                     && plist_eqb (statuses sr) finr
                                     && plist_eqb (statuses (settle fuel c sj)) finb
                                     && forallb (fun g => (count (fst g) false (log sr) =? lookup dos (fst g))
                                                          && (count (fst g) true (log sr) =? lookup undos (fst g))) graph
                                 end) rs
            && forallb (fun r => match r with
                                 | SObs j before after fins finb dos undos =>
                                     let sj := fold_left (do_action c) (firstn j acts) s0 in
                                     let st := stop c sj in
                                     let sr := settle fuel c (mkSt (tasks st) [] []) in
                                     plist_eqb (statuses sj) before && plist_eqb (statuses st) after
                                     && plist_eqb (statuses sr) fins && plist_eqb (statuses (settle fuel c sj)) finb
                                     && forallb (fun g => (count (fst g) false (log sr) =? lookup dos (fst g))
                                                          && (count (fst g) true (log sr) =? lookup undos (fst g))) graph
                                 end) stops)
  end.

(* the property on the implementation's observed behaviour, without the model's transition functions *)
Definition do_finished (s : N) : bool := negb ((s =? 2) || (s =? 3) || (s =? 0)).
Definition undo_finished (s : N) : bool := (s =? 8) || (s =? 1) || (s =? 9).
Definition monitor_fail (k : case) : bool :=
  match k with
  | Case graph c acts final rs releases stops =>
      negb (forallb (fun r => match r with
                              | RObs j payload finr finb dos undos recorded persisted =>
                                  (* same outcome as the run without restart; nothing lost or duplicated *)
                                  plist_eqb finr finb && nlist_eqb (map fst payload) (map fst graph)
                                  (* what a handler recorded before it released the lock is in the last payload *)
                                  && forallb (fun id => mem id persisted) recorded
                                  && forallb (fun g =>
                                       let id := fst g in let ps := lookup payload id in
                                       (* finished work is not redone *)
                                       (negb (do_finished ps) || (lookup dos id =? 0))
                                       && (negb (undo_finished ps) || (lookup undos id =? 0))
                                       (* what was running is run again from the start *)
                                       && (negb (ps =? 3) || (1 <=? lookup dos id))
                                       && (negb (ps =? 7) || (1 <=? lookup undos id))) graph
                              end) rs
            (* a crash inside a handler's unlocked section finds what the handler had recorded *)
            && forallb (fun r => snd r) releases
            (* a graceful stop is no different from a crash: same outcome, a stopped handler leaves its task in
               Doing / Undoing (Abort: Undo or Hold), nothing finished is redone, what was in flight is run again *)
            && forallb (fun r => match r with
                                 | SObs j before after fins finb dos undos =>
                                     plist_eqb fins finb && nlist_eqb (map fst after) (map fst graph)
                                     && forallb (fun g =>
                                          let id := fst g in let b := lookup before id in let a := lookup after id in
                                          ((a =? b) || ((b =? 5) && ((a =? 6) || (a =? 1))))
                                          && (negb (do_finished a) || (lookup dos id =? 0))
                                          && (negb (undo_finished a) || (lookup undos id =? 0))
                                          && (negb (a =? 3) || (1 <=? lookup dos id))
                                          && (negb (a =? 7) || (1 <=? lookup undos id))) graph
                                 end) stops)
  end.

(* ------------------------------------------------------------------ the persistence assumption, made explicit *)
(* What [restart] above takes for granted: at a crash the store holds the payload of the LAST unlock, i.e. checkpoints are
   atomic with respect to state mutations and totally ordered (State.Unlock marshals and writes while the state lock is still
   held). Here the store is a component of its own: [WStep] is a runner step followed by its checkpoint (H: written under
   the lock, so it is the newest); [WStale old] is what the hypothesis excludes: a write of an OLDER payload completing
   after newer ones (a checkpoint written outside the lock); [WCrash] reloads whatever the store holds. *)
Record world := mkW { w_mem : st; w_disk : list task }.
Inductive wevent := WStep (e : event) | WStale (old : list task) | WCrash.
Definition wstep (c : cfg) (w : world) (we : wevent) : world :=
  match we with
  | WStep ERestart => w
  | WStep e => let m := step c (w_mem w) e in mkW m (tasks m)
  | WStale old => mkW (w_mem w) old
  | WCrash => mkW (reload (w_disk w) (log (w_mem w))) (w_disk w)
  end.
Definition wrun (c : cfg) (w : world) (evs : list wevent) : world := fold_left (wstep c) evs w.
Definition no_stale (evs : list wevent) : bool := forallb (fun e => match e with WStale _ => false | _ => true end) evs.
(* the same history for the runner model without a store *)
Definition erase (we : wevent) : list event :=
  match we with WStep ERestart => [] | WStep e => [e] | WStale _ => [] | WCrash => [ERestart] end.

(* ---- correspondence interface of the second driver (checkpoint discipline) *)
(* observed by the driver's Backend on the real State.Unlock under concurrent lock/modify/unlock cycles, a runner and
   pseudo-randomly slow writes: for each Checkpoint call whether the state lock was held during the call ([locked]), the
   sequence markers of the payloads in the order in which the writes COMPLETED, the marker of the newest state, and the
   task statuses in memory at quiescence and in the payload whose write completed last *)
(* [unpersisted]: how often a goroutine that had modified the state and released the lock (through Unlock or through Unlocker)
   found that no completed write contained its modification *)
(* [retries]: for every Checkpoint call the Backend made fail, the marker of the failed payload and the marker of the next
   write that completed: Unlock retries the SAME payload with the lock still held, nobody else gets in between *)
Inductive ocase := OCase (locked : list bool) (completed : list N) (newest : N) (mem_statuses last_statuses : list (N * N))
                         (unpersisted : N) (retries : list (N * N)).

Fixpoint increasing (lo : N) (l : list N) : bool :=
  match l with [] => true | x :: r => (lo <=? x) && increasing x r end.
Definition omonitor_fail (k : ocase) : bool :=
  match k with
  | OCase locked completed newest mem_sts last_sts unpersisted retries =>
      negb (forallb (fun b => b) locked                       (* every checkpoint is written with the state lock held *)
            && increasing 0 completed                         (* writes complete in the order of the unlocks *)
            && (last completed 0 =? newest)                   (* the last completed write is the newest state *)
            && plist_eqb mem_sts last_sts                     (* ... and shows the statuses that are in memory *)
            && (unpersisted =? 0)                             (* a release after a modification has checkpointed it *)
            && forallb (fun r => fst r =? snd r) retries)     (* a failed checkpoint is retried before anything else is written *)
  end.

(* ---- checkpoint failure and retry. State.Unlock keeps the state lock while it retries a failing Backend.Checkpoint
   (every 3 s, for 5 minutes): memory is then one step ahead of the store and nothing else can touch the state.
   [CStep e true]  a runner step whose checkpoint succeeds at once;
   [CStep e false] a runner step whose checkpoint is failing: the unlock has not returned, the lock is held ([c_dirty]);
   [CRetry]        the retry succeeds; [CCrash] the process dies: whatever the store holds is reloaded. *)
Record cworld := mkC { c_mem : st; c_disk : list task; c_dirty : bool }.
Inductive cevent := CStep (e : event) (written : bool) | CRetry | CCrash.
Definition cstep (c : cfg) (w : cworld) (ce : cevent) : cworld :=
  match ce with
  | CStep ERestart _ => w
  | CStep e written =>
      if c_dirty w then w                                  (* the lock is held by the unlock that is still retrying *)
      else let m := step c (c_mem w) e in
           if written then mkC m (tasks m) false else mkC m (c_disk w) true
  | CRetry => if c_dirty w then mkC (c_mem w) (tasks (c_mem w)) false else w
  | CCrash => mkC (reload (c_disk w) (log (c_mem w))) (c_disk w) false
  end.
Definition crun (c : cfg) (w : cworld) (evs : list cevent) : cworld := fold_left (cstep c) evs w.

(* the runner-model history of a store history: steps whose unlock completed (written at once, or written by a later retry), an
   ERestart for every crash; a step whose write was still failing when the process died is dropped, and so are steps attempted
   while the lock was held by a retrying unlock. [pending] is the step whose write is still failing. *)
Fixpoint cflat (pending : option event) (evs : list cevent) : list event :=
  match evs with
  | [] => match pending with Some e => [e] | None => [] end
  | CStep ERestart _ :: r => cflat pending r
  | CStep e written :: r =>
      match pending with
      | Some _ => cflat pending r
      | None => if written then e :: cflat None r else cflat (Some e) r
      end
  | CRetry :: r => match pending with Some e => e :: cflat None r | None => cflat None r end
  | CCrash :: r => ERestart :: cflat None r
  end.
