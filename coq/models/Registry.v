(* C30 — model of registry/registry.go (viewRule.match/storagePath/isReadable/isWriteable, View.Set/Unset/Get with
   matchWriteRequest/matchGetRequest, getValuesThroughPaths, checkForUnusedBranches/prunePathInValue,
   namespaceResult, mergeNamespaces, JSONDataBag get/set/unset) and registry/transaction.go (Transaction
   Set/Unset/Get/Commit, applyDeltas). Values are V.lib.JsonTree trees.
   SCOPE (RUnsupported outside it): after matching, the unmatched request suffix and the storage path contain no
   unfilled placeholder (so the match-all branches of getValuesThroughPaths / namespaceResult / JSONDataBag get+unset
   are not modelled), and the unmatched suffixes of one Set are not prefixes of one another (for those the result of
   checkForUnusedBranches depends on Go map iteration order). No proofs in this file. *)
From Coq Require Import List NArith ZArith Bool.
Import ListNotations.
Require Import V.lib.JsonTree.
Open Scope N_scope.

Inductive part := Lit (k : key) | Ph (n : key).
Inductive access := RW | RO | WO.
Record rule := mkRule { r_req : list part; r_sto : list part; r_acc : access }.

(* viewRule.isReadable / isWriteable *)
Definition readable (r : rule) : bool := match r_acc r with RW | RO => true | WO => false end.
Definition writeable (r : rule) : bool := match r_acc r with RW | WO => true | RO => false end.

(* viewRule.match: the request matches the rule's request pattern exactly or as a prefix; placeholders are bound
   (a later binding of the same name overwrites); the unmatched rest of the pattern is returned *)
Fixpoint match_parts (ps : list part) (req : path) (b : list (key * key)) : option (list (key * key) * list part) :=
  match req with
  | [] => Some (b, ps)
  | k :: req' =>
      match ps with
      | [] => None
      | Lit k' :: ps' => if k =? k' then match_parts ps' req' b else None
      | Ph n :: ps' => match_parts ps' req' (aset n k b)
      end
  end.

(* viewRule.storagePath: bound placeholders filled in, unbound ones left *)
Definition fill (b : list (key * key)) (sto : list part) : list part :=
  map (fun p => match p with
                | Ph n => match lookup n b with Some k => Lit k | None => Ph n end
                | Lit k => Lit k
                end) sto.

Fixpoint lits (ps : list part) : option path :=
  match ps with
  | [] => Some []
  | Lit k :: r => match lits r with Some p => Some (k :: p) | None => None end
  | Ph _ :: _ => None
  end.

(* a match: filled storage path and unmatched suffix *)
Definition rmatch := (list part * list part)%type.

Definition match_rule (req : path) (r : rule) : option rmatch :=
  match match_parts (r_req r) req [] with
  | Some (b, suffix) => Some (fill b (r_sto r), suffix)
  | None => None
  end.

(* matchWriteRequest / matchGetRequest before sorting: matching rules with the needed access, in rule order *)
Fixpoint matches (allow : rule -> bool) (rules : list rule) (req : path) : list rmatch :=
  match rules with
  | [] => []
  | r :: rest => match match_rule req r with
                 | Some m => if allow r then m :: matches allow rest req else matches allow rest req
                 | None => matches allow rest req
                 end
  end.

(* string order of dotted paths over single-letter keys: lexicographic, a proper prefix first *)
Fixpoint path_ltb (a b : path) : bool :=
  match a, b with
  | [], [] => false
  | [], _ :: _ => true
  | _ :: _, [] => false
  | x :: a', y :: b' => if x <? y then true else if y <? x then false else path_ltb a' b'
  end.

(* sort.Slice on fewer than 12 elements is an insertion sort: stable *)
Fixpoint insert_by {A : Type} (f : A -> path) (x : A) (l : list A) : list A :=
  match l with
  | [] => [x]
  | y :: r => if path_ltb (f x) (f y) then x :: l else y :: insert_by f x r
  end.
Definition sort_by {A : Type} (f : A -> path) (l : list A) : list A := fold_left (fun acc x => insert_by f x acc) l [].
(* fold_left inserts later elements after equal earlier ones: stable *)

Inductive rres := ROk | RNotFound | RBadRequest | RError | RUnsupported.

(* a literal match *)
Definition lmatch := (path * path)%type.   (* storage path, suffix *)
Fixpoint literal_matches (ms : list rmatch) : option (list lmatch) :=
  match ms with
  | [] => Some []
  | (sp, sf) :: r => match lits sp, lits sf, literal_matches r with
                     | Some p, Some s, Some l => Some ((p, s) :: l)
                     | _, _, _ => None
                     end
  end.

Fixpoint path_eqb (a b : path) : bool :=
  match a, b with
  | [], [] => true
  | x :: a', y :: b' => (x =? y) && path_eqb a' b'
  | _, _ => false
  end.

(* two different NON-EMPTY suffixes one of which is a prefix of the other (an empty suffix - a rule matched in full -
   is harmless: pruning it uses up the whole value whatever the order) *)
Definition overlapping (ss : list path) : bool :=
  existsb (fun a => match a with
                    | [] => false
                    | _ :: _ => existsb (fun b => negb (path_eqb a b) && is_prefix a b) ss
                    end) ss.

(* getValuesThroughPaths for a literal suffix: the nested value under the suffix; error if a level is not a map or
   the key is missing *)
Fixpoint value_at (sf : path) (v : tree) : option tree :=
  match sf with
  | [] => Some v
  | k :: r => match v with
              | Obj l => match lookup k l with Some c => value_at r c | None => None end
              | _ => None
              end
  end.

(* prunePathInValue for a literal path: Some None = nothing left (nil), None = error *)
Fixpoint prune (sf : path) (v : option tree) : option (option tree) :=
  match sf with
  | [] => Some None
  | k :: r =>
      match v with
      | None => Some None
      | Some (Obj l) =>
          match lookup k l with
          | None => None
          | Some c =>
              match prune r (Some c) with
              | None => None
              | Some nv =>
                  let l' := match nv with None => aremove k l | Some c' => aset k c' l end in
                  Some (match l' with [] => None | _ => Some (Obj l') end)
              end
          end
      | Some _ => None
      end
  end.

(* checkForUnusedBranches *)
Definition unused_check (v : tree) (suffixes : list path) : bool :=
  match fold_left (fun acc sf => match acc with Some cur => prune sf cur | None => None end) suffixes (Some (Some v)) with
  | Some None => true
  | _ => false
  end.

(* the Go code collects the suffixes in a map keyed by the joined suffix: duplicates collapse *)
Fixpoint dedup_paths (l : list path) : list path :=
  match l with
  | [] => []
  | x :: r => if existsb (path_eqb x) r then dedup_paths r else x :: dedup_paths r
  end.

(* the list of databag writes of View.Set, or the error. The Go code prunes the suffixes in map-iteration order; for the
   suffix sets admitted here (no non-empty suffix a prefix of another) the model fixes one order: reverse namespace order *)
Definition set_writes (rules : list rule) (req : path) (v : tree) : rres * list (path * tree) :=
  match matches writeable rules req with
  | [] => (RNotFound, [])
  | ms =>
      match literal_matches ms with
      | None => (RUnsupported, [])
      | Some lms =>
          if overlapping (map snd lms) then (RUnsupported, []) else
          let sorted := sort_by fst lms in
          let vals := map (fun m => (fst m, value_at (snd m) v)) sorted in
          if existsb (fun pv => match snd pv with None => true | Some _ => false end) vals then (RBadRequest, [])
          else if negb (unused_check v (rev (dedup_paths (map snd (sort_by snd lms))))) then (RBadRequest, [])
          else (ROk, map (fun pv => (fst pv, match snd pv with Some x => x | None => Null end)) vals)
      end
  end.

(* the list of databag unsets of View.Unset (rule order, not sorted) *)
Definition unset_paths (rules : list rule) (req : path) : rres * list path :=
  match matches writeable rules req with
  | [] => (RNotFound, [])
  | ms => match literal_matches ms with
          | None => (RUnsupported, [])
          | Some lms => (ROk, map fst lms)
          end
  end.

(* ------------------------------------------------------------------ unfilled placeholders in the unmatched suffix
   (a request shorter than a rule with a {placeholder} further right) *)
(* rendering order of parts: the text {x} sorts after every single-letter key *)
Definition part_key (p : part) : key := match p with Lit k => k | Ph n => 1000 + n end.
Definition parts_key (ps : list part) : path := map part_key ps.

(* View.Unset in general: one Unset per matching writeable rule (rule order), on the storage path as rendered -
   an unfilled placeholder stays in the path as a match-all sub-key *)
Definition unset_paths_g (rules : list rule) (req : path) : rres * list path :=
  match matches writeable rules req with
  | [] => (RNotFound, [])
  | ms => (ROk, map (fun m : rmatch => parts_key (fst m)) ms)
  end.

(* replaceIn(path, "{n}", cand) *)
Definition replace_in (sp : list part) (n cand : key) : list part :=
  map (fun p => match p with Ph m => if m =? n then Lit cand else Ph m | Lit k => Lit k end) sp.

(* getValuesThroughPathsImpl: literal suffix parts walk into the value; a placeholder part takes every key of the map
   found there as a candidate, fills it into the storage path and goes on below that key. None = error. *)
Fixpoint expand (sf : list part) (sp : list part) (v : tree) : option (list (list part * tree)) :=
  match sf with
  | [] => Some [(sp, v)]
  | Lit k :: r => match v with
                  | Obj l => match lookup k l with Some c => expand r sp c | None => None end
                  | _ => None
                  end
  | Ph n :: r => match v with
                 | Obj l => fold_left (fun acc kc => match acc, expand r (replace_in sp n (fst kc)) (snd kc) with
                                                     | Some a, Some e => Some (a ++ e)
                                                     | _, _ => None
                                                     end) l (Some [])
                 | _ => None
                 end
  end.

Definition denull (t : tree) : option tree := match t with Null => None | _ => Some t end.

(* prunePathInValue with placeholders. tol = true is NOT what the code does: a missing literal key is then taken as
   already pruned; it is used to decide whether data is left over whatever the pruning order *)
Fixpoint prune_g (tol : bool) (sf : list part) (v : option tree) : option (option tree) :=
  match sf with
  | [] => Some None
  | pt :: r =>
      match v with
      | None => Some None
      | Some (Obj l) =>
          match pt with
          | Ph _ =>
              match fold_left (fun acc kc => match acc, prune_g tol r (denull (snd kc)) with
                                             | Some a, Some (Some c') => Some (a ++ [(fst kc, c')])
                                             | Some a, Some None => Some a
                                             | _, _ => None
                                             end) l (Some []) with
              | None => None
              | Some [] => Some None
              | Some l' => Some (Some (Obj l'))
              end
          | Lit k =>
              match lookup k l with
              | None => if tol then Some (Some (Obj l)) else None
              | Some c =>
                  match prune_g tol r (denull c) with
                  | None => None
                  | Some nv =>
                      let l' := match nv with None => aremove k l | Some c' => aset k c' l end in
                      Some (match l' with [] => None | _ => Some (Obj l') end)
                  end
              end
          end
      | Some _ => None
      end
  end.

Definition prune_all (tol : bool) (v : tree) (sfs : list (list part)) : option (option tree) :=
  fold_left (fun acc sf => match acc with Some cur => prune_g tol sf cur | None => None end) sfs (Some (Some v)).

Definition part_eqb (a b : part) : bool :=
  match a, b with Lit x, Lit y => x =? y | Ph x, Ph y => x =? y | _, _ => false end.
Fixpoint parts_eqb (a b : list part) : bool :=
  match a, b with
  | [], [] => true
  | x :: a', y :: b' => part_eqb x y && parts_eqb a' b'
  | _, _ => false
  end.
Fixpoint dedup_parts (l : list (list part)) : list (list part) :=
  match l with
  | [] => []
  | x :: r => if existsb (parts_eqb x) r then dedup_parts r else x :: dedup_parts r
  end.

(* a is a prefix of b up to placeholders (a placeholder stands for any key) *)
Fixpoint unif_prefix (a b : list part) : bool :=
  match a, b with
  | [], _ => true
  | x :: a', y :: b' => (match x, y with Lit k, Lit k' => k =? k' | _, _ => true end) && unif_prefix a' b'
  | _ :: _, [] => false
  end.

(* two different non-empty suffixes one of which is a prefix of the other up to placeholders: for these the outcome of
   checkForUnusedBranches depends on the iteration order of a Go map *)
Definition order_dependent (ss : list (list part)) : bool :=
  existsb (fun a => match a with
                    | [] => false
                    | _ :: _ => existsb (fun b => negb (parts_eqb a b) && unif_prefix a b) ss
                    end) ss.

Fixpoint lits_all (ws : list (list part * tree)) : option (list (path * tree)) :=
  match ws with
  | [] => Some []
  | (sp, x) :: r => match lits sp, lits_all r with
                    | Some p, Some l => Some ((p, x) :: l)
                    | _, _ => None
                    end
  end.

(* View.Set in general: a determined outcome, or (order-dependent suffixes) either the writes or BadRequest - and
   BadRequest for certain when data is left over whatever the order *)
Inductive sclass :=
| SDet (r : rres) (ws : list (path * tree))
| SEither (must_reject : bool) (ws : list (path * tree)).

Definition set_class (rules : list rule) (req : path) (v : tree) : sclass :=
  match matches writeable rules req with
  | [] => SDet RNotFound []
  | ms =>
      let sorted := sort_by (fun m : rmatch => parts_key (fst m)) ms in
      match fold_left (fun acc m => match acc, expand (snd m) (fst m) v with
                                    | Some a, Some e => Some (a ++ e)
                                    | _, _ => None
                                    end) sorted (Some []) with
      | None => SDet RBadRequest []
      | Some ews =>
          (* a suffix placeholder that is already filled in the storage path (same name used twice in the request
             pattern) sends every candidate to the same storage path: which one wins depends on map order *)
          if existsb (fun m => match expand (snd m) (fst m) v with
                               | Some e => negb (Nat.eqb (length (dedup_parts (map fst e))) (length e))
                               | None => false
                               end) sorted
          then SDet RUnsupported [] else
          match lits_all ews with
          | None => SDet RUnsupported []
          | Some ws =>
              let sfs := dedup_parts (map snd ms) in
              if order_dependent sfs then
                SEither (match prune_all true v sfs with Some None => false | _ => true end) ws
              else match prune_all false v sfs with
                   | Some None => SDet ROk ws
                   | _ => SDet RBadRequest []
                   end
          end
      end
  end.

(* what the state machine uses: the literal definition where it applies, the general one otherwise; an order-dependent
   Set has no determined outcome (RUnsupported here; the comparison follows the implementation's choice) *)
Definition set_writes_g (rules : list rule) (req : path) (v : tree) : rres * list (path * tree) :=
  let general := match set_class rules req v with SDet r ws => (r, ws) | SEither _ _ => (RUnsupported, []) end in
  match literal_matches (matches writeable rules req) with
  | Some lms => if overlapping (map snd lms) then general else set_writes rules req v
  | None => general
  end.

(* ------------------------------------------------------------------ JSONDataBag on literal paths *)
Definition bag := list (key * tree).

Inductive bres := BOk (t : tree) | BPathErr | BErr.

Fixpoint bag_get (p : path) (l : bag) : bres :=
  match p with
  | [] => BErr
  | k :: r => match lookup k l with
              | None => BPathErr
              | Some t => match r with
                          | [] => BOk t
                          | _ :: _ => match t with
                                      | Obj l' => bag_get r l'
                                      | Null => BPathErr
                                      | Atom _ => BErr
                                      end
                          end
              end
  end.

(* removeNilValues *)
Definition strip (v : tree) : tree := match purge v with Some v' => v' | None => Null end.

(* JSONDataBag.Set with a non-nil value: nested objects are created and replace anything that is not an object *)
Definition bag_set (p : path) (v : tree) (l : bag) : bag :=
  match tset p (strip v) (Some (Obj l)) with Obj l' => l' | _ => l end.

(* JSONDataBag.Unset. A sub-key of the form {name} matches every key of its level (the Go code decides this from the
   text of the sub-key); in a path such a sub-key is represented by a key >= 1000 (part_key: real keys are bytes).
   unset(): None = error, Some None = nil (the caller removes the member that led here), Some (Some l) = updated level.
   - last sub-key: a placeholder removes the entire level (nil); a literal key is deleted;
   - otherwise, for the literal key / for every key of the level: a missing member is fine, a scalar is a decoding
     error, an object is processed recursively and then removed (nil) or replaced (possibly by an empty object). *)
Definition is_ph_key (k : key) : bool := 1000 <=? k.

Fixpoint bag_unset_g (p : path) (l : bag) : option (option bag) :=
  match p with
  | [] => Some (Some l)
  | k :: r =>
      match r with
      | [] => if is_ph_key k then Some None else Some (Some (aremove k l))
      | _ :: _ =>
          let unset_key (acc : option bag) (key : key) : option bag :=
            match acc with
            | None => None
            | Some cur =>
                match lookup key cur with
                | None | Some Null => Some cur
                | Some (Obj l') => match bag_unset_g r l' with
                                   | None => None
                                   | Some None => Some (aremove key cur)
                                   | Some (Some x) => Some (aset key (Obj x) cur)
                                   end
                | Some (Atom _) => None
                end
            end in
          match (if is_ph_key k then fold_left unset_key (map fst l) (Some l) else unset_key (Some l) k) with
          | None => None
          | Some l' => Some (Some l')
          end
      end
  end.

(* the top level: a nil result is ignored (Unset of a path that is one placeholder changes nothing) *)
Definition bag_unset (p : path) (l : bag) : option bag :=
  match bag_unset_g p l with
  | None => None
  | Some None => Some l
  | Some (Some l') => Some l'
  end.

(* ------------------------------------------------------------------ registry.Transaction *)
Definition delta := (path * tree)%type.          (* Null = unset *)

Definition apply_delta (b : bag) (d : delta) : option bag :=
  match snd d with
  | Null => bag_unset (fst d) b
  | v => match fst d with [] => None | _ => Some (bag_set (fst d) v b) end
  end.

Fixpoint apply_deltas (b : bag) (ds : list delta) : option bag :=
  match ds with
  | [] => Some b
  | d :: r => match apply_delta b d with Some b' => apply_deltas b' r | None => None end
  end.

Record tx := mkTx { tx_pristine : bag; tx_deltas : list delta }.

Definition tx_get (t : tx) (p : path) : bres :=
  match apply_deltas (tx_pristine t) (tx_deltas t) with Some b => bag_get p b | None => BErr end.

(* ------------------------------------------------------------------ View.Get *)
(* mergeNamespaces(old, new) *)
Fixpoint merge (nw : tree) (old : tree) {struct nw} : option tree :=
  match nw, old with
  | Obj ln, Obj lo =>
      match fold_left (fun acc kv =>
                         match acc with
                         | None => None
                         | Some a => match lookup (fst kv) a with
                                     | Some ov => match merge (snd kv) ov with
                                                  | Some m => Some (aset (fst kv) m a)
                                                  | None => None
                                                  end
                                     | None => Some (aset (fst kv) (snd kv) a)
                                     end
                         end) ln (Some lo) with
      | Some l => Some (Obj l)
      | None => None
      end
  | Atom _, Atom _ => Some nw
  | _, _ => None
  end.

Inductive vres := VOk (t : tree) | VErr (e : rres).

Definition view_get (rules : list rule) (get : path -> bres) (req : path) : vres :=
  match matches readable rules req with
  | [] => VErr RNotFound
  | ms =>
      match literal_matches ms with
      | None => VErr RUnsupported
      | Some lms =>
          let sorted := sort_by snd lms in
          let step (acc : option (option tree)) (m : lmatch) : option (option tree) :=
            match acc with
            | None => None
            | Some merged =>
                match get (fst m) with
                | BPathErr => Some merged
                | BErr => None
                | BOk val => let val' := nest (snd m) val in
                             match merged with
                             | None => Some (Some val')
                             | Some old => match merge val' old with Some x => Some (Some x) | None => None end
                             end
                end
            end in
          match fold_left step sorted (Some None) with
          | None => VErr RError
          | Some None => VErr RNotFound
          | Some (Some t) => VOk t
          end
      end
  end.

(* ---- View.Get with unfilled placeholders in the storage path / unmatched suffix *)
(* JSONDataBag.get with {placeholder} sub-keys: a placeholder matches every key of the level; at the end of the path it
   returns the whole level (even an empty one); in the middle it collects, per key, what the rest of the path finds
   below it, skipping keys whose value is not a map or under which nothing (or an error) is found; nothing at all is
   a path error *)
Fixpoint bag_get_g (ps : list part) (l : bag) : bres :=
  match ps with
  | [] => BErr
  | Lit k :: r =>
      match lookup k l with
      | None => BPathErr
      | Some t => match r with
                  | [] => BOk t
                  | _ :: _ => match t with
                              | Obj l' => bag_get_g r l'
                              | Null => bag_get_g r []
                              | Atom _ => BErr
                              end
                  end
      end
  | Ph _ :: r =>
      match r with
      | [] => BOk (Obj l)
      | _ :: _ =>
          match fold_left (fun acc kc => match snd kc with
                                         | Obj l' => match bag_get_g r l' with
                                                     | BOk res => acc ++ [(fst kc, res)]
                                                     | _ => acc
                                                     end
                                         | _ => acc
                                         end) l [] with
          | [] => BPathErr
          | res => BOk (Obj res)
          end
      end
  end.

(* namespaceResult *)
Fixpoint namespace (sf : list part) (res : tree) : option tree :=
  match sf with
  | [] => Some res
  | Lit k :: r => match namespace r res with Some x => Some (Obj [(k, x)]) | None => None end
  | Ph _ :: r =>
      match res with
      | Obj l => match fold_left (fun acc kc => match acc, namespace r (snd kc) with
                                                | Some a, Some x => Some (a ++ [(fst kc, x)])
                                                | _, _ => None
                                                end) l (Some []) with
                 | Some l' => Some (Obj l')
                 | None => None
                 end
      | _ => None
      end
  end.

Definition view_get_ph (rules : list rule) (get : list part -> bres) (req : path) : vres :=
  match matches readable rules req with
  | [] => VErr RNotFound
  | ms =>
      let sorted := sort_by (fun m : rmatch => parts_key (snd m)) ms in
      let step (acc : option (option tree)) (m : rmatch) : option (option tree) :=
        match acc with
        | None => None
        | Some merged =>
            match get (fst m) with
            | BPathErr => Some merged
            | BErr => None
            | BOk val => match namespace (snd m) val with
                         | None => None
                         | Some val' =>
                             match merged with
                             | None => Some (Some val')
                             | Some old => match merge val' old with Some x => Some (Some x) | None => None end
                             end
                         end
            end
        end in
      match fold_left step sorted (Some None) with
      | None => VErr RError
      | Some None => VErr RNotFound
      | Some (Some t) => VOk t
      end
  end.

Definition tx_get_g (t : tx) (ps : list part) : bres :=
  match apply_deltas (tx_pristine t) (tx_deltas t) with Some b => bag_get_g ps b | None => BErr end.

(* what the state machine uses: the literal definition where it applies, the general one otherwise *)
Definition view_get_g (rules : list rule) (t : tx) (req : path) : vres :=
  match literal_matches (matches readable rules req) with
  | Some _ => view_get rules (tx_get t) req
  | None => view_get_ph rules (tx_get_g t) req
  end.

(* View.Set on a BARE databag (no transaction): the writes go straight into the bag, each followed by a schema check;
   a failure leaves the earlier writes behind *)
Fixpoint bare_writes (valid : tree -> bool) (ws : list (path * tree)) (b : bag) : bool * bag :=
  match ws with
  | [] => (true, b)
  | d :: r => match apply_delta b d with
              | None => (false, b)
              | Some b' => if valid (Obj b') then bare_writes valid r b' else (false, b')
              end
  end.

Definition bare_set (valid : tree -> bool) (rules : list rule) (b : bag) (req : path) (v : tree) : rres * bag :=
  match set_writes rules req v with
  | (ROk, ws) => let (ok, b') := bare_writes valid ws b in ((if ok then ROk else RError), b')
  | (e, _) => (e, b)
  end.

(* ------------------------------------------------------------------ several transactions on one committed databag *)
Section Schema.
Variable valid : tree -> bool.                    (* registry.Schema.Validate on the whole databag *)

(* Transaction.Commit: re-read the committed bag, apply the deltas in order, validate, write *)
Definition tx_commit (t : tx) (committed : bag) : option bag :=
  match apply_deltas committed (tx_deltas t) with
  | Some b => if valid (Obj b) then Some b else None
  | None => None
  end.

Record state := mkState { st_bag : bag; st_txs : list tx }.

Inductive op :=
| ONew
| OSet (i : nat) (req : path) (v : tree)
| OUnset (i : nat) (req : path)
| OGet (i : nat) (req : path)
| OCommit (i : nat)
| OBare (req : path) (v : tree).            (* View.Set on a separate bare databag; not part of the transactional state *)

Inductive obs :=
| BRes (r : rres)
| BVal (v : vres)
| BBag (ok : bool) (b : bag)
| BSkip.

Fixpoint set_nth {A : Type} (n : nat) (x : A) (l : list A) : list A :=
  match l, n with
  | [], _ => []
  | _ :: r, O => x :: r
  | y :: r, S n' => y :: set_nth n' x r
  end.

Definition add_deltas (t : tx) (ds : list delta) : tx := mkTx (tx_pristine t) (tx_deltas t ++ ds).

Definition step (rules : list rule) (st : state) (o : op) : state * obs :=
  match o with
  | ONew => (mkState (st_bag st) (st_txs st ++ [mkTx (st_bag st) []]), BBag true (st_bag st))
  | OSet i req v =>
      match nth_error (st_txs st) i with
      | None => (st, BSkip)
      | Some t => match set_writes_g rules req v with
                  | (ROk, ws) => (mkState (st_bag st) (set_nth i (add_deltas t ws) (st_txs st)), BRes ROk)
                  | (e, _) => (st, BRes e)
                  end
      end
  | OUnset i req =>
      match nth_error (st_txs st) i with
      | None => (st, BSkip)
      | Some t => match unset_paths_g rules req with
                  | (ROk, ps) => (mkState (st_bag st) (set_nth i (add_deltas t (map (fun p => (p, Null)) ps)) (st_txs st)), BRes ROk)
                  | (e, _) => (st, BRes e)
                  end
      end
  | OGet i req =>
      match nth_error (st_txs st) i with
      | None => (st, BSkip)
      | Some t => (st, BVal (view_get_g rules t req))
      end
  | OCommit i =>
      match nth_error (st_txs st) i with
      | None => (st, BSkip)
      | Some t => match tx_commit t (st_bag st) with
                  | Some b => (mkState b (set_nth i (mkTx b []) (st_txs st)), BBag true b)
                  | None => (st, BBag false (st_bag st))
                  end
      end
  | OBare _ _ => (st, BSkip)
  end.

Fixpoint run (rules : list rule) (st : state) (ops : list op) : list obs :=
  match ops with
  | [] => []
  | o :: r => let (st', b) := step rules st o in b :: run rules st' r
  end.

(* the system entry point (registrystate.SetViaView with one request): new transaction, Set or Unset through the
   view, commit only if that succeeded. Returns the new committed bag and whether the request was accepted. *)
Definition set_via_view (rules : list rule) (committed : bag) (req : path) (v : tree) : bag * bool :=
  let t := mkTx committed [] in
  let r := match v with
           | Null => match unset_paths_g rules req with (ROk, ps) => Some (map (fun p => (p, Null)) ps) | _ => None end
           | _ => match set_writes_g rules req v with (ROk, ws) => Some ws | _ => None end
           end in
  match r with
  | None => (committed, false)
  | Some ds => match tx_commit (add_deltas t ds) committed with
               | Some b => (b, true)
               | None => (committed, false)
               end
  end.
End Schema.

(* ------------------------------------------------------------------ correspondence / monitor interface *)
(* the driver's schema: the databag must not contain the marked scalar 99 anywhere *)
Fixpoint has_atom (z : Z) (t : tree) : bool :=
  match t with
  | Atom x => (x =? z)%Z
  | Obj l => existsb (fun kv => has_atom z (snd kv)) l
  | Null => false
  end.
Definition drv_valid (t : tree) : bool := negb (has_atom 99 t).

Definition rres_eqb (a b : rres) : bool :=
  match a, b with
  | ROk, ROk | RNotFound, RNotFound | RBadRequest, RBadRequest | RError, RError | RUnsupported, RUnsupported => true
  | _, _ => false
  end.
Definition vres_eqb (a b : vres) : bool :=
  match a, b with
  | VOk x, VOk y => tree_eqb x y
  | VErr x, VErr y => rres_eqb x y
  | _, _ => false
  end.
Definition bag_eqb (a b : bag) : bool := tree_eqb (Obj a) (Obj b).
Definition obs_eqb (a b : obs) : bool :=
  match a, b with
  | BRes x, BRes y => rres_eqb x y
  | BVal x, BVal y => vres_eqb x y
  | BBag o b, BBag o' b' => Bool.eqb o o' && bag_eqb b b'
  | BSkip, BSkip => true
  | _, _ => false
  end.

Inductive case :=
| CHist (rules : list rule) (steps : list (op * obs)).

(* the model's run against the observations. Steps the model does not cover are skipped (after an unsupported Unset the
   model cannot follow the transaction any more, so the comparison stops there). A Set with order-dependent suffixes is
   followed along the implementation's own choice: accepted (then exactly the model's writes are recorded) or
   BadRequest (then nothing is recorded) - BadRequest is required when data is left over whatever the order. The bare
   databag of OBare operations is threaded separately. *)
Definition is_either (rules : list rule) (req : path) (v : tree) : option (bool * list (path * tree)) :=
  let cls := match set_class rules req v with SEither m ws => Some (m, ws) | SDet _ _ => None end in
  match literal_matches (matches writeable rules req) with
  | Some lms => if overlapping (map snd lms) then cls else None
  | None => cls
  end.

(* ------------------------------------------------------------------ the whole transaction model as a RELATION
   (used by the theorems; the functions above are its deterministic part, used by the comparison).
   Every answer View.Set may give on a transaction:
   - order-dependent suffixes: BadRequest recording nothing, or - unless data is left over whatever the order - ROk
     recording exactly the writes ws;
   - the class the model does not determine (set_writes_g answers RUnsupported: a suffix placeholder already filled in
     the storage path so that several candidates go to one storage path, or a storage placeholder that the request
     pattern never binds): any answer and any writes, except that a rejected Set records nothing (View.Set performs
     its writes after all its checks);
   - otherwise exactly set_writes_g. *)
Definition set_outcome (rules : list rule) (req : path) (v : tree) (o : rres * list delta) : Prop :=
  match is_either rules req v with
  | Some (must, ws) => o = (RBadRequest, []) \/ (must = false /\ o = (ROk, ws))
  | None => match set_writes_g rules req v with
            | (RUnsupported, _) => fst o <> ROk -> snd o = []
            | r => o = r
            end
  end.

Definition determined (rules : list rule) (req : path) (v : tree) : Prop :=
  is_either rules req v <> None \/ fst (set_writes_g rules req v) <> RUnsupported.

Section Relation.
Variable valid : tree -> bool.
Variable rules : list rule.

Inductive rstep : state -> op -> state -> obs -> Prop :=
| rs_set_ok : forall st i req v t ws,
    nth_error (st_txs st) i = Some t -> set_outcome rules req v (ROk, ws) ->
    rstep st (OSet i req v) (mkState (st_bag st) (set_nth i (add_deltas t ws) (st_txs st))) (BRes ROk)
| rs_set_rejected : forall st i req v t e ws,
    nth_error (st_txs st) i = Some t -> set_outcome rules req v (e, ws) -> e <> ROk ->
    rstep st (OSet i req v) st (BRes e)
| rs_set_skip : forall st i req v, nth_error (st_txs st) i = None -> rstep st (OSet i req v) st BSkip
| rs_other : forall st o, (forall i req v, o <> OSet i req v) ->
    rstep st o (fst (step valid rules st o)) (snd (step valid rules st o)).

Inductive rsteps : state -> list (op * obs) -> state -> Prop :=
| rss_nil : forall st, rsteps st [] st
| rss_cons : forall st o b st1 r st2, rstep st o st1 b -> rsteps st1 r st2 -> rsteps st ((o, b) :: r) st2.

(* the entry point (registrystate.SetViaView, one request) with every outcome of the Set *)
Definition via_view (committed : bag) (req : path) (v : tree) (res : bag * bool) : Prop :=
  exists e ds,
    match v with
    | Null => (e, ds) = (fst (unset_paths_g rules req), map (fun p => (p, Null)) (snd (unset_paths_g rules req)))
    | _ => set_outcome rules req v (e, ds)
    end /\
    res = match e with
          | ROk => match tx_commit valid (add_deltas (mkTx committed []) ds) committed with
                   | Some b => (b, true)
                   | None => (committed, false)
                   end
          | _ => (committed, false)
          end.
End Relation.

Fixpoint compare (rules : list rule) (st : state) (bare : option bag) (steps : list (op * obs)) : bool :=
  match steps with
  | [] => true
  | (o, seen) :: r =>
      match o with
      | OBare req v =>
          match bare with
          | None => compare rules st None r               (* bare databag no longer known *)
          | Some bb =>
              match bare_set drv_valid rules bb req v with
              | (RUnsupported, _) => compare rules st None r
              | (res, b') => obs_eqb (BBag (rres_eqb res ROk) b') seen && compare rules st (Some b') r
              end
          end
      | _ =>
          let normal :=
            let (st', b) := step drv_valid rules st o in
            match b with
            | BRes RUnsupported => true
            | BVal (VErr RUnsupported) => compare rules st' bare r
            | _ => obs_eqb b seen && compare rules st' bare r
            end in
          match o with
          | OSet i req v =>
              match nth_error (st_txs st) i, is_either rules req v with
              | Some t, Some (must, ws) =>
                  match seen with
                  | BRes ROk => negb must &&
                                compare rules (mkState (st_bag st) (set_nth i (add_deltas t ws) (st_txs st))) bare r
                  | BRes RBadRequest => compare rules st bare r
                  | _ => false
                  end
              | _, _ => normal
              end
          | _ => normal
          end
      end
  end.

Definition mismatch (c : case) : bool :=
  match c with CHist rules steps => negb (compare rules (mkState [] []) (Some []) steps) end.

(* the property on the implementation's observed behaviour:
   - a Get that returned a value although no readable rule matches the request, or a Set/Unset that was accepted
     although no writeable rule matches it, is an access violation;
   - a commit that reported failure must leave the committed databag as it was, and New must show it as it was;
   - read-after-write: the Gets that directly follow an accepted Set in the same transaction must return what was
     written, whenever that is determined without knowing the order of the writes: the Get request g is req ++ sf for a
     writeable rule matched by the Set with literal unmatched suffix sf and storage path p, g is matched by exactly one
     rule of the view, in full, and that rule is read-write; no other write of the same Set goes to p or below p;
     the transaction holds no Unset and no null write (those may make the whole delta list fail). Then the Get must
     return the value found under sf in the Set value, nulls stripped. *)
Fixpoint has_null (t : tree) : bool :=
  match t with
  | Null => true
  | Atom _ => false
  | Obj l => existsb (fun kv => has_null (snd kv)) l
  end.

Definition all_rules (_ : rule) : bool := true.

Definition expected_readback (rules : list rule) (req : path) (v : tree) (g : path) : option tree :=
  match literal_matches (matches writeable rules req) with
  | None => None
  | Some lms =>
      if overlapping (map snd lms) then None else
      match matches all_rules rules g, matches readable rules g, matches writeable rules g with
      | [(sp, [])], [_], [_] =>
          match lits sp with
          | None => None
          | Some p =>
              match filter (fun m => path_eqb (fst m) p && path_eqb g (req ++ snd m)) lms,
                    filter (fun m => is_prefix p (fst m)) lms with
              | [m], [_] => match value_at (snd m) v with
                            | Some Null | None => None
                            | Some x => Some (strip x)
                            end
              | _, _ => None
              end
          end
      | _, _, _ => None
      end
  end.

Fixpoint readback_bad (rules : list rule) (i : nat) (req : path) (v : tree) (steps : list (op * obs)) : bool :=
  match steps with
  | (OGet j g, seen) :: r =>
      if Nat.eqb i j then
        (match expected_readback rules req v g, seen with
         | Some x, BVal s => negb (vres_eqb s (VOk x))
         | _, _ => false
         end) || readback_bad rules i req v r
      else false
  | _ => false
  end.

(* - a rejected Set/Unset records nothing: a Get repeated in the same transaction with only Gets and REJECTED
     Sets/Unsets in between must give the same answer (recent = the Gets seen since the last operation that may
     legitimately change a view) *)
Definition recent_differs (recent : list (nat * path * vres)) (i : nat) (g : path) (s : vres) : bool :=
  existsb (fun e => match e with (j, g', s') => Nat.eqb i j && path_eqb g g' && negb (vres_eqb s s') end) recent.

Fixpoint monitor (rules : list rule) (cur : bag) (tainted : list nat) (recent : list (nat * path * vres))
                 (steps : list (op * obs)) : bool :=
  match steps with
  | [] => false
  | (o, seen) :: r =>
      let bad :=
        match o, seen with
        | OGet i req, BVal s =>
            (match s with VOk _ => match matches readable rules req with [] => true | _ => false end | _ => false end)
            || recent_differs recent i req s
        | OSet i req v, BRes ROk =>
            match matches writeable rules req with
            | [] => true
            | _ => if existsb (Nat.eqb i) tainted || has_null v then false else readback_bad rules i req v r
            end
        | OUnset _ req, BRes ROk => match matches writeable rules req with [] => true | _ => false end
        | OCommit _, BBag false b => negb (bag_eqb b cur)
        | ONew, BBag _ b => negb (bag_eqb b cur)
        | _, _ => false
        end in
      let cur' := match o, seen with OCommit _, BBag true b => b | _, _ => cur end in
      let tainted' := match o, seen with
                      | OUnset i _, BRes ROk => i :: tainted
                      | OSet i _ v, BRes ROk => if has_null v then i :: tainted else tainted
                      | _, _ => tainted
                      end in
      let recent' := match o, seen with
                     | OGet i req, BVal s => (i, req, s) :: recent
                     | OSet _ _ _, BRes ROk | OUnset _ _, BRes ROk => []
                     | OSet _ _ _, BRes _ | OUnset _ _, BRes _ => recent
                     | _, _ => []
                     end in
      bad || monitor rules cur' tainted' recent' r
  end.

Definition monitor_fail (c : case) : bool :=
  match c with CHist rules steps => monitor rules [] [] [] steps end.
