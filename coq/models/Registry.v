(* C30 — model of registry/registry.go (viewRule.match/storagePath/isReadable/isWriteable, View.Set/Unset/Get with
   matchWriteRequest/matchGetRequest, getValuesThroughPaths, checkForUnusedBranches/prunePathInValue,
   namespaceResult, mergeNamespaces, JSONDataBag get/set/unset) and registry/transaction.go (Transaction
   Set/Unset/Get/Commit, applyDeltas). Values are V.lib.JsonTree trees.
   SCOPE (RUnsupported outside it): after matching, the unmatched request suffix and the storage path contain no
   unfilled placeholder (so the match-all branches of getValuesThroughPaths / namespaceResult / JSONDataBag get+unset
   are not modelled), and the unmatched suffixes of one Set are not prefixes of one another (for those the result of
   checkForUnusedBranches depends on Go map iteration order). No proofs in this file. *)
From Coq Require Import List NArith ZArith Bool.
Import ListNotations.
Require Import V.lib.JsonTree.
Open Scope N_scope.

Inductive part := Lit (k : key) | Ph (n : key).
Inductive access := RW | RO | WO.
Record rule := mkRule { r_req : list part; r_sto : list part; r_acc : access }.

(* viewRule.isReadable / isWriteable *)
Definition readable (r : rule) : bool := match r_acc r with RW | RO => true | WO => false end.
Definition writeable (r : rule) : bool := match r_acc r with RW | WO => true | RO => false end.

(* viewRule.match: the request matches the rule's request pattern exactly or as a prefix; placeholders are bound
   (a later binding of the same name overwrites); the unmatched rest of the pattern is returned *)
Fixpoint match_parts (ps : list part) (req : path) (b : list (key * key)) : option (list (key * key) * list part) :=
  match req with
  | [] => Some (b, ps)
  | k :: req' =>
      match ps with
      | [] => None
      | Lit k' :: ps' => if k =? k' then match_parts ps' req' b else None
      | Ph n :: ps' => match_parts ps' req' (aset n k b)
      end
  end.

(* viewRule.storagePath: bound placeholders filled in, unbound ones left *)
Definition fill (b : list (key * key)) (sto : list part) : list part :=
  map (fun p => match p with
                | Ph n => match lookup n b with Some k => Lit k | None => Ph n end
                | Lit k => Lit k
                end) sto.

Fixpoint lits (ps : list part) : option path :=
  match ps with
  | [] => Some []
  | Lit k :: r => match lits r with Some p => Some (k :: p) | None => None end
  | Ph _ :: _ => None
  end.

(* a match: filled storage path and unmatched suffix *)
Definition rmatch := (list part * list part)%type.

Definition match_rule (req : path) (r : rule) : option rmatch :=
  match match_parts (r_req r) req [] with
  | Some (b, suffix) => Some (fill b (r_sto r), suffix)
  | None => None
  end.

(* matchWriteRequest / matchGetRequest before sorting: matching rules with the needed access, in rule order *)
Fixpoint matches (allow : rule -> bool) (rules : list rule) (req : path) : list rmatch :=
  match rules with
  | [] => []
  | r :: rest => match match_rule req r with
                 | Some m => if allow r then m :: matches allow rest req else matches allow rest req
                 | None => matches allow rest req
                 end
  end.

(* string order of dotted paths over single-letter keys: lexicographic, a proper prefix first *)
Fixpoint path_ltb (a b : path) : bool :=
  match a, b with
  | [], [] => false
  | [], _ :: _ => true
  | _ :: _, [] => false
  | x :: a', y :: b' => if x <? y then true else if y <? x then false else path_ltb a' b'
  end.

(* sort.Slice on fewer than 12 elements is an insertion sort: stable *)
Fixpoint insert_by {A : Type} (f : A -> path) (x : A) (l : list A) : list A :=
  match l with
  | [] => [x]
  | y :: r => if path_ltb (f x) (f y) then x :: l else y :: insert_by f x r
  end.
Definition sort_by {A : Type} (f : A -> path) (l : list A) : list A := fold_left (fun acc x => insert_by f x acc) l [].
(* fold_left inserts later elements after equal earlier ones: stable *)

Inductive rres := ROk | RNotFound | RBadRequest | RError | RUnsupported.

(* a literal match *)
Definition lmatch := (path * path)%type.   (* storage path, suffix *)
Fixpoint literal_matches (ms : list rmatch) : option (list lmatch) :=
  match ms with
  | [] => Some []
  | (sp, sf) :: r => match lits sp, lits sf, literal_matches r with
                     | Some p, Some s, Some l => Some ((p, s) :: l)
                     | _, _, _ => None
                     end
  end.

Fixpoint path_eqb (a b : path) : bool :=
  match a, b with
  | [], [] => true
  | x :: a', y :: b' => (x =? y) && path_eqb a' b'
  | _, _ => false
  end.

(* two different NON-EMPTY suffixes one of which is a prefix of the other (an empty suffix - a rule matched in full -
   is harmless: pruning it uses up the whole value whatever the order) *)
Definition overlapping (ss : list path) : bool :=
  existsb (fun a => match a with
                    | [] => false
                    | _ :: _ => existsb (fun b => negb (path_eqb a b) && is_prefix a b) ss
                    end) ss.

(* getValuesThroughPaths for a literal suffix: the nested value under the suffix; error if a level is not a map or
   the key is missing *)
Fixpoint value_at (sf : path) (v : tree) : option tree :=
  match sf with
  | [] => Some v
  | k :: r => match v with
              | Obj l => match lookup k l with Some c => value_at r c | None => None end
              | _ => None
              end
  end.

(* prunePathInValue for a literal path: Some None = nothing left (nil), None = error *)
Fixpoint prune (sf : path) (v : option tree) : option (option tree) :=
  match sf with
  | [] => Some None
  | k :: r =>
      match v with
      | None => Some None
      | Some (Obj l) =>
          match lookup k l with
          | None => None
          | Some c =>
              match prune r (Some c) with
              | None => None
              | Some nv =>
                  let l' := match nv with None => aremove k l | Some c' => aset k c' l end in
                  Some (match l' with [] => None | _ => Some (Obj l') end)
              end
          end
      | Some _ => None
      end
  end.

(* checkForUnusedBranches *)
Definition unused_check (v : tree) (suffixes : list path) : bool :=
  match fold_left (fun acc sf => match acc with Some cur => prune sf cur | None => None end) suffixes (Some (Some v)) with
  | Some None => true
  | _ => false
  end.

(* the list of databag writes of View.Set, or the error *)
Definition set_writes (rules : list rule) (req : path) (v : tree) : rres * list (path * tree) :=
  match matches writeable rules req with
  | [] => (RNotFound, [])
  | ms =>
      match literal_matches ms with
      | None => (RUnsupported, [])
      | Some lms =>
          if overlapping (map snd lms) then (RUnsupported, []) else
          let sorted := sort_by fst lms in
          let vals := map (fun m => (fst m, value_at (snd m) v)) sorted in
          if existsb (fun pv => match snd pv with None => true | Some _ => false end) vals then (RBadRequest, [])
          else if negb (unused_check v (map snd lms)) then (RBadRequest, [])
          else (ROk, map (fun pv => (fst pv, match snd pv with Some x => x | None => Null end)) vals)
      end
  end.

(* the list of databag unsets of View.Unset (rule order, not sorted) *)
Definition unset_paths (rules : list rule) (req : path) : rres * list path :=
  match matches writeable rules req with
  | [] => (RNotFound, [])
  | ms => match literal_matches ms with
          | None => (RUnsupported, [])
          | Some lms => (ROk, map fst lms)
          end
  end.

(* ------------------------------------------------------------------ JSONDataBag on literal paths *)
Definition bag := list (key * tree).

Inductive bres := BOk (t : tree) | BPathErr | BErr.

Fixpoint bag_get (p : path) (l : bag) : bres :=
  match p with
  | [] => BErr
  | k :: r => match lookup k l with
              | None => BPathErr
              | Some t => match r with
                          | [] => BOk t
                          | _ :: _ => match t with
                                      | Obj l' => bag_get r l'
                                      | Null => BPathErr
                                      | Atom _ => BErr
                                      end
                          end
              end
  end.

(* removeNilValues *)
Definition strip (v : tree) : tree := match purge v with Some v' => v' | None => Null end.

(* JSONDataBag.Set with a non-nil value: nested objects are created and replace anything that is not an object *)
Definition bag_set (p : path) (v : tree) (l : bag) : bag :=
  match tset p (strip v) (Some (Obj l)) with Obj l' => l' | _ => l end.

(* JSONDataBag.Unset: a missing member is fine, a scalar on the way is a decoding error *)
Fixpoint bag_unset (p : path) (l : bag) : option bag :=
  match p with
  | [] => Some l
  | k :: r => match r with
              | [] => Some (aremove k l)
              | _ :: _ => match lookup k l with
                          | None | Some Null => Some l
                          | Some (Obj l') => match bag_unset r l' with Some x => Some (aset k (Obj x) l) | None => None end
                          | Some (Atom _) => None
                          end
              end
  end.

(* ------------------------------------------------------------------ registry.Transaction *)
Definition delta := (path * tree)%type.          (* Null = unset *)

Definition apply_delta (b : bag) (d : delta) : option bag :=
  match snd d with
  | Null => bag_unset (fst d) b
  | v => match fst d with [] => None | _ => Some (bag_set (fst d) v b) end
  end.

Fixpoint apply_deltas (b : bag) (ds : list delta) : option bag :=
  match ds with
  | [] => Some b
  | d :: r => match apply_delta b d with Some b' => apply_deltas b' r | None => None end
  end.

Record tx := mkTx { tx_pristine : bag; tx_deltas : list delta }.

Definition tx_get (t : tx) (p : path) : bres :=
  match apply_deltas (tx_pristine t) (tx_deltas t) with Some b => bag_get p b | None => BErr end.

(* ------------------------------------------------------------------ View.Get *)
(* mergeNamespaces(old, new) *)
Fixpoint merge (nw : tree) (old : tree) {struct nw} : option tree :=
  match nw, old with
  | Obj ln, Obj lo =>
      match fold_left (fun acc kv =>
                         match acc with
                         | None => None
                         | Some a => match lookup (fst kv) a with
                                     | Some ov => match merge (snd kv) ov with
                                                  | Some m => Some (aset (fst kv) m a)
                                                  | None => None
                                                  end
                                     | None => Some (aset (fst kv) (snd kv) a)
                                     end
                         end) ln (Some lo) with
      | Some l => Some (Obj l)
      | None => None
      end
  | Atom _, Atom _ => Some nw
  | _, _ => None
  end.

Inductive vres := VOk (t : tree) | VErr (e : rres).

Definition view_get (rules : list rule) (get : path -> bres) (req : path) : vres :=
  match matches readable rules req with
  | [] => VErr RNotFound
  | ms =>
      match literal_matches ms with
      | None => VErr RUnsupported
      | Some lms =>
          let sorted := sort_by snd lms in
          let step (acc : option (option tree)) (m : lmatch) : option (option tree) :=
            match acc with
            | None => None
            | Some merged =>
                match get (fst m) with
                | BPathErr => Some merged
                | BErr => None
                | BOk val => let val' := nest (snd m) val in
                             match merged with
                             | None => Some (Some val')
                             | Some old => match merge val' old with Some x => Some (Some x) | None => None end
                             end
                end
            end in
          match fold_left step sorted (Some None) with
          | None => VErr RError
          | Some None => VErr RNotFound
          | Some (Some t) => VOk t
          end
      end
  end.

(* ------------------------------------------------------------------ several transactions on one committed databag *)
Section Schema.
Variable valid : tree -> bool.                    (* registry.Schema.Validate on the whole databag *)

(* Transaction.Commit: re-read the committed bag, apply the deltas in order, validate, write *)
Definition tx_commit (t : tx) (committed : bag) : option bag :=
  match apply_deltas committed (tx_deltas t) with
  | Some b => if valid (Obj b) then Some b else None
  | None => None
  end.

Record state := mkState { st_bag : bag; st_txs : list tx }.

Inductive op :=
| ONew
| OSet (i : nat) (req : path) (v : tree)
| OUnset (i : nat) (req : path)
| OGet (i : nat) (req : path)
| OCommit (i : nat).

Inductive obs :=
| BRes (r : rres)
| BVal (v : vres)
| BBag (ok : bool) (b : bag)
| BSkip.

Fixpoint set_nth {A : Type} (n : nat) (x : A) (l : list A) : list A :=
  match l, n with
  | [], _ => []
  | _ :: r, O => x :: r
  | y :: r, S n' => y :: set_nth n' x r
  end.

Definition add_deltas (t : tx) (ds : list delta) : tx := mkTx (tx_pristine t) (tx_deltas t ++ ds).

Definition step (rules : list rule) (st : state) (o : op) : state * obs :=
  match o with
  | ONew => (mkState (st_bag st) (st_txs st ++ [mkTx (st_bag st) []]), BBag true (st_bag st))
  | OSet i req v =>
      match nth_error (st_txs st) i with
      | None => (st, BSkip)
      | Some t => match set_writes rules req v with
                  | (ROk, ws) => (mkState (st_bag st) (set_nth i (add_deltas t ws) (st_txs st)), BRes ROk)
                  | (e, _) => (st, BRes e)
                  end
      end
  | OUnset i req =>
      match nth_error (st_txs st) i with
      | None => (st, BSkip)
      | Some t => match unset_paths rules req with
                  | (ROk, ps) => (mkState (st_bag st) (set_nth i (add_deltas t (map (fun p => (p, Null)) ps)) (st_txs st)), BRes ROk)
                  | (e, _) => (st, BRes e)
                  end
      end
  | OGet i req =>
      match nth_error (st_txs st) i with
      | None => (st, BSkip)
      | Some t => (st, BVal (view_get rules (tx_get t) req))
      end
  | OCommit i =>
      match nth_error (st_txs st) i with
      | None => (st, BSkip)
      | Some t => match tx_commit t (st_bag st) with
                  | Some b => (mkState b (set_nth i (mkTx b []) (st_txs st)), BBag true b)
                  | None => (st, BBag false (st_bag st))
                  end
      end
  end.

Fixpoint run (rules : list rule) (st : state) (ops : list op) : list obs :=
  match ops with
  | [] => []
  | o :: r => let (st', b) := step rules st o in b :: run rules st' r
  end.

(* the system entry point (registrystate.SetViaView with one request): new transaction, Set or Unset through the
   view, commit only if that succeeded. Returns the new committed bag and whether the request was accepted. *)
Definition set_via_view (rules : list rule) (committed : bag) (req : path) (v : tree) : bag * bool :=
  let t := mkTx committed [] in
  let r := match v with
           | Null => match unset_paths rules req with (ROk, ps) => Some (map (fun p => (p, Null)) ps) | _ => None end
           | _ => match set_writes rules req v with (ROk, ws) => Some ws | _ => None end
           end in
  match r with
  | None => (committed, false)
  | Some ds => match tx_commit (add_deltas t ds) committed with
               | Some b => (b, true)
               | None => (committed, false)
               end
  end.
End Schema.

(* ------------------------------------------------------------------ correspondence / monitor interface *)
(* the driver's schema: the databag must not contain the marked scalar 99 anywhere *)
Fixpoint has_atom (z : Z) (t : tree) : bool :=
  match t with
  | Atom x => (x =? z)%Z
  | Obj l => existsb (fun kv => has_atom z (snd kv)) l
  | Null => false
  end.
Definition drv_valid (t : tree) : bool := negb (has_atom 99 t).

Definition rres_eqb (a b : rres) : bool :=
  match a, b with
  | ROk, ROk | RNotFound, RNotFound | RBadRequest, RBadRequest | RError, RError | RUnsupported, RUnsupported => true
  | _, _ => false
  end.
Definition vres_eqb (a b : vres) : bool :=
  match a, b with
  | VOk x, VOk y => tree_eqb x y
  | VErr x, VErr y => rres_eqb x y
  | _, _ => false
  end.
Definition bag_eqb (a b : bag) : bool := tree_eqb (Obj a) (Obj b).
Definition obs_eqb (a b : obs) : bool :=
  match a, b with
  | BRes x, BRes y => rres_eqb x y
  | BVal x, BVal y => vres_eqb x y
  | BBag o b, BBag o' b' => Bool.eqb o o' && bag_eqb b b'
  | BSkip, BSkip => true
  | _, _ => false
  end.

Inductive case :=
| CHist (rules : list rule) (steps : list (op * obs)).

(* the model's run, with the observation of every unsupported step taken from the implementation: after an
   unsupported Set/Unset the model cannot follow the transaction any more, so the comparison stops there *)
Fixpoint compare (rules : list rule) (st : state) (steps : list (op * obs)) : bool :=
  match steps with
  | [] => true
  | (o, seen) :: r =>
      let (st', b) := step drv_valid rules st o in
      match b with
      | BRes RUnsupported => true
      | BVal (VErr RUnsupported) => compare rules st' r
      | _ => obs_eqb b seen && compare rules st' r
      end
  end.

Definition mismatch (c : case) : bool :=
  match c with CHist rules steps => negb (compare rules (mkState [] []) steps) end.

(* the property on the implementation's observed behaviour:
   - a Get that returned a value although no readable rule matches the request, or a Set/Unset that was accepted
     although no writeable rule matches it, is an access violation;
   - a commit that reported failure must leave the committed databag as it was, and New must show it as it was;
   - read-after-write: the Gets that directly follow an accepted Set in the same transaction must return what was
     written, whenever that is determined without knowing the order of the writes: the Get request g is req ++ sf for a
     writeable rule matched by the Set with literal unmatched suffix sf and storage path p, g is matched by exactly one
     rule of the view, in full, and that rule is read-write; no other write of the same Set goes to p or below p;
     the transaction holds no Unset and no null write (those may make the whole delta list fail). Then the Get must
     return the value found under sf in the Set value, nulls stripped. *)
Fixpoint has_null (t : tree) : bool :=
  match t with
  | Null => true
  | Atom _ => false
  | Obj l => existsb (fun kv => has_null (snd kv)) l
  end.

Definition all_rules (_ : rule) : bool := true.

Definition expected_readback (rules : list rule) (req : path) (v : tree) (g : path) : option tree :=
  match literal_matches (matches writeable rules req) with
  | None => None
  | Some lms =>
      if overlapping (map snd lms) then None else
      match matches all_rules rules g, matches readable rules g, matches writeable rules g with
      | [(sp, [])], [_], [_] =>
          match lits sp with
          | None => None
          | Some p =>
              match filter (fun m => path_eqb (fst m) p && path_eqb g (req ++ snd m)) lms,
                    filter (fun m => is_prefix p (fst m)) lms with
              | [m], [_] => match value_at (snd m) v with
                            | Some Null | None => None
                            | Some x => Some (strip x)
                            end
              | _, _ => None
              end
          end
      | _, _, _ => None
      end
  end.

Fixpoint readback_bad (rules : list rule) (i : nat) (req : path) (v : tree) (steps : list (op * obs)) : bool :=
  match steps with
  | (OGet j g, seen) :: r =>
      if Nat.eqb i j then
        (match expected_readback rules req v g, seen with
         | Some x, BVal s => negb (vres_eqb s (VOk x))
         | _, _ => false
         end) || readback_bad rules i req v r
      else false
  | _ => false
  end.

Fixpoint monitor (rules : list rule) (cur : bag) (tainted : list nat) (steps : list (op * obs)) : bool :=
  match steps with
  | [] => false
  | (o, seen) :: r =>
      let bad :=
        match o, seen with
        | OGet _ req, BVal (VOk _) => match matches readable rules req with [] => true | _ => false end
        | OSet i req v, BRes ROk =>
            match matches writeable rules req with
            | [] => true
            | _ => if existsb (Nat.eqb i) tainted || has_null v then false else readback_bad rules i req v r
            end
        | OUnset _ req, BRes ROk => match matches writeable rules req with [] => true | _ => false end
        | OCommit _, BBag false b => negb (bag_eqb b cur)
        | ONew, BBag _ b => negb (bag_eqb b cur)
        | _, _ => false
        end in
      let cur' := match o, seen with OCommit _, BBag true b => b | _, _ => cur end in
      let tainted' := match o, seen with
                      | OUnset i _, BRes ROk => i :: tainted
                      | OSet i _ v, BRes ROk => if has_null v then i :: tainted else tainted
                      | _, _ => tainted
                      end in
      bad || monitor rules cur' tainted' r
  end.

Definition monitor_fail (c : case) : bool :=
  match c with CHist rules steps => monitor rules [] [] steps end.
