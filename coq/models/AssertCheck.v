(* C18 — only correctly signed, currently valid assertions are accepted (asserts/database.go Database.Check / Add and
   the DefaultCheckers, asserts/account_key.go validity window and signing constraints). Executable model, no proofs.

   Scope: assertion types WITH an authority (the no-authority types account-key-request, serial-request,
   device-session-request verify against a key they carry themselves and are outside the property). Times are whole
   seconds (Z). Signature verification (RSA, SHA-512 over the content, OpenPGP packet parsing) is NOT modelled: it is the
   Section variable `verify`. Account-key constraints are restricted to literal header values (the real ones are
   regexps). CheckCrossConsistency is type specific and not modelled: the driver uses assertion types for which it is
   trivial (model, test-only). *)
From Coq Require Import List NArith ZArith Bool String.
Import ListNotations.
Require Import V.lib.Bytes.
Open Scope Z_scope.

(* an account-key assertion as the checkers see it *)
Record akey := mkKey {
  k_id : bytes;                                  (* public-key-sha3-384 *)
  k_account : bytes;                             (* account-id *)
  k_since : Z;
  k_until : option Z;                            (* None: until is the zero time *)
  k_constraints : option (list (list (bytes * bytes)))
                                                 (* the `constraints` header: None = no such header (unconstrained key);
                                                    Some cs = header present, one entry per listed constraint, each the
                                                    header = literal pairs of its `headers` map (incl. the mandatory
                                                    type), whether or not this snapd knows the type *)
}.

(* an assertion as Database.Check sees it *)
Record assertion := mkA {
  a_supported : bool;                            (* SupportedFormat() *)
  a_authority : bytes;                           (* authority-id *)
  a_sign_key : bytes;                            (* sign-key-sha3-384 *)
  a_timestamp : option Z;                        (* Timestamp() when the type has one *)
  a_headers : list (bytes * bytes);              (* the string-valued headers, incl. type *)
  a_content : bytes;                             (* the signed bytes *)
  a_sig : bytes;                                 (* the base64-decoded signature *)
  a_sig_core : bytes                             (* the fields of that OpenPGP signature packet that verification reads:
                                                    version, type, algorithms, hashed subpackets, hash tag, MPI bytes -
                                                    without the packet header (form, declared length), the UNHASHED
                                                    subpacket area and the MPI bit-length field (driver projection) *)
}.

Fixpoint assoc (k : bytes) (m : list (bytes * bytes)) : option bytes :=
  match m with
  | [] => None
  | (k', v) :: r => if beq k k' then Some v else assoc k r
  end.

(* sinceUntil.isValidAt: since inclusive, until exclusive *)
Definition valid_at (k : akey) (t : Z) : bool :=
  (k_since k <=? t) && match k_until k with None => true | Some u => t <? u end.

(* sinceUntil.isValidAssumingCurTimeWithin(earliest, latest); latest = None is the zero time *)
Definition valid_assuming (k : akey) (earliest : Z) (latest : option Z) : bool :=
  match latest with
  | Some l => negb (l <? earliest) && negb (l <? k_since k)
  | None => true
  end
  && match k_until k with Some u => negb (u <=? earliest) | None => true end.

(* checkAKConstraints: EVERY entry of the constraints header becomes one matcher - an entry naming an assertion type this
   snapd does not know is kept (it matches nothing of ours), never dropped; an entry must name a type *)
Definition constraint_wf (c : list (bytes * bytes)) : bool :=
  match assoc (bs "type") c with Some _ => true | None => false end.
Definition compile_constraints (hdr : option (list (list (bytes * bytes)))) : option (list (list (bytes * bytes))) := hdr.
Definition key_wf (k : akey) : bool :=
  match k_constraints k with None => true | Some cs => negb (is_nil_b cs) && forallb constraint_wf cs end.

(* AccountKey.canSign -> matchAgainstConstraints: no constraints header = everything may be signed; with a constraints
   header the assertion must match one of the compiled entries (zero usable entries = nothing may be signed) *)
Definition constraint_ok (hs : list (bytes * bytes)) (c : list (bytes * bytes)) : bool :=
  forallb (fun hv => match assoc (fst hv) hs with Some x => beq x (snd hv) | None => false end) c.
Definition can_sign (k : akey) (a : assertion) : bool :=
  match compile_constraints (k_constraints k) with
  | None => true
  | Some cs => existsb (constraint_ok (a_headers a)) cs
  end.

(* Database.findAccountKey: the backstores are consulted in order - trusted, predefined, the database's own backstore,
   then (for a WithStackedBackstore database) the backstores it is stacked on; a backstore holds at most one revision
   of an account-key (primary key = key id). The FIRST layer that holds the key id decides; later layers are not read. *)
Definition has_id (kid : bytes) (k : akey) : bool := beq (k_id k) kid.
Fixpoint find_key (layers : list (list akey)) (kid : bytes) : option akey :=
  match layers with
  | [] => None
  | l :: rest => match find (has_id kid) l with Some k => Some k | None => find_key rest kid end
  end.

Section Check.
  (* pubKey.verify(content, signature) for the public key with this id *)
  Variable verify : bytes -> bytes -> bytes -> bool.

  (* Database.Check with DefaultCheckers: CheckSigningKeyIsNotExpired, CheckSignature (authority, constraints, verify),
     CheckTimestampVsSigningKeyValidity. true = accepted. *)
  Definition check (layers : list (list akey)) (earliest : Z) (latest : option Z) (a : assertion) : bool :=
    a_supported a &&
    match find_key layers (a_sign_key a) with
    | None => false
    | Some k =>
        beq (k_account k) (a_authority a)
        && valid_assuming k earliest latest
        && can_sign k a
        && verify (k_id k) (a_content a) (a_sig_core a)
        && match a_timestamp a with Some t => valid_at k t | None => true end
    end.

  (* earliestTime zero: both bounds are the current time *)
  Definition check_now (layers : list (list akey)) (now : Z) (a : assertion) : bool :=
    check layers now (Some now) a.
End Check.

(* ------------------------------------------------------------------ correspondence / monitor interface *)
(* the idealised signature relative to what the signer really signed: only (key, content, signature) verifies *)
Definition ideal_verify (signed : bytes * bytes * bytes) (kid content sig : bytes) : bool :=
  match signed with (k0, c0, s0) => beq kid k0 && beq content c0 && beq sig s0 end.

(* clock: CNow t = MockTimeNow(t), earliestTime zero; CEarliest t = SetEarliestTime(t) *)
Inductive clock := CNow (t : Z) | CEarliest (t : Z).
Definition clock_earliest (c : clock) : Z := match c with CNow t => t | CEarliest t => t end.
Definition clock_latest (c : clock) : option Z := match c with CNow t => Some t | CEarliest _ => None end.

(* decoded = the (possibly mutated) encoded assertion still decodes; a = what it decodes to (ignored otherwise);
   signed = key id, content and signature core of the assertion as the signer produced it; sig0 = its decoded signature;
   accepted = Database.Check returned nil; added = Database.Add returned nil and Find then returns the same content *)
Inductive case :=
| CCheck (layers : list (list akey)) (c : clock) (decoded : bool) (a : assertion) (signed : bytes * bytes * bytes)
         (sig0 : bytes) (accepted added : bool).

Definition model_accept (x : case) : bool :=
  match x with
  | CCheck layers c decoded a signed _ _ _ =>
      decoded && check (ideal_verify signed) layers (clock_earliest c) (clock_latest c) a
  end.

Definition mismatch (x : case) : bool :=
  match x with
  | CCheck _ _ _ _ _ _ accepted added => negb (Bool.eqb (model_accept x) accepted) || negb (Bool.eqb accepted added)
  end.

(* The property on the observed behaviour, written without `check`/`find_key`: an accepted assertion decodes, is
   byte-for-byte (content and decoded signature) what the signer signed, and THE key the database has to use for the
   sign-key id - the first one in layer order (all layers flattened in order; a later layer may still hold an older,
   still valid revision of the same key, which must not be used) - belongs to the declared authority, is valid for
   the clock (and at the timestamp) and its constraints admit the assertion. Nothing is added that was not accepted. *)
Definition key_admits (c : clock) (a : assertion) (k : akey) : bool :=
  beq (k_account k) (a_authority a)
  && match c with
     | CNow t => valid_at k t
     | CEarliest t => match k_until k with Some u => t <? u | None => true end
     end
  && match a_timestamp a with Some t => valid_at k t | None => true end
  && match k_constraints k with
     | None => true
     | Some cs =>      (* some LISTED constraint names the assertion's own type and all its header pairs hold *)
         existsb (fun c => match assoc (bs "type") c, assoc (bs "type") (a_headers a) with
                           | Some t, Some t' => beq t t' && constraint_ok (a_headers a) c
                           | _, _ => false
                           end) cs
     end.

Definition deciding_key (layers : list (list akey)) (kid : bytes) : option akey :=
  find (fun k => beq kid (k_id k)) (List.concat layers).

Definition monitor_fail (x : case) : bool :=
  match x with
  | CCheck layers c decoded a (k0, c0, _) s0 accepted added =>
      (accepted && negb (decoded && a_supported a && beq (a_sign_key a) k0 && beq (a_content a) c0 && beq (a_sig a) s0
                         && match deciding_key layers (a_sign_key a) with Some k => key_admits c a k | None => false end))
      || (added && negb accepted)
  end.
