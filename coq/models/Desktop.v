(* C27 — generated desktop files cannot launch anything but the snap's own apps.
   Model of wrappers/desktop.go, function by function: isValidDesktopFileLine (the alternatives come from
   gen/DesktopRegexes.v), rewriteExecLine, rewriteIconLine, sanitizeDesktopFile; snap.JoinSnapApp / InstanceName /
   AppInfo.WrapperPath (snap/info.go). bufio.Scanner + ScanLines is modelled by split_lines/drop_cr (the 64 KiB token
   limit is not modelled). quoteExecArg and the per-file part of deriveDesktopFilesContent (glob suffix, control-character
   skip, installed name) are modelled too. No proofs in this file. *)
From Coq Require Import List NArith Bool.
Import ListNotations.
Require Import V.lib.Bytes V.lib.Regex V.gen.DesktopRegexes.
Open Scope N_scope.

(* what the sanitizer reads from snap.Info and dirs *)
Record dinfo := mkInfo {
  d_snap : bytes;           (* s.SnapName() *)
  d_key : bytes;            (* s.InstanceKey *)
  d_apps : list bytes;      (* names of s.Apps *)
  d_bindir : bytes;         (* dirs.SnapBinariesDir *)
  d_mount : bytes           (* s.MountDir() *)
}.

(* ------------------------------------------------------------------------------------------ string helpers *)
Fixpoint split_first (c : N) (s : bytes) : option (bytes * bytes) :=
  match s with
  | [] => None
  | x :: r => if x =? c then Some ([], r)
              else match split_first c r with Some (a, b) => Some (x :: a, b) | None => None end
  end.

(* strings.SplitN(line, "=", 2)[1] for a line that contains = *)
Definition after_eq (line : bytes) : bytes := match split_first 61 line with Some (_, v) => v | None => [] end.

(* filepath.Base for a non-empty path that does not end in a slash *)
Definition base (p : bytes) : bytes := match split_last 47 p with Some (_, b) => b | None => p end.
(* strings.TrimSuffix(df, filepath.Ext(df)) *)
Definition trim_ext (df : bytes) : bytes := match split_last 46 df with Some (a, _) => a | None => df end.

Fixpoint split_all (c : N) (s : bytes) : list bytes :=
  match s with
  | [] => [[]]
  | x :: r => if x =? c then [] :: split_all c r
              else match split_all c r with h :: t => (x :: h) :: t | [] => [[x]] end
  end.

(* bytes.Replace(line, old, new, -1) for a non-empty old: left to right, non-overlapping. `skip` counts the bytes
   of a matched occurrence still to be passed over *)
Fixpoint replace_all (old new : bytes) (skip : nat) (s : bytes) : bytes :=
  match s with
  | [] => []
  | c :: r =>
      match skip with
      | S k => replace_all old new k r
      | O => if has_prefix old s then new ++ replace_all old new (length old - 1) r
             else c :: replace_all old new 0 r
      end
  end.

Definition lit_snapvar : bytes := [36; 123; 83; 78; 65; 80; 125].            (* ${SNAP} *)
Definition subst_snap (mount line : bytes) : bytes := replace_all lit_snapvar mount 0 line.

(* snap.InstanceName, snap.JoinSnapApp (snap/info.go) *)
Definition instance_name (snap key : bytes) : bytes := if is_nil_b key then snap else snap ++ [95] ++ key.
Definition join_snap_app (snap key app : bytes) : bytes :=
  if beq snap app then instance_name app key else instance_name snap key ++ [46] ++ app.
(* AppInfo.WrapperPath *)
Definition wrapper (i : dinfo) (app : bytes) : bytes := d_bindir i ++ [47] ++ join_snap_app (d_snap i) (d_key i) app.

(* ------------------------------------------------------------------------------------------ isValidDesktopFileLine *)
Definition valid_line (line : bytes) : bool := existsb (fun r => rmatch r line) valid_line_alts.

(* ------------------------------------------------------------------------------------------ rewriteExecLine *)
Definition lit_exec : bytes := [69; 120; 101; 99; 61].                       (* Exec= *)
Definition lit_icon : bytes := [73; 99; 111; 110; 61].                       (* Icon= *)
Definition lit_env : bytes := [101; 110; 118; 32].                             (* env followed by a space *)
Definition lit_hint : bytes :=                                               (* BAMF_DESKTOP_FILE_HINT= *)
  [66;65;77;70;95;68;69;83;75;84;79;80;95;70;73;76;69;95;72;73;78;84;61].

(* quoteExecArg: % doubled; if a reserved byte occurs, the argument is put in double quotes with a backslash in front
   of the four bytes double-quote, backquote, dollar, backslash *)
Definition pdouble (a : bytes) : bytes := flat_map (fun c => if c =? 37 then [37; 37] else [c]) a.
Definition reserved : bytes :=                 (* space tab newline dquote quote backslash > < ~ | & ; $ * ? # ( ) backquote *)
  [32; 9; 10; 34; 39; 92; 62; 60; 126; 124; 38; 59; 36; 42; 63; 35; 40; 41; 96].
Definition is_reserved (c : N) : bool := existsb (N.eqb c) reserved.
Definition esc (c : N) : bytes :=
  if (c =? 34) || (c =? 96) || (c =? 36) || (c =? 92) then [92; c] else [c].
Definition esc_all (a : bytes) : bytes := flat_map esc a.
Definition quote_exec_arg (arg : bytes) : bytes :=
  let a := pdouble arg in
  if negb (existsb is_reserved a) then a else [34] ++ esc_all a ++ [34].

Definition exec_env (df : bytes) : bytes := lit_env ++ quote_exec_arg (lit_hint ++ df) ++ [32].

Definition valid_cmd (i : dinfo) (app : bytes) : bytes :=
  if is_nil_b (d_key i) then base (wrapper i app) else join_snap_app (d_snap i) [] app.

(* the loop over s.Apps: first app whose command matches *)
Fixpoint exec_loop (i : dinfo) (df line cmd : bytes) (apps : list bytes) : option bytes :=
  match apps with
  | [] => None
  | app :: rest =>
      let vc := valid_cmd i app in
      if beq cmd vc then Some (lit_exec ++ exec_env df ++ wrapper i app)
      else if has_prefix (vc ++ [32]) cmd
      then Some (lit_exec ++ exec_env df ++ wrapper i app ++ skipn (length lit_exec + length vc) line)
      else exec_loop i df line cmd rest
  end.

Definition rewrite_exec (i : dinfo) (df line : bytes) : option bytes :=
  match exec_loop i df line (after_eq line) (d_apps i) with
  | Some l => Some l
  | None =>
      let app := trim_ext (base df) in
      if existsb (beq app) (d_apps i) then Some (lit_exec ++ exec_env df ++ wrapper i app) else None
  end.

(* ------------------------------------------------------------------------------------------ rewriteIconLine *)
Definition lit_snapdir : bytes := lit_snapvar ++ [47].                        (* ${SNAP}/ *)
Definition lit_snapdot : bytes := [115; 110; 97; 112; 46].                   (* snap. *)
Definition seg_ok (seg : bytes) : bool := negb (is_nil_b seg) && negb (beq seg [46]) && negb (beq seg [46; 46]).
(* filepath.Clean(icon) == icon, for a relative path whose first element is not .. *)
Definition clean_same (icon : bytes) : bool := forallb seg_ok (split_all 47 icon).

Definition rewrite_icon (i : dinfo) (line : bytes) : option bytes :=
  let icon := after_eq line in
  if existsb (N.eqb 47) icon then
    if negb (has_prefix lit_snapdir icon) then None
    else if negb (clean_same icon) then None
    else Some line
  else
    let pre := lit_snapdot ++ d_snap i ++ [46] in
    if has_prefix pre icon
    then Some (lit_icon ++ lit_snapdot ++ instance_name (d_snap i) (d_key i) ++ [46] ++ skipn (length pre) icon)
    else if has_prefix lit_snapdot icon then None
    else Some line.

(* ------------------------------------------------------------------------------------------ sanitizeDesktopFile *)
Fixpoint split_lines (s : bytes) : list bytes :=
  match s with
  | [] => []
  | c :: r =>
      if c =? 10 then [] :: split_lines r
      else match r with
           | [] => [[c]]
           | _ => match split_lines r with l :: t => (c :: l) :: t | [] => [[c]] end
           end
  end.

Fixpoint drop_cr (l : bytes) : bytes :=
  match l with
  | [] => []
  | c :: r => match r with [] => if c =? 13 then [] else [c] | _ => c :: drop_cr r end
  end.

Definition lit_desktop_entry : bytes := [91;68;101;115;107;116;111;112;32;69;110;116;114;121;93].   (* [Desktop Entry] *)
Definition lit_xsnap : bytes := [88;45;83;110;97;112;73;110;115;116;97;110;99;101;78;97;109;101;61]. (* X-SnapInstanceName= *)

(* one round of the scanner loop up to (not including) the ${SNAP} substitution: None = line dropped *)
Definition process_line (i : dinfo) (df line : bytes) : option bytes :=
  if negb (valid_line line) then None
  else
    match (if has_prefix lit_exec line then rewrite_exec i df line else Some line) with
    | None => None
    | Some l1 => if has_prefix lit_icon l1 then rewrite_icon i l1 else Some l1
    end.

Definition xsnap_line (i : dinfo) : bytes := lit_xsnap ++ instance_name (d_snap i) (d_key i).

Definition emit (i : dinfo) (df line : bytes) : list bytes :=
  match process_line i df line with
  | None => []
  | Some b =>
      let out := subst_snap (d_mount i) b in
      if beq out lit_desktop_entry then [out; xsnap_line i] else [out]
  end.

Definition sanitize_lines (i : dinfo) (df : bytes) (lines : list bytes) : list bytes := flat_map (emit i df) lines.

Definition sanitize (i : dinfo) (df content : bytes) : bytes :=
  flat_map (fun l => l ++ [10]) (sanitize_lines i df (map drop_cr (split_lines content))).

(* ------------------------------------------------------------------------------------------ how the line is launched *)
(* Desktop Entry specification, "The Exec key": arguments are separated by spaces; an argument that starts with a
   double quote runs to the closing double quote, and inside it a backslash makes the next byte literal; %% stands for
   a literal percent sign. twords splits the value into arguments (quotes removed, escapes resolved). Then env(1): skip
   NAME=VALUE words; the first other word is the program. *)
Inductive tst := TSpace | TWord | TQuote | TQuoteEsc.

Fixpoint twords (st : tst) (acc : bytes) (s : bytes) : list bytes :=
  match s with
  | [] => match st with TSpace => [] | _ => [rev acc] end
  | c :: r =>
      match st with
      | TSpace => if c =? 32 then twords TSpace [] r
                  else if c =? 34 then twords TQuote [] r
                  else twords TWord [c] r
      | TWord => if c =? 32 then rev acc :: twords TSpace [] r else twords TWord (c :: acc) r
      | TQuote => if c =? 34 then rev acc :: twords TSpace [] r
                  else if c =? 92 then twords TQuoteEsc acc r
                  else twords TQuote (c :: acc) r
      | TQuoteEsc => twords TQuote (c :: acc) r
      end
  end.

Fixpoint unpercent (w : bytes) : bytes :=
  match w with
  | c :: r => match r with
              | d :: r' => if (c =? 37) && (d =? 37) then 37 :: unpercent r' else c :: unpercent r
              | [] => [c]
              end
  | [] => []
  end.

Definition is_assignment (w : bytes) : bool := existsb (N.eqb 61) w.
Fixpoint env_program (ws : list bytes) : option bytes :=
  match ws with
  | [] => None
  | w :: r => if is_assignment w then env_program r else Some w
  end.
(* the program that runs when the desktop environment launches an Exec= line *)
Definition launched (exec_line : bytes) : option bytes :=
  match twords TSpace [] (after_eq exec_line) with
  | w :: r => option_map unpercent (if beq w [101; 110; 118] then env_program r else Some w)
  | [] => None
  end.

(* ------------------------------------------------------------------------------------------ the allowlist, pinned *)
(* SPECIFICATION copy of the allowlist (blank lines, comments, the three kinds of group header, the Desktop Entry keys
   snapd lets through), as it stood when this check was written. The model above uses the REGENERATED list; the monitor
   below judges the implementation's output against this pinned list, so a key added to the source shows up as a
   concrete failing input, and proofs/DesktopProofs.v proves regenerated = pinned. *)
Definition spec_line_alts : list regex := [
  (* "^\\s*$" *)
  (Star (Cls [(9,10);(12,13);(32,32)]));
  (* "^\\s*#" *)
  (search_r (Cat (Star (Cls [(9,10);(12,13);(32,32)])) (Lit [35])));
  (* "^\\[Desktop Entry\\]$" *)
  (Lit [91;68;101;115;107;116;111;112;32;69;110;116;114;121;93]);
  (* "^\\[Desktop Action [0-9A-Za-z-]+\\]$" *)
  (Cat (Lit [91;68;101;115;107;116;111;112;32;65;99;116;105;111;110;32]) (Cat (Plus (Cls [(45,45);(48,57);(65,90);(97,122)])) (Lit [93])));
  (* "^\\[[A-Za-z0-9-]+ Shortcut Group\\]$" *)
  (Cat (Lit [91]) (Cat (Plus (Cls [(45,45);(48,57);(65,90);(97,122)])) (Lit [32;83;104;111;114;116;99;117;116;32;71;114;111;117;112;93])));
  (* "^Type=" *)
  (search_r (Lit [84;121;112;101;61]));
  (* "^Version=" *)
  (search_r (Lit [86;101;114;115;105;111;110;61]));
  (* "^Name(?:\\[[a-z]+(?:_[A-Z]+)?(?:\\.[0-9A-Z-]+)?(?:@[a-z]+)?\\])?=" *)
  (search_r (Cat (Lit [78;97;109;101]) (Cat (Opt (Cat (Lit [91]) (Cat (Plus (Cls [(97,122)])) (Cat (Opt (Cat (Lit [95]) (Plus (Cls [(65,90)])))) (Cat (Opt (Cat (Lit [46]) (Plus (Cls [(45,45);(48,57);(65,90)])))) (Cat (Opt (Cat (Lit [64]) (Plus (Cls [(97,122)])))) (Lit [93]))))))) (Lit [61]))));
  (* "^GenericName(?:\\[[a-z]+(?:_[A-Z]+)?(?:\\.[0-9A-Z-]+)?(?:@[a-z]+)?\\])?=" *)
  (search_r (Cat (Lit [71;101;110;101;114;105;99;78;97;109;101]) (Cat (Opt (Cat (Lit [91]) (Cat (Plus (Cls [(97,122)])) (Cat (Opt (Cat (Lit [95]) (Plus (Cls [(65,90)])))) (Cat (Opt (Cat (Lit [46]) (Plus (Cls [(45,45);(48,57);(65,90)])))) (Cat (Opt (Cat (Lit [64]) (Plus (Cls [(97,122)])))) (Lit [93]))))))) (Lit [61]))));
  (* "^NoDisplay=" *)
  (search_r (Lit [78;111;68;105;115;112;108;97;121;61]));
  (* "^Comment(?:\\[[a-z]+(?:_[A-Z]+)?(?:\\.[0-9A-Z-]+)?(?:@[a-z]+)?\\])?=" *)
  (search_r (Cat (Lit [67;111;109;109;101;110;116]) (Cat (Opt (Cat (Lit [91]) (Cat (Plus (Cls [(97,122)])) (Cat (Opt (Cat (Lit [95]) (Plus (Cls [(65,90)])))) (Cat (Opt (Cat (Lit [46]) (Plus (Cls [(45,45);(48,57);(65,90)])))) (Cat (Opt (Cat (Lit [64]) (Plus (Cls [(97,122)])))) (Lit [93]))))))) (Lit [61]))));
  (* "^Icon=" *)
  (search_r (Lit [73;99;111;110;61]));
  (* "^Hidden=" *)
  (search_r (Lit [72;105;100;100;101;110;61]));
  (* "^OnlyShowIn=" *)
  (search_r (Lit [79;110;108;121;83;104;111;119;73;110;61]));
  (* "^NotShowIn=" *)
  (search_r (Lit [78;111;116;83;104;111;119;73;110;61]));
  (* "^Exec=" *)
  (search_r (Lit [69;120;101;99;61]));
  (* "^Terminal=" *)
  (search_r (Lit [84;101;114;109;105;110;97;108;61]));
  (* "^Actions=" *)
  (search_r (Lit [65;99;116;105;111;110;115;61]));
  (* "^MimeType=" *)
  (search_r (Lit [77;105;109;101;84;121;112;101;61]));
  (* "^Categories=" *)
  (search_r (Lit [67;97;116;101;103;111;114;105;101;115;61]));
  (* "^Keywords(?:\\[[a-z]+(?:_[A-Z]+)?(?:\\.[0-9A-Z-]+)?(?:@[a-z]+)?\\])?=" *)
  (search_r (Cat (Lit [75;101;121;119;111;114;100;115]) (Cat (Opt (Cat (Lit [91]) (Cat (Plus (Cls [(97,122)])) (Cat (Opt (Cat (Lit [95]) (Plus (Cls [(65,90)])))) (Cat (Opt (Cat (Lit [46]) (Plus (Cls [(45,45);(48,57);(65,90)])))) (Cat (Opt (Cat (Lit [64]) (Plus (Cls [(97,122)])))) (Lit [93]))))))) (Lit [61]))));
  (* "^StartupNotify=" *)
  (search_r (Lit [83;116;97;114;116;117;112;78;111;116;105;102;121;61]));
  (* "^StartupWMClass=" *)
  (search_r (Lit [83;116;97;114;116;117;112;87;77;67;108;97;115;115;61]));
  (* "^PrefersNonDefaultGPU=" *)
  (search_r (Lit [80;114;101;102;101;114;115;78;111;110;68;101;102;97;117;108;116;71;80;85;61]));
  (* "^SingleMainWindow=" *)
  (search_r (Lit [83;105;110;103;108;101;77;97;105;110;87;105;110;100;111;119;61]));
  (* "^X-Ayatana-Desktop-Shortcuts=" *)
  (search_r (Lit [88;45;65;121;97;116;97;110;97;45;68;101;115;107;116;111;112;45;83;104;111;114;116;99;117;116;115;61]));
  (* "^TargetEnvironment=" *)
  (search_r (Lit [84;97;114;103;101;116;69;110;118;105;114;111;110;109;101;110;116;61]))
].

Definition spec_valid_line (line : bytes) : bool := existsb (fun r => rmatch r line) spec_line_alts.

(* ------------------------------------------------------------------------------------------ correspondence *)
(* deriveDesktopFilesContent for one file of meta/gui: only names matching the glob *.desktop are read; a name with a
   control character (unicode.IsControl: U+0000-001F, U+007F-009F, the latter also as the UTF-8 pairs C2 80..C2 9F) is
   skipped; the installed name is <dir>/<DesktopPrefix>_<name> *)
Fixpoint has_control (s : bytes) : bool :=
  match s with
  | [] => false
  | c :: r => (c <? 32) || (c =? 127) ||
              (match r with d :: _ => (c =? 194) && (128 <=? d) && (d <=? 159) | [] => false end) || has_control r
  end.
Definition lit_dot_desktop : bytes := [46;100;101;115;107;116;111;112].      (* .desktop *)
Definition has_suffix (suf s : bytes) : bool := has_prefix (rev suf) (rev s).
Definition desktop_prefix (i : dinfo) : bytes := if is_nil_b (d_key i) then d_snap i else d_snap i ++ [43] ++ d_key i.
Definition installed_name (i : dinfo) (dir file : bytes) : bytes := dir ++ [47] ++ desktop_prefix i ++ [95] ++ file.
Definition derive_one (i : dinfo) (dir file content : bytes) : option bytes :=
  if negb (has_suffix lit_dot_desktop file) then None
  else if has_control file then None
  else Some (sanitize i (installed_name i dir file) content).

(* observed: what deriveDesktopFilesContent produced for the file (None: no entry for it) *)
Inductive case := Case (i : dinfo) (dir file content : bytes) (out : option bytes).

Definition mismatch (c : case) : bool :=
  match c with
  | Case i dir file content out =>
      negb (match derive_one i dir file content, out with
            | Some a, Some b => beq a b
            | None, None => true
            | _, _ => false
            end)
  end.

(* monitor on the observed output only: every output line is allowlisted (the pinned specification list) or
   the instance line; every Exec= line starts with Exec=env and, as launched (quoting-aware), runs the wrapper
   of one of the snap's apps; a [Desktop Entry] line is followed by the instance line *)
Definition exec_ok (i : dinfo) (l : bytes) : bool :=
  has_prefix (lit_exec ++ lit_env) l &&
  existsb (fun app => match launched l with Some prog => beq prog (wrapper i app) | None => false end) (d_apps i).

Fixpoint tagged_ok (i : dinfo) (ls : list bytes) : bool :=
  match ls with
  | [] => true
  | l :: r => (if beq l lit_desktop_entry then match r with x :: _ => beq x (xsnap_line i) | [] => false end else true)
              && tagged_ok i r
  end.

Definition monitor_fail (c : case) : bool :=
  match c with
  | Case i dir file content None => false
  | Case i dir file content (Some out) =>
      let ls := split_lines out in
      negb (forallb (fun l => (spec_valid_line l || beq l (xsnap_line i)) &&
                              (if has_prefix lit_exec l then exec_ok i l else true)) ls
            && tagged_ok i ls)
  end.
