(* C24 — all components agree on which snap, instance, component and tag names are valid.

   Hand models, written function by function, of
     Go   snap/naming/validate.go  isValidName, ValidateSnap, ValidateInstance, ValidateApp, ValidateHook
          snap/naming/componentref.go  SplitFullComponentName + ComponentRef.Validate
          snap/naming/tag.go  ParseSecurityTag;   snap/info.go  AppSecurityTag / HookSecurityTag / ComponentHookSecurityTag
     C    cmd/libsnap-confine-private/snap.c  validate_as_snap_or_component_name (= sc_snap_name_validate),
          sc_instance_key_validate, sc_instance_name_validate, sc_snap_component_validate (snap_instance = NULL),
          sc_security_tag_validate
     C    cmd/snap-update-ns/bootstrap.c  validate_snap_name, instance_key_validate, validate_instance_name
   The regular expressions and every length limit come from gen/NamingRegexes.v (regenerated from the sources).
   A C string is a byte list without NUL; end of list plays the role of the terminator.
   No proofs in this file. *)
From Coq Require Import List NArith Bool Arith.
Import ListNotations.
Require Import V.lib.Bytes V.lib.Regex V.gen.NamingRegexes.
Open Scope N_scope.

(* ------------------------------------------------------------------------------------------ helpers *)
Definition hd_is (c : N) (s : bytes) : bool := match s with x :: _ => x =? c | [] => false end.

Fixpoint last_is (c : N) (s : bytes) : bool :=
  match s with
  | [] => false
  | x :: r => match r with [] => x =? c | _ => last_is c r end
  end.

(* strings.Contains(s, "ab") for a two-byte needle *)
Fixpoint contains2 (a b : N) (s : bytes) : bool :=
  match s with
  | x :: r => (match r with y :: _ => (x =? a) && (y =? b) | [] => false end) || contains2 a b r
  | [] => false
  end.

(* strings.IndexByte / strings.Cut / strchr: split at the first c *)
Fixpoint split_first (c : N) (s : bytes) : option (bytes * bytes) :=
  match s with
  | [] => None
  | x :: r =>
      if x =? c then Some ([], r)
      else match split_first c r with Some (a, b) => Some (x :: a, b) | None => None end
  end.

(* strings.Split(s, "c") *)
Fixpoint split_all (c : N) (s : bytes) : list bytes :=
  match s with
  | [] => [[]]
  | x :: r =>
      if x =? c then [] :: split_all c r
      else match split_all c r with h :: t => (x :: h) :: t | [] => [[x]] end
  end.

(* strings.SplitN(s, "c", n) for n > 0 *)
Fixpoint splitn (n : nat) (c : N) (s : bytes) : list bytes :=
  match n with
  | O => []
  | S n' =>
      match n' with
      | O => [s]
      | S _ => match split_first c s with None => [s] | Some (a, b) => a :: splitn n' c b end
      end
  end.

(* ------------------------------------------------------------------------------------------ Go: snap/naming *)
(* isValidName *)
Definition go_is_valid_name (name : bytes) : bool :=
  if negb (rmatch almost_valid_name name) then false
  else if hd_is 45 name || last_is 45 name || contains2 45 45 name then false
  else true.

(* ValidateSnap *)
Definition go_validate_snap (name : bytes) : bool :=
  if (length name <? go_snap_min_len)%nat || (go_snap_max_len <? length name)%nat || negb (go_is_valid_name name)
  then false else true.

(* ValidateInstance *)
Definition go_validate_instance (s : bytes) : bool :=
  match split_first 95 s with
  | None => go_validate_snap s
  | Some (store, key) =>
      if negb (go_validate_snap store) then false
      else rmatch valid_instance_key key
  end.

Definition go_validate_app (n : bytes) : bool := rmatch valid_app n.
Definition go_validate_hook (n : bytes) : bool := rmatch valid_hook n.

(* ValidatePlug, ValidateSlot, ValidateInterface: one expression *)
Definition go_validate_plug (n : bytes) : bool := rmatch valid_plug_slot_iface n.
Definition go_validate_slot (n : bytes) : bool := rmatch valid_plug_slot_iface n.
Definition go_validate_interface (n : bytes) : bool := rmatch valid_plug_slot_iface n.
(* ValidateAlias, ValidateSnapID *)
Definition go_validate_alias (n : bytes) : bool := rmatch valid_alias n.
Definition go_validate_snap_id (n : bytes) : bool := rmatch valid_snap_id n.
(* ValidateSocket, ValidateIfaceTag: isValidName without a length test *)
Definition go_validate_socket (n : bytes) : bool := go_is_valid_name n.
Definition go_validate_iface_tag (n : bytes) : bool := go_is_valid_name n.
(* ValidateQuotaGroup: empty test, length test, validQuotaGroupName (= almostValidName), the three dash tests *)
Definition go_validate_quota_group (grp : bytes) : bool :=
  if is_nil_b grp then false
  else if (length grp <? go_quota_min_len)%nat || (go_quota_max_len <? length grp)%nat then false
  else if negb (rmatch almost_valid_name grp) then false
  else if hd_is 45 grp || last_is 45 grp || contains2 45 45 grp then false
  else true.
(* ValidateProvenance *)
Definition go_validate_provenance (p : bytes) : bool :=
  if is_nil_b p then false else rmatch valid_provenance p.

(* SplitFullComponentName followed by ComponentRef.Validate *)
Definition go_validate_component (full : bytes) : bool :=
  match split_all 43 full with
  | [a; b] => if negb (go_validate_snap a) then false else go_validate_snap b
  | _ => false
  end.

(* ParseSecurityTag: Some (instance name, component name, is-hook, app or hook name) *)
Definition lit_snap : bytes := [115; 110; 97; 112].       (* snap *)
Definition lit_hook : bytes := [104; 111; 111; 107].      (* hook *)

Definition parsed := (bytes * option bytes * bool * bytes)%type.

Definition go_parse_security_tag (tag : bytes) : option parsed :=
  match splitn 5 46 tag with
  | p0 :: p1 :: rest =>
      if negb ((length rest =? 1)%nat || (length rest =? 2)%nat) then None
      else if negb (beq p0 lit_snap) then None
      else
        let '(snap_name, comp) :=
          match split_first 43 p1 with Some (a, b) => (a, Some b) | None => (p1, None) end in
        if negb (go_validate_instance snap_name) then None
        else if match comp with Some c => negb (go_validate_snap c) | None => false end then None
        else match rest with
             | [app] =>
                 match comp with
                 | Some _ => None
                 | None => if negb (go_validate_app app) then None else Some (snap_name, None, false, app)
                 end
             | [hook_lit; hook] =>
                 if negb (beq hook_lit lit_hook) then None
                 else if negb (go_validate_hook hook) then None
                 else Some (snap_name, comp, true, hook)
             | _ => None
             end
  | _ => None
  end.

(* snap/info.go: AppSecurityTag, HookSecurityTag, ComponentHookSecurityTag *)
Definition go_app_tag (inst app : bytes) : bytes := lit_snap ++ [46] ++ inst ++ [46] ++ app.
Definition go_hook_tag (inst : bytes) (comp : option bytes) (hook : bytes) : bytes :=
  lit_snap ++ [46] ++ (match comp with Some c => inst ++ [43] ++ c | None => inst end) ++ [46] ++ lit_hook ++ [46] ++ hook.

(* ------------------------------------------------------------------------------------------ C: the scanners *)
Definition c_lower (c : N) : bool := (97 <=? c) && (c <=? 122).    (* *c >= 'a' && *c <= 'z' *)
Definition c_digit (c : N) : bool := (48 <=? c) && (c <=? 57).     (* *c >= '0' && *c <= '9' *)

Inductive loop_res := LoopFuel | LoopErr | LoopEnd (n : nat) (got_letter : bool).

(* the while loop of validate_as_snap_or_component_name (snap.c): skip_lowercase_letters, skip_digits,
   skip_one_char('-') followed by the end-of-string and second-dash tests. Every round consumes at least one
   byte, so fuel = length + 1 is enough (proved). *)
Fixpoint sc_name_loop (fuel : nat) (p : bytes) (n : nat) (got : bool) : loop_res :=
  match fuel with
  | O => LoopFuel
  | S f =>
      match p with
      | [] => LoopEnd n got
      | c :: p' =>
          let (ls, p1) := span c_lower p in
          if negb (is_nil_b ls) then sc_name_loop f p1 (n + length ls) true
          else
            let (ds, p2) := span c_digit p in
            if negb (is_nil_b ds) then sc_name_loop f p2 (n + length ds) got
            else if c =? 45 then
              match p' with
              | [] => LoopErr                                   (* cannot end with a dash *)
              | d :: _ => if d =? 45 then LoopErr                (* two consecutive dashes *)
                          else sc_name_loop f p' (n + 1) got
              end
            else LoopErr
      end
  end.

(* validate_as_snap_or_component_name = sc_snap_name_validate *)
Definition sc_snap_name_validate (name : bytes) : bool :=
  if hd_is 45 name then false
  else match sc_name_loop (S (length name)) name 0 false with
       | LoopEnd n got =>
           if negb got then false
           else if (n <? sc_name_min)%nat then false
           else if (sc_snap_name_len <? n)%nat then false
           else true
       | _ => false
       end.

(* the for loop of sc_instance_key_validate: islower || isdigit in the C locale *)
Fixpoint sc_key_loop (k : bytes) (i : nat) : option nat :=
  match k with
  | [] => Some i
  | c :: r => if c_lower c || c_digit c then sc_key_loop r (S i) else None
  end.

Definition sc_instance_key_validate (k : bytes) : bool :=
  match sc_key_loop k 0 with
  | None => false
  | Some i => if (i =? 0)%nat then false else if (sc_instance_key_len <? i)%nat then false else true
  end.

(* strsep(&t, "c"): (token, new value of t) *)
Definition strsep (c : N) (t : option bytes) : option bytes * option bytes :=
  match t with
  | None => (None, None)
  | Some s => match split_first c s with Some (a, b) => (Some a, Some b) | None => (Some s, None) end
  end.

(* sc_instance_name_validate: the strlen test, then strncpy into s[SNAP_INSTANCE_LEN + 2] and three strsep calls *)
Definition sc_instance_name_validate (name : bytes) : bool :=
  if (sc_instance_len <? length name)%nat then false
  else
    let s := firstn (sc_instance_len + 1) name in
    let (snap_name, t1) := strsep 95 (Some s) in
    let (key, t2) := strsep 95 t1 in
    let (third, _) := strsep 95 t2 in
    match third with
    | Some _ => false
    | None =>
        match snap_name with
        | None => false
        | Some nm =>
            if negb (sc_snap_name_validate nm) then false
            else match key with Some k => sc_instance_key_validate k | None => true end
        end
    end.

(* sc_snap_component_validate(snap_component, NULL, &err) *)
Definition sc_snap_component_validate (s : bytes) : bool :=
  match split_first 43 s with
  | None => false
  | Some (a, b) =>
      if (sc_snap_name_len <? length a)%nat then false
      else if (sc_snap_name_len <? length b)%nat then false
      else if negb (sc_snap_name_validate a) then false
      else sc_snap_name_validate b
  end.

(* sc_security_tag_validate. regexec is modelled by rmatch on the same expression; its submatches 1 (instance) and
   7 (component) are taken by position: group 1 is what follows the literal snap. up to the first . or +, group 7 what
   follows that + up to the next . — the classes of both groups exclude . and +, so any match has exactly these. *)
Definition not_dot_plus (c : N) : bool := negb (c =? 46) && negb (c =? 43).
Definition not_dot (c : N) : bool := negb (c =? 46).

Definition tag_group1 (tag : bytes) : bytes := fst (span not_dot_plus (skipn 5 tag)).
Definition tag_group7 (tag : bytes) : option bytes :=
  match snd (span not_dot_plus (skipn 5 tag)) with
  | c :: r => if c =? 43 then Some (fst (span not_dot r)) else None
  | [] => None
  end.

Definition sc_security_tag_validate (tag inst : bytes) (comp : option bytes) : bool :=
  if (sc_security_tag_max_len <? length tag)%nat then false
  else if negb (rmatch sc_tag_re tag) then false
  else if match comp with
          | Some cn =>
              match tag_group7 tag with
              | None => true
              | Some g => is_nil_b cn || negb (beq g cn)
              end
          | None => match tag_group7 tag with Some _ => true | None => false end
          end then false
  else beq (tag_group1 tag) inst.

(* sc_is_hook_security_tag: regexec with REG_NOSUB on its own expression *)
Definition sc_is_hook_security_tag (tag : bytes) : bool := rmatch sc_hook_tag_re tag.

(* ------------------------------------------------------------------------------------------ C: snap-update-ns *)
Fixpoint sun_name_loop (fuel : nat) (p : bytes) (n : nat) (got : bool) : loop_res :=
  match fuel with
  | O => LoopFuel
  | S f =>
      match p with
      | [] => LoopEnd n got
      | c :: p' =>
          let (ls, p1) := span c_lower p in
          if negb (is_nil_b ls) then sun_name_loop f p1 (n + length ls) true
          else
            let (ds, p2) := span c_digit p in
            if negb (is_nil_b ds) then sun_name_loop f p2 (n + length ds) got
            else if c =? 45 then
              match p' with
              | [] => LoopErr
              | d :: _ => if d =? 45 then LoopErr else sun_name_loop f p' (n + 1) got
              end
            else LoopErr
      end
  end.

(* validate_snap_name *)
Definition sun_validate_snap_name (name : bytes) : bool :=
  if hd_is 45 name then false
  else match sun_name_loop (S (length name)) name 0 false with
       | LoopEnd n got =>
           if negb got then false
           else if (n <? sun_name_min)%nat then false
           else if (sun_name_max <? n)%nat then false
           else true
       | _ => false
       end.

(* instance_key_validate (static) *)
Fixpoint sun_key_loop (k : bytes) (i : nat) : option nat :=
  match k with
  | [] => Some i
  | c :: r => if (c_lower c) || (c_digit c) then sun_key_loop r (S i) else None
  end.

Definition sun_instance_key_validate (k : bytes) : bool :=
  match sun_key_loop k 0 with
  | None => false
  | Some i => if (i =? 0)%nat then false else if (sun_key_max <? i)%nat then false else true
  end.

(* validate_instance_name: no length test; strncpy(s, instance_name, sizeof(s) - 1) silently truncates *)
Definition sun_validate_instance_name (name : bytes) : bool :=
  let s := firstn (sun_instance_buf - 1) name in
  let (snap_name, t1) := strsep 95 (Some s) in
  let (key, t2) := strsep 95 t1 in
  let (third, _) := strsep 95 t2 in
  match third with
  | Some _ => false
  | None =>
      match snap_name with
      | None => false
      | Some nm =>
          if negb (sun_validate_snap_name nm) then false
          else match key with Some k => sun_instance_key_validate k | None => true end
      end
  end.

(* ------------------------------------------------------------------------------------------ reference recognisers *)
(* dashed-name shape over an alphabet al (not containing the dash): no dash at the start (pd = true there), none at
   the end, no two in a row, every other byte in al *)
Fixpoint dshape (al : N -> bool) (pd : bool) (s : bytes) : bool :=
  match s with
  | [] => negb pd
  | c :: r => if al c then dshape al false r
              else if c =? 45 then negb pd && dshape al true r
              else false
  end.

Definition name_char (c : N) : bool := c_lower c || c_digit c.
Definition app_char (c : N) : bool := c_lower c || c_digit c || ((65 <=? c) && (c <=? 90)).

Definition valid_snap_name (s : bytes) : bool :=
  dshape name_char true s && existsb c_lower s && (2 <=? length s)%nat && (length s <=? 40)%nat.

Definition valid_key (k : bytes) : bool :=
  (1 <=? length k)%nat && (length k <=? 10)%nat && forallb name_char k.

Definition valid_instance_name (s : bytes) : bool :=
  match split_first 95 s with
  | None => valid_snap_name s
  | Some (a, b) => valid_snap_name a && valid_key b
  end.

Definition valid_component (s : bytes) : bool :=
  match split_first 43 s with
  | None => false
  | Some (a, b) => valid_snap_name a && valid_snap_name b
  end.

Definition valid_app_name (s : bytes) : bool := dshape app_char true s.
Definition valid_hook_name (s : bytes) : bool :=
  match s with c :: r => c_lower c && dshape name_char false r | [] => false end.

Definition alias_char (c : N) : bool := app_char c || (c =? 45) || (c =? 46) || (c =? 95).
Definition valid_alias_name (s : bytes) : bool :=
  match s with c :: r => app_char c && forallb alias_char r | [] => false end.
Definition valid_snap_id_name (s : bytes) : bool := (length s =? 32)%nat && forallb app_char s.
(* sockets and interface tags: the snap-name shape without the length window *)
Definition valid_dashed_name (s : bytes) : bool := dshape name_char true s && existsb c_lower s.

(* ------------------------------------------------------------------------------------------ correspondence *)
Definition opt_beq (a b : option bytes) : bool :=
  match a, b with Some x, Some y => beq x y | None, None => true | _, _ => false end.

Definition parsed_eqb (a b : option parsed) : bool :=
  match a, b with
  | Some (i1, c1, h1, n1), Some (i2, c2, h2, n2) => beq i1 i2 && opt_beq c1 c2 && Bool.eqb h1 h2 && beq n1 n2
  | None, None => true
  | _, _ => false
  end.

Inductive case :=
(* one string through every name validator *)
| CName (s : bytes) (go_snap go_inst go_comp sc_snap sc_inst sc_key sc_comp sun_snap sun_inst : bool)
(* a tag with the (instance, component) snap-confine is asked about: ParseSecurityTag's result, Go's verdicts on the
   instance and component names, snap-confine's verdict *)
| CTag (tag inst : bytes) (comp : option bytes) (go_parse : option parsed) (go_inst_ok go_comp_ok : bool) (sc : bool)
(* a tag generated by the daemon's own functions from names; Go's verdicts on the names; snap-confine's verdict *)
| CGen (inst : bytes) (comp : option bytes) (is_hook : bool) (name : bytes) (go_inst_ok go_comp_ok go_name_ok : bool)
       (tag : bytes) (sc : bool)
(* EVERY string of length n over the alphabet, in the order of sweep_enum: the nine verdicts of CName packed into one
   number per string (bit 0 = go_snap ... bit 8 = sun_inst) *)
| CSweep (alphabet : bytes) (n : nat) (chunks : list (list N))   (* the packed words, in chunks (concat = all of them) *)

(* one string through the daemon's other validators: app hook plug slot interface alias snap-id socket iface-tag
   quota-group provenance (in this order) *)
| CMore (s : bytes) (verdicts : list bool)
(* as CSweep for the eleven verdicts of CMore (bit 0 = app ... bit 10 = provenance) *)
| CSweepMore (alphabet : bytes) (n : nat) (chunks : list (list N))
(* a tag: what ParseSecurityTag says (Some true = hook, Some false = app, None = rejected) and sc_is_hook_security_tag *)
| CIsHook (tag : bytes) (go_kind : option bool) (sc_is_hook : bool).

(* all strings of length n over the alphabet, prefix-major (the order in which the driver enumerates them) *)
Fixpoint sweep_enum (alphabet : bytes) (n : nat) : list bytes :=
  match n with
  | O => [[]]
  | S n' => flat_map (fun p => map (fun a => p ++ [a]) alphabet) (sweep_enum alphabet n')
  end.

Definition pack (bits : list bool) : N :=
  fold_right (fun (b : bool) acc => (if b then 1 else 0) + 2 * acc) 0 bits.

Definition model_word (s : bytes) : N :=
  pack [go_validate_snap s; go_validate_instance s; go_validate_component s; sc_snap_name_validate s;
        sc_instance_name_validate s; sc_instance_key_validate s; sc_snap_component_validate s;
        sun_validate_snap_name s; sun_validate_instance_name s].

Definition more_verdicts (s : bytes) : list bool :=
  [go_validate_app s; go_validate_hook s; go_validate_plug s; go_validate_slot s; go_validate_interface s;
   go_validate_alias s; go_validate_snap_id s; go_validate_socket s; go_validate_iface_tag s;
   go_validate_quota_group s; go_validate_provenance s].
Definition model_word_more (s : bytes) : N := pack (more_verdicts s).
Fixpoint bools_eqb (a b : list bool) : bool :=
  match a, b with
  | [], [] => true
  | x :: a', y :: b' => Bool.eqb x y && bools_eqb a' b'
  | _, _ => false
  end.
Definition go_kind_of (tag : bytes) : option bool :=
  match go_parse_security_tag tag with Some (_, _, h, _) => Some h | None => None end.
Definition opt_bool_eqb (a b : option bool) : bool :=
  match a, b with Some x, Some y => Bool.eqb x y | None, None => true | _, _ => false end.

Fixpoint neqb_list (a b : list N) : bool :=
  match a, b with
  | [], [] => true
  | x :: a', y :: b' => (x =? y) && neqb_list a' b'
  | _, _ => false
  end.

(* agreement on a packed word: go_snap = sc_snap = sun_snap, go_inst = sc_inst = sun_inst, go_comp = sc_comp *)
Definition word_agrees (w : N) : bool :=
  let b i := N.testbit w i in
  Bool.eqb (b 0) (b 3) && Bool.eqb (b 0) (b 7) && Bool.eqb (b 1) (b 4) && Bool.eqb (b 1) (b 8) && Bool.eqb (b 2) (b 6).

Definition model_tag (inst : bytes) (comp : option bytes) (is_hook : bool) (name : bytes) : bytes :=
  if is_hook then go_hook_tag inst comp name else go_app_tag inst name.

Definition comp_ok (f : bytes -> bool) (comp : option bytes) : bool :=
  match comp with Some c => f c | None => true end.

Definition mismatch (c : case) : bool :=
  match c with
  | CName s g1 g2 g3 c1 c2 c3 c4 u1 u2 =>
      negb (Bool.eqb (go_validate_snap s) g1 && Bool.eqb (go_validate_instance s) g2 &&
            Bool.eqb (go_validate_component s) g3 && Bool.eqb (sc_snap_name_validate s) c1 &&
            Bool.eqb (sc_instance_name_validate s) c2 && Bool.eqb (sc_instance_key_validate s) c3 &&
            Bool.eqb (sc_snap_component_validate s) c4 && Bool.eqb (sun_validate_snap_name s) u1 &&
            Bool.eqb (sun_validate_instance_name s) u2)
  | CTag tag inst comp gp gi gc sc =>
      negb (parsed_eqb (go_parse_security_tag tag) gp && Bool.eqb (go_validate_instance inst) gi &&
            Bool.eqb (comp_ok go_validate_snap comp) gc && Bool.eqb (sc_security_tag_validate tag inst comp) sc)
  | CGen inst comp h name gi gc gn tag sc =>
      negb (beq (model_tag inst comp h name) tag && Bool.eqb (go_validate_instance inst) gi &&
            Bool.eqb (comp_ok go_validate_snap comp) gc &&
            Bool.eqb (if h then go_validate_hook name else go_validate_app name) gn &&
            Bool.eqb (sc_security_tag_validate tag inst comp) sc)
  | CSweep al n chunks => negb (neqb_list (map model_word (sweep_enum al n)) (concat chunks))
  | CMore s vs => negb (bools_eqb (more_verdicts s) vs)
  | CSweepMore al n chunks => negb (neqb_list (map model_word_more (sweep_enum al n)) (concat chunks))
  | CIsHook tag gk sh => negb (opt_bool_eqb (go_kind_of tag) gk && Bool.eqb (sc_is_hook_security_tag tag) sh)
  end.

(* the property's conclusion on the observed verdicts only *)
Definition parsed_as (gp : option parsed) (inst : bytes) (comp : option bytes) : bool :=
  match gp with Some (i, c, _, _) => beq i inst && opt_beq c comp | None => false end.

Definition spec_verdicts (s : bytes) : list bool :=
  [valid_app_name s; valid_hook_name s; valid_hook_name s; valid_hook_name s; valid_hook_name s;
   valid_alias_name s; valid_snap_id_name s; valid_dashed_name s; valid_dashed_name s; valid_snap_name s; valid_app_name s].

Definition monitor_fail (c : case) : bool :=
  match c with
  | CName s g1 g2 g3 c1 c2 c3 c4 u1 u2 =>
      negb (Bool.eqb g1 c1 && Bool.eqb g1 u1 && Bool.eqb g2 c2 && Bool.eqb g2 u2 && Bool.eqb g3 c4)
  | CTag tag inst comp gp gi gc sc =>
      (length tag <=? 256)%nat && gi && gc && negb (Bool.eqb sc (parsed_as gp inst comp))
  | CGen inst comp h name gi gc gn tag sc =>
      gi && gc && gn && (if h then true else match comp with None => true | Some _ => false end) && negb sc
  | CSweep al n chunks => negb (forallb (forallb word_agrees) chunks)
  (* the daemon's other validators against the hand-written reference recognisers (the specification: they do not depend
     on the regenerated expressions) *)
  | CMore s vs => negb (bools_eqb (spec_verdicts s) vs)
  | CSweepMore al n chunks => negb (neqb_list (map (fun s => pack (spec_verdicts s)) (sweep_enum al n)) (concat chunks))
  (* sc_is_hook_security_tag never calls an app tag (or a string the daemon rejects... see notes) a hook tag *)
  | CIsHook tag gk sh => sh && match gk with Some false => true | _ => false end
  end.
