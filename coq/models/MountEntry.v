(* C28 (codec part) -- executable model of the fstab-like mount entry codec of snapd:
     osutil/mountentry.go        escape, unescape, MountEntry.String, MountEntry.Equal, OptStr, OptBool
     osutil/mountentry_linux.go  ParseMountEntry
     osutil/mountprofile_linux.go ReadMountProfile (LoadMountProfile), MountProfile.WriteTo (Save)
   Written function by function from the Go code. No proofs here (see proofs/MountEntryProofs.v). *)
From Coq Require Import List NArith ZArith Bool.
Import ListNotations.
Require Import V.lib.Bytes V.lib.Dec.
Open Scope N_scope.

(* osutil.MountEntry *)
Record entry := mkEntry {
  e_name : bytes;
  e_dir : bytes;
  e_type : bytes;
  e_opts : list bytes;
  e_freq : Z;      (* DumpFrequency, Go int (64 bit) *)
  e_pass : Z       (* CheckPassNumber *)
}.

Fixpoint opts_eqb (a b : list bytes) : bool :=
  match a, b with
  | [], [] => true
  | x :: a', y :: b' => beq x y && opts_eqb a' b'
  | _, _ => false
  end.

(* MountEntry.Equal *)
Definition entry_eqb (a b : entry) : bool :=
  beq (e_name a) (e_name b) && beq (e_dir a) (e_dir b) && beq (e_type a) (e_type b) &&
  opts_eqb (e_opts a) (e_opts b) && Z.eqb (e_freq a) (e_freq b) && Z.eqb (e_pass a) (e_pass b).

(* ------------------------------------------------------------------ escape / unescape *)

(* escape = strings.NewReplacer(space -> \040, tab -> \011, newline -> \012, backslash -> \134).Replace :
   all old strings are single bytes, so the replacement is byte by byte *)
Definition escape_byte (c : N) : bytes :=
  if c =? 32 then [92; 48; 52; 48]
  else if c =? 9 then [92; 48; 49; 49]
  else if c =? 10 then [92; 48; 49; 50]
  else if c =? 92 then [92; 49; 51; 52]
  else [c].

Fixpoint escape (s : bytes) : bytes :=
  match s with
  | [] => []
  | c :: r => escape_byte c ++ escape r
  end.

(* the three bytes after a backslash -> the byte they stand for *)
Definition esc_code (d1 d2 d3 : N) : option N :=
  if (d1 =? 48) && (d2 =? 52) && (d3 =? 48) then Some 32
  else if (d1 =? 48) && (d2 =? 49) && (d3 =? 49) then Some 9
  else if (d1 =? 48) && (d2 =? 49) && (d3 =? 50) then Some 10
  else if (d1 =? 49) && (d2 =? 51) && (d3 =? 52) then Some 92
  else None.

(* unescape = strings.NewReplacer(\040 -> space, \011 -> tab, \012 -> newline, \134 -> backslash).Replace :
   generic replacer, scans left to right, replaces a key where one starts, else copies one byte;
   replaced text is not rescanned *)
Fixpoint unescape (s : bytes) : bytes :=
  match s with
  | [] => []
  | c :: r =>
      if c =? 92 then
        match r with
        | d1 :: d2 :: d3 :: r' =>
            match esc_code d1 d2 d3 with
            | Some b => b :: unescape r'
            | None => c :: unescape r
            end
        | _ => c :: unescape r
        end
      else c :: unescape r
  end.

(* ------------------------------------------------------------------ small string helpers *)

(* strings.Join(l, sep) with a one byte separator *)
Fixpoint join (sep : N) (l : list bytes) : bytes :=
  match l with
  | [] => []
  | [x] => x
  | x :: r => x ++ sep :: join sep r
  end.

(* strings.Split(s, sep) with a one byte separator: always at least one piece *)
Fixpoint split_on (sep : N) (s : bytes) : list bytes :=
  match s with
  | [] => [[]]
  | c :: r =>
      if c =? sep then [] :: split_on sep r
      else match split_on sep r with
           | [] => [[c]]          (* unreachable *)
           | p :: ps => (c :: p) :: ps
           end
  end.

Definition is_blank (c : N) : bool := (c =? 32) || (c =? 9).

(* strings.FieldsFunc(s, r is space or tab): maximal runs of non-blank bytes. (The Go function decodes
   UTF-8, but both separators are ASCII and every byte of a multi-byte or invalid sequence is >= 0x80.) *)
Fixpoint fields_aux (cur : bytes) (s : bytes) : list bytes :=
  match s with
  | [] => match cur with [] => [] | _ => [rev cur] end
  | c :: r =>
      if is_blank c then
        match cur with [] => fields_aux [] r | _ => rev cur :: fields_aux [] r end
      else fields_aux (c :: cur) r
  end.
Definition fields (s : bytes) : list bytes := fields_aux [] s.

Definition starts_hash (f : bytes) : bool := match f with c :: _ => c =? 35 | [] => false end.

(* for i, field := range fields: if the field starts with a hash then fields = fields[:i]; break *)
Fixpoint drop_comment (fs : list bytes) : list bytes :=
  match fs with
  | [] => []
  | f :: r => if starts_hash f then [] else f :: drop_comment r
  end.

(* ------------------------------------------------------------------ integers: %d and strconv.Atoi *)

Definition zdec (z : Z) : bytes :=
  match z with
  | Zneg p => 45 :: dec (Npos p)
  | _ => dec (Z.to_N z)
  end.

Definition int_min : Z := (- 9223372036854775808)%Z.
Definition int_max : Z := 9223372036854775807%Z.
Definition in_int (z : Z) : bool := (int_min <=? z)%Z && (z <=? int_max)%Z.

(* strconv.Atoi: optional sign, one or more decimal digits, value must fit int64 *)
Definition atoi_digits (neg : bool) (digits : bytes) : option Z :=
  match undec digits with
  | None => None
  | Some n =>
      let z := if neg then (- Z.of_N n)%Z else Z.of_N n in
      if in_int z then Some z else None
  end.
Definition atoi (s : bytes) : option Z :=
  match s with
  | c :: r => if c =? 45 then atoi_digits true r else if c =? 43 then atoi_digits false r else atoi_digits false s
  | [] => None
  end.

(* ------------------------------------------------------------------ MountEntry.String / ParseMountEntry *)

Definition none_lit : bytes := [110; 111; 110; 101].                       (* none *)
Definition defaults_lit : bytes := [100; 101; 102; 97; 117; 108; 116; 115]. (* defaults *)

Definition or_none (s : bytes) : bytes := match s with [] => none_lit | _ => escape s end.

(* func (e MountEntry) String() string *)
Definition entry_string (e : entry) : bytes :=
  or_none (e_name e) ++ 32 :: or_none (e_dir e) ++ 32 :: or_none (e_type e) ++ 32 ::
  (match e_opts e with [] => defaults_lit | _ => escape (join 44 (e_opts e)) end) ++ 32 ::
  zdec (e_freq e) ++ 32 :: zdec (e_pass e).

(* func ParseMountEntry(s string) (MountEntry, error); None = error.
   The options slice stays nil (here []) when there are only three fields. *)
Definition parse_entry (s : bytes) : option entry :=
  match drop_comment (fields s) with
  | [n; d; t] => Some (mkEntry (unescape n) (unescape d) (unescape t) [] 0 0)
  | [n; d; t; o] => Some (mkEntry (unescape n) (unescape d) (unescape t) (split_on 44 (unescape o)) 0 0)
  | [n; d; t; o; f] =>
      match atoi f with
      | Some fz => Some (mkEntry (unescape n) (unescape d) (unescape t) (split_on 44 (unescape o)) fz 0)
      | None => None
      end
  | [n; d; t; o; f; p] =>
      match atoi f, atoi p with
      | Some fz, Some pz => Some (mkEntry (unescape n) (unescape d) (unescape t) (split_on 44 (unescape o)) fz pz)
      | _, _ => None
      end
  | _ => None
  end.

(* ------------------------------------------------------------------ profiles: WriteTo / ReadMountProfile *)

(* MountProfile.WriteTo: one line per entry, each terminated by \n *)
Fixpoint profile_text (es : list entry) : bytes :=
  match es with
  | [] => []
  | e :: r => entry_string e ++ 10 :: profile_text r
  end.

(* bufio.ScanLines: split at \n, drop one trailing \r of each line, a final unterminated non-empty line counts.
   (The 64 KiB token limit of bufio.Scanner is not modelled; see notes/C28.md.) *)
Definition drop_cr (rl : bytes) : bytes := match rl with c :: r => if c =? 13 then r else rl | [] => rl end.   (* on the reversed line *)
Fixpoint lines_aux (cur : bytes) (s : bytes) : list bytes :=
  match s with
  | [] => match cur with [] => [] | _ => [rev (drop_cr cur)] end
  | c :: r => if c =? 10 then rev (drop_cr cur) :: lines_aux [] r else lines_aux (c :: cur) r
  end.
Definition lines (s : bytes) : list bytes := lines_aux [] s.

(* strings.TrimSpace trims Unicode White_Space from both ends. At the byte level: the six ASCII ones and the
   UTF-8 encodings of U+0085, U+00A0, U+1680, U+2000..U+200A, U+2028, U+2029, U+202F, U+205F, U+3000. *)
Definition ascii_space (c : N) : bool := ((9 <=? c) && (c <=? 13)) || (c =? 32).

(* length of the white-space rune the string starts with (0 = none) *)
Definition in_2000_block (d : N) : bool := ((128 <=? d) && (d <=? 138)) || (d =? 168) || (d =? 169) || (d =? 175).
Definition space_prefix_len (s : bytes) : nat :=
  match s with
  | c :: r =>
      if ascii_space c then 1%nat
      else match r with
           | d :: r2 =>
               if (c =? 194) && ((d =? 133) || (d =? 160)) then 2%nat
               else match r2 with
                    | e :: _ =>
                        if (c =? 225) && (d =? 154) && (e =? 128) then 3%nat
                        else if (c =? 226) && (d =? 128) && in_2000_block e then 3%nat
                        else if (c =? 226) && (d =? 129) && (e =? 159) then 3%nat
                        else if (c =? 227) && (d =? 128) && (e =? 128) then 3%nat
                        else 0%nat
                    | [] => 0%nat
                    end
           | [] => 0%nat
           end
  | [] => 0%nat
  end.

(* the same looking at the end of the string; argument is the reversed string *)
Definition space_suffix_len (rs : bytes) : nat :=
  match rs with
  | c :: r =>
      if ascii_space c then 1%nat
      else match r with
           | d :: r2 =>
               if (d =? 194) && ((c =? 133) || (c =? 160)) then 2%nat
               else match r2 with
                    | e :: _ =>
                        if (e =? 225) && (d =? 154) && (c =? 128) then 3%nat
                        else if (e =? 226) && (d =? 128) && in_2000_block c then 3%nat
                        else if (e =? 226) && (d =? 129) && (c =? 159) then 3%nat
                        else if (e =? 227) && (d =? 128) && (c =? 128) then 3%nat
                        else 0%nat
                    | [] => 0%nat
                    end
           | [] => 0%nat
           end
  | [] => 0%nat
  end.

Fixpoint trim_left (fuel : nat) (s : bytes) : bytes :=
  match fuel with
  | O => s
  | S f => match space_prefix_len s with O => s | n => trim_left f (skipn n s) end
  end.
Fixpoint trim_right_rev (fuel : nat) (rs : bytes) : bytes :=
  match fuel with
  | O => rs
  | S f => match space_suffix_len rs with O => rs | n => trim_right_rev f (skipn n rs) end
  end.
Definition trim_space (s : bytes) : bytes :=
  let l := trim_left (length s) s in rev (trim_right_rev (length l) (rev l)).

(* func ReadMountProfile(reader) returning a profile or an error; None = error *)
Fixpoint parse_lines (ls : list bytes) : option (list entry) :=
  match ls with
  | [] => Some []
  | l :: r =>
      let s := trim_space l in
      if starts_hash s then parse_lines r
      else if is_nil_b s then parse_lines r
      else match parse_entry s with
           | None => None
           | Some e => match parse_lines r with Some es => Some (e :: es) | None => None end
           end
  end.
Definition load_profile (text : bytes) : option (list entry) := parse_lines (lines text).

(* ------------------------------------------------------------------ the property's guard *)

Definition field_ok (f : bytes) : bool := negb (is_nil_b f) && negb (starts_hash f).
Definition no_comma (o : bytes) : bool := forallb (fun c => negb (c =? 44)) o.

(* fields non-empty and not starting with #; option list non-empty, its comma-joined text non-empty and not
   starting with #, no option contains a comma; the two numbers fit Go's int *)
Definition guard (e : entry) : bool :=
  field_ok (e_name e) && field_ok (e_dir e) && field_ok (e_type e) &&
  negb (is_nil_b (e_opts e)) && field_ok (join 44 (e_opts e)) && forallb no_comma (e_opts e) &&
  in_int (e_freq e) && in_int (e_pass e).

(* additionally for whole profiles: the line must survive strings.TrimSpace, i.e. the name must not begin
   with a white-space rune that escape leaves alone (\v \f \r, U+0085, U+00A0, ...) *)
Definition name_untrimmed (e : entry) : bool :=
  match space_prefix_len (entry_string e) with O => true | _ => false end.
Definition profile_guard (e : entry) : bool := guard e && name_untrimmed e.

(* ------------------------------------------------------------------ correspondence interface *)

Definition opt_entry_eqb (a b : option entry) : bool :=
  match a, b with
  | Some x, Some y => entry_eqb x y
  | None, None => true
  | _, _ => false
  end.

Fixpoint entries_eqb (a b : list entry) : bool :=
  match a, b with
  | [], [] => true
  | x :: a', y :: b' => entry_eqb x y && entries_eqb a' b'
  | _, _ => false
  end.

Definition opt_entries_eqb (a b : option (list entry)) : bool :=
  match a, b with
  | Some x, Some y => entries_eqb x y
  | None, None => true
  | _, _ => false
  end.

Inductive case :=
  (* entry e; observed: e.String(), ParseMountEntry of it, Escape/Unescape round trip of the name *)
  | CEntry (e : entry) (str : bytes) (back : option entry)
  (* free text line; observed: ParseMountEntry(line) *)
  | CLine (line : bytes) (parsed : option entry)
  (* string; observed: Escape(s), Unescape(s), Unescape(Escape(s)) *)
  | CEsc (s esc unesc back : bytes)
  (* profile; observed: SaveMountProfileText, LoadMountProfileText of it *)
  | CProfile (es : list entry) (text : bytes) (back : option (list entry))
  (* free profile text; observed: LoadMountProfileText(text) *)
  | CText (text : bytes) (loaded : option (list entry)).

Definition mismatch (c : case) : bool :=
  match c with
  | CEntry e str back => negb (beq (entry_string e) str) || negb (opt_entry_eqb (parse_entry str) back)
  | CLine l p => negb (opt_entry_eqb (parse_entry l) p)
  | CEsc s e u b => negb (beq (escape s) e) || negb (beq (unescape s) u) || negb (beq (unescape e) b)
  | CProfile es t back => negb (beq (profile_text es) t) || negb (opt_entries_eqb (load_profile t) back)
  | CText t l => negb (opt_entries_eqb (load_profile t) l)
  end.

(* the property on the implementation's observed behaviour: a guarded entry / profile reads back unchanged,
   escaping is undone by unescaping. (Free text cases carry no obligation of their own.) The monitor uses the
   property's own guard; profiles whose first byte is eaten by TrimSpace are the recorded finding
   profile-name-leading-space-rune (theorem C28_profile_roundtrip carries the extra hypothesis). *)
Definition monitor_fail (c : case) : bool :=
  match c with
  | CEntry e _ back => guard e && negb (opt_entry_eqb back (Some e))
  | CEsc s _ _ b => negb (beq b s)
  | CProfile es _ back => forallb guard es && negb (opt_entries_eqb back (Some es))
  | _ => false
  end.
