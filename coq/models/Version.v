(* C33 — model of strutil.VersionCompare (strutil/version.go), written function by function from the Go,
   plus an independent model of dpkg's verrevcmp. No proofs in this file. *)
From Coq Require Import List NArith ZArith Bool.
Import ListNotations.
Require Import V.lib.Bytes V.gen.ChOrder.
Open Scope N_scope.

Definition ch_order (c : N) : Z := nth (N.to_nat c) ChOrder.table 0%Z.

Definition cmp1 (x y : N) (k : Z) : Z :=
  if (ch_order x <? ch_order y)%Z then (-1)%Z
  else if (ch_order x >? ch_order y)%Z then 1%Z else k.

(* cmpString: compare position by position, the shorter string padded with byte 0 *)
Fixpoint cmp_string (a b : bytes) : Z :=
  match a with
  | [] => (fix go (b : bytes) : Z := match b with [] => 0%Z | y :: b' => cmp1 0 y (go b') end) b
  | x :: a' =>
      match b with
      | [] => cmp1 x 0 (cmp_string a' [])
      | y :: b' => cmp1 x y (cmp_string a' b')
      end
  end.

Fixpoint trim_zeroes (a : bytes) : bytes :=
  match a with
  | 48 :: r => trim_zeroes r
  | _ => a
  end.

Fixpoint cmp_bytes_num (a b : bytes) : Z :=
  match a, b with
  | x :: a', y :: b' => if y <? x then 1%Z else if x <? y then (-1)%Z else cmp_bytes_num a' b'
  | _, _ => 0%Z
  end.

Definition cmp_numeric (a b : bytes) : Z :=
  let a := trim_zeroes a in
  let b := trim_zeroes b in
  let la := Z.of_nat (length a) in
  let lb := Z.of_nat (length b) in
  if (la >? lb)%Z then 1%Z else if (la <? lb)%Z then (-1)%Z else cmp_bytes_num a b.

Definition match_epoch (a : bytes) : bool :=
  match a with
  | [] => false
  | c :: _ =>
      if is_digit c then
        match snd (span is_digit a) with
        | 58 :: _ => true
        | _ => false
        end
      else false
  end.

Definition next_frag (s : bytes) : bytes * bytes * bool :=
  match s with
  | [] => ([], [], false)
  | c :: _ =>
      if is_digit c then let (f, r) := span is_digit s in (f, r, true)
      else let (f, r) := span (fun x => negb (is_digit x)) s in (f, r, false)
  end.

Definition is_nil (l : bytes) : bool := match l with [] => true | _ => false end.

(* compareSubversion; the loop is bounded by the total length (each round consumes a fragment on a side) *)
Fixpoint cmp_sub (fuel : nat) (first : bool) (va vb : bytes) : option Z :=
  match fuel with
  | O => None
  | S f =>
      let '(a, va', an) := next_frag va in
      let '(b, vb', bn) := next_frag vb in
      if is_nil a && is_nil b then Some 0%Z
      else
        let res :=
          if an && bn then cmp_numeric a b
          else if negb first && is_nil a && bn then cmp_numeric [48] b
          else if negb first && is_nil b && an then cmp_numeric a [48]
          else cmp_string a b in
        if (res =? 0)%Z then cmp_sub f false va' vb' else Some res
  end.

Definition sub_fuel (va vb : bytes) : nat := S (length va + length vb).

Definition compare_subversion (va vb : bytes) : option Z := cmp_sub (sub_fuel va vb) true va vb.

Definition split_rev (v : bytes) : bytes * bytes :=
  match split_last 45 v with
  | Some (m, r) => (m, r)
  | None => (v, [48])
  end.

Inductive result := Invalid | Res (r : Z) | OutOfFuel.

Definition version_compare (va vb : bytes) : result :=
  if match_epoch va || match_epoch vb then Invalid
  else
    let (ma, ra) := split_rev va in
    let (mb, rb) := split_rev vb in
    match compare_subversion ma mb with
    | None => OutOfFuel
    | Some r =>
        if negb (r =? 0)%Z then Res r
        else match compare_subversion ra rb with None => OutOfFuel | Some r => Res r end
    end.

(* ---------------------------------------------------------------------------------------------------
   Independent reference: dpkg's verrevcmp (lib/dpkg/version.c), on byte lists.
     order(c) = 0 for digits and end of string, c for letters, -1 for '~', c+256 otherwise *)
Definition dpkg_order (c : option N) : Z :=
  match c with
  | None => 0%Z
  | Some c => if is_digit c then 0%Z else if is_alpha c then Z.of_N c
              else if c =? 126 then (-1)%Z else (Z.of_N c + 256)%Z
  end.

Definition hd_nondigit (l : bytes) : bool := match l with c :: _ => negb (is_digit c) | [] => false end.

(* phase 1: while either side is at a non-digit, compare orders position by position *)
Fixpoint dpkg_nondigit (fuel : nat) (a b : bytes) : option (Z + (bytes * bytes)) :=
  match fuel with
  | O => None
  | S f =>
      if hd_nondigit a || hd_nondigit b then
        let ac := dpkg_order (hd_error a) in
        let bc := dpkg_order (hd_error b) in
        if negb (ac =? bc)%Z then Some (inl (ac - bc)%Z)
        else dpkg_nondigit f (tl a) (tl b)
      else Some (inr (a, b))
  end.

(* phase 2: skip zeroes, then walk digits in lockstep remembering the first difference *)
Fixpoint dpkg_digits (a b : bytes) (first_diff : Z) : Z + (bytes * bytes) :=
  match a, b with
  | x :: a', y :: b' =>
      if is_digit x && is_digit y then
        dpkg_digits a' b' (if (first_diff =? 0)%Z then (Z.of_N x - Z.of_N y)%Z else first_diff)
      else if is_digit x then inl 1%Z
      else if is_digit y then inl (-1)%Z
      else if negb (first_diff =? 0)%Z then inl first_diff else inr (a, b)
  | x :: _, [] => if is_digit x then inl 1%Z else if negb (first_diff =? 0)%Z then inl first_diff else inr (a, b)
  | [], y :: _ => if is_digit y then inl (-1)%Z else if negb (first_diff =? 0)%Z then inl first_diff else inr (a, b)
  | [], [] => if negb (first_diff =? 0)%Z then inl first_diff else inr (a, b)
  end.

Fixpoint dpkg_verrevcmp (fuel : nat) (a b : bytes) : option Z :=
  match fuel with
  | O => None
  | S f =>
      if is_nil a && is_nil b then Some 0%Z
      else match dpkg_nondigit (S (length a + length b)) a b with
           | None => None
           | Some (inl d) => Some d
           | Some (inr (a1, b1)) =>
               match dpkg_digits (trim_zeroes a1) (trim_zeroes b1) 0 with
               | inl d => Some d
               | inr (a2, b2) => dpkg_verrevcmp f a2 b2
               end
           end
  end.

Definition sgn (z : Z) : Z := if (z <? 0)%Z then (-1)%Z else if (z >? 0)%Z then 1%Z else 0%Z.

(* dpkg splits at the last '-'; a missing revision is the empty string *)
Definition dpkg_compare (va vb : bytes) : option Z :=
  let sp v := match split_last 45 v with Some (m, r) => (m, r) | None => (v, []) end in
  let (ma, ra) := sp va in
  let (mb, rb) := sp vb in
  match dpkg_verrevcmp (sub_fuel ma mb) ma mb with
  | None => None
  | Some r => if negb (r =? 0)%Z then Some (sgn r)
              else match dpkg_verrevcmp (sub_fuel ra rb) ra rb with None => None | Some r => Some (sgn r) end
  end.

(* a version dpkg itself accepts structurally: non-empty upstream part, non-empty revision when there is a
   hyphen, no NUL byte, no epoch *)
Definition no_nul (v : bytes) : bool := forallb (fun c => negb (c =? 0)) v.
Definition debian_wf (v : bytes) : bool :=
  no_nul v && negb (match_epoch v) &&
  match split_last 45 v with
  | Some (m, r) => negb (is_nil m) && negb (is_nil r)
  | None => negb (is_nil v)
  end.

(* ---------------------------------------------------------------------------------------------------
   Correspondence / monitor interface used by the generated case files *)
Inductive obs := ObsInvalid | ObsRes (r : Z).

(* a case: the two inputs, what the implementation returned for (a,b) and for (b,a), and what
   /usr/bin/dpkg answered (None when not asked) *)
Record case := mkCase { ca : bytes; cb : bytes; c_ab : obs; c_ba : obs; c_dpkg : option Z }.

Definition obs_of (r : result) : option obs :=
  match r with Invalid => Some ObsInvalid | Res z => Some (ObsRes z) | OutOfFuel => None end.

Definition obs_eqb (x : option obs) (y : obs) : bool :=
  match x, y with
  | Some ObsInvalid, ObsInvalid => true
  | Some (ObsRes a), ObsRes b => (a =? b)%Z
  | _, _ => false
  end.

Definition mismatch (c : case) : bool :=
  negb (obs_eqb (obs_of (version_compare (ca c) (cb c))) (c_ab c)) ||
  negb (obs_eqb (obs_of (version_compare (cb c) (ca c))) (c_ba c)).

(* the property evaluated on the observed behaviour of one pair: epoch <-> rejected, sign flip,
   result in {-1,0,1}, reflexivity when a = b, agreement with Debian on well-formed versions
   (both with the reference model and, when present, with the real dpkg's answer) *)
Definition monitor_fail (c : case) : bool :=
  let inv := match_epoch (ca c) || match_epoch (cb c) in
  match c_ab c, c_ba c with
  | ObsInvalid, ObsInvalid => negb inv
  | ObsRes x, ObsRes y =>
      inv || negb ((x + y =? 0)%Z) || negb ((-1 <=? x)%Z && (x <=? 1)%Z)
      || (beq (ca c) (cb c) && negb (x =? 0)%Z)
      || (debian_wf (ca c) && debian_wf (cb c) &&
          (match dpkg_compare (ca c) (cb c) with Some d => negb (d =? x)%Z | None => true end
           || match c_dpkg c with Some d => negb (d =? x)%Z | None => false end))
  | _, _ => true
  end.

(* triples: transitivity on observed results *)
Record tcase := mkT { t_ab : Z; t_bc : Z; t_ac : Z }.
Definition tmonitor_fail (t : tcase) : bool :=
  ((t_ab t <=? 0)%Z && (t_bc t <=? 0)%Z && negb (t_ac t <=? 0)%Z) ||
  ((t_ab t <=? 0)%Z && (t_bc t <=? 0)%Z && ((t_ab t <? 0)%Z || (t_bc t <? 0)%Z) && negb (t_ac t <? 0)%Z).
