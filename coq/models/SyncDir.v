(* C23 — model of osutil/syncdir.go (EnsureDirStateGlobs / EnsureDirState / EnsureFileState), written function by
   function from the Go code. No proofs in this file.

   A directory is an association list  name -> node  (names unique). What symlinks in the directory point to lives
   OUTSIDE the managed directory and is never changed by the code: it is the table `out` (target -> what it
   resolves to; a missing entry is a dangling link).

   The three explicit arguments the Go code leaves implicit:
     - the glob predicate `mt` (filepath.Match / filepath.Glob on base names; concrete hand model `match_any` below),
     - the ORDER in which `range content` visits the map: `content` is a list, visited left to right,
     - the failure oracle: each desired entry carries `failat` = which call of its FileState.State() fails
       (EnsureFileState calls it up to three times: mode probe, comparison, write); directories in the way and
       non-empty directories (os.Remove fails) are part of the directory value itself;
     - the process umask `um` (NewAtomicFile creates the temporary file with os.OpenFile(..., perm), no chmod after). *)
From Coq Require Import List NArith Bool.
Import ListNotations.
Require Import V.lib.Bytes.
Open Scope N_scope.

(* ------------------------------------------------------------------ file system values *)
Inductive onode := OReg (c : bytes) (m : N) | ODir.              (* what a symlink target outside the directory is *)
Inductive node := Reg (c : bytes) (m : N) | Sym (t : bytes) | Dir (nonempty : bool).
(* desired state of one name = what FileState.State() returns: regular content+mode, symlink target, or an
   unsupported mode type (e.g. os.ModeDir); f = index of the State() call that returns an error (0 = never) *)
Inductive dstate := DReg (c : bytes) (m : N) (f : N) | DSym (t : bytes) (f : N) | DBad (f : N).

Definition failat (d : dstate) : N := match d with DReg _ _ f => f | DSym _ f => f | DBad f => f end.

Fixpoint lookup {A : Type} (d : list (bytes * A)) (n : bytes) : option A :=
  match d with
  | [] => None
  | (k, v) :: r => if beq k n then Some v else lookup r n
  end.

Notation names d := (map fst d) (only parsing).
Definition mem_name (n : bytes) (l : list bytes) : bool := existsb (beq n) l.

(* replace the node of an existing name in place, or append a new entry *)
Fixpoint set_node (d : list (bytes * node)) (n : bytes) (v : node) : list (bytes * node) :=
  match d with
  | [] => [(n, v)]
  | (k, w) :: r => if beq k n then (k, v) :: r else (k, w) :: set_node r n v
  end.

(* FileMode.Perm() *)
Definition perm (m : N) : N := N.land m 511.

(* ------------------------------------------------------------------ EnsureFileState *)
(* regularFileStateEqualTo / symlinkFileStateEqualTo: None = an error other than not-exist *)
Definition same_reg (c : bytes) (m : N) (c' : bytes) (m' : N) : bool := (perm m =? perm m') && beq c c'.

Definition node_same (out : list (bytes * onode)) (cur : option node) (d : dstate) : option bool :=
  match d with
  | DReg c m _ =>
      match cur with
      | None => Some false                                     (* os.Open: ENOENT *)
      | Some (Reg c' m') => Some (same_reg c m c' m')
      | Some (Sym t) =>                                        (* os.Open follows the link *)
          match lookup out t with
          | None => Some false                                 (* dangling: ENOENT *)
          | Some (OReg c' m') => Some (same_reg c m c' m')
          | Some ODir => None                                  (* only regular files are supported *)
          end
      | Some (Dir _) => None                                   (* only regular files are supported *)
      end
  | DSym t _ =>
      match cur with
      | Some (Sym t') => Some (beq t t')
      | _ => Some false                                        (* missing, or Lstat type is not a symlink *)
      end
  | DBad _ => None
  end.

(* what AtomicWrite / AtomicSymlink leave at the name *)
Definition written (um : N) (d : dstate) : node :=
  match d with
  | DReg c m _ => Reg c (N.ldiff (perm m) um)
  | DSym t _ => Sym t
  | DBad _ => Dir false
  end.

Inductive fres := FSame | FWrote (n : node) | FErr.

(* EnsureFileState + ensureRegularFileState / ensureSymlinkFileState *)
Definition efs (um : N) (out : list (bytes * onode)) (cur : option node) (d : dstate) : fres :=
  if failat d =? 1 then FErr else                              (* first State(): mode probe *)
  match d with
  | DBad _ => FErr                                             (* does not support type *)
  | _ =>
    if failat d =? 2 then FErr else                            (* second State(): comparison *)
    match node_same out cur d with
    | None => FErr
    | Some true => FSame                                       (* ErrSameState *)
    | Some false =>
        if failat d =? 3 then FErr else                        (* third State(): write *)
        match d, cur with
        | DSym _ _, Some (Dir _) => FErr                       (* rename(tmp symlink, directory) fails *)
        | _, _ => FWrote (written um d)
        end
    end
  end.

(* ------------------------------------------------------------------ EnsureDirStateGlobs *)
(* sort.Strings: bytewise lexicographic order, insertion sort *)
Fixpoint ble (a b : bytes) : bool :=
  match a, b with
  | [], _ => true
  | _ :: _, [] => false
  | x :: a', y :: b' => if x <? y then true else if y <? x then false else ble a' b'
  end.
Fixpoint insert (x : bytes) (l : list bytes) : list bytes :=
  match l with
  | [] => [x]
  | y :: r => if ble x y then x :: l else y :: insert x r
  end.
Definition sort (l : list bytes) : list bytes := fold_right insert [] l.

(* filepath.Base(name) == name, for the names the generators use: non-empty, no slash *)
Definition valid_base (n : bytes) : bool := negb (is_nil_b n) && forallb (fun c => negb (c =? 47)) n.

(* change phase: visit `content` in the given order; stop at the first error *)
Fixpoint write_loop (um : N) (out : list (bytes * onode)) (d : list (bytes * node)) (content : list (bytes * dstate))
         (changed : list bytes) : list (bytes * node) * list bytes * bool :=
  match content with
  | [] => (d, changed, false)
  | (n, ds) :: r =>
      match efs um out (lookup d n) ds with
      | FSame => write_loop um out d r changed
      | FWrote v => write_loop um out (set_node d n v) r (changed ++ [n])
      | FErr => (d, [], true)
      end
  end.

(* os.Remove: files, symlinks and empty directories go away; a non-empty directory stays and is an error *)
Definition removable (v : node) : bool := match v with Dir true => false | _ => true end.

(* delete phase over every entry matching a glob and not in `keep` *)
Fixpoint erase_loop (mt : bytes -> bool) (keep : list bytes) (d : list (bytes * node))
  : list (bytes * node) * list bytes * bool :=
  match d with
  | [] => ([], [], false)
  | (n, v) :: r =>
      let '(r', rm, e) := erase_loop mt keep r in
      if mt n && negb (mem_name n keep) then
        if removable v then (r', n :: rm, e) else ((n, v) :: r', rm, true)
      else ((n, v) :: r', rm, e)
  end.

Record result := mkResult { r_dir : list (bytes * node); r_changed : list bytes; r_removed : list bytes;
                            r_err : bool; r_wfail : bool }.

Definition ensure_dir_state (mt : bytes -> bool) (um : N) (out : list (bytes * onode))
           (d : list (bytes * node)) (content : list (bytes * dstate)) : result :=
  if negb (forallb (fun n => valid_base n && mt n) (names content)) then mkResult d [] [] true false
  else
    let '(d1, changed, wfail) := write_loop um out d content [] in
    let keep := if wfail then [] else names content in
    let '(d2, removed, rerr) := erase_loop mt keep d1 in
    mkResult d2 (sort changed) (sort removed) (wfail || rerr) wfail.

(* ------------------------------------------------------------------ hand model of filepath.Match for patterns made of
   literal bytes, `*` (42) and `?` (63); names contain no slash. Validated by the differential run only. *)
Fixpoint gmatch (p : bytes) (s : bytes) : bool :=
  match p with
  | [] => is_nil_b s
  | c :: p' =>
      if c =? 42 then
        (fix star (s : bytes) : bool := gmatch p' s || match s with [] => false | _ :: s' => star s' end) s
      else match s with
           | [] => false
           | x :: s' => ((c =? 63) || (c =? x)) && gmatch p' s'
           end
  end.
Definition match_any (globs : list bytes) (n : bytes) : bool := existsb (fun g => gmatch g n) globs.

(* ------------------------------------------------------------------ correspondence / monitor interface *)
Definition node_eqb (a b : node) : bool :=
  match a, b with
  | Reg c m, Reg c' m' => beq c c' && (m =? m')
  | Sym t, Sym t' => beq t t'
  | Dir e, Dir e' => Bool.eqb e e'
  | _, _ => false
  end.
Definition onode_eqb (a b : option node) : bool :=
  match a, b with Some x, Some y => node_eqb x y | None, None => true | _, _ => false end.
Definition dir_sub (a b : list (bytes * node)) : bool := forallb (fun e => onode_eqb (Some (snd e)) (lookup b (fst e))) a.
Definition dir_eqb (a b : list (bytes * node)) : bool := dir_sub a b && dir_sub b a.
Fixpoint names_eqb (a b : list bytes) : bool :=
  match a, b with
  | [], [] => true
  | x :: a', y :: b' => beq x y && names_eqb a' b'
  | _, _ => false
  end.

(* one call of EnsureDirStateGlobs (EnsureDirState when there is one glob):
   globs, umask, outside table, directory before, content in the order the implementation visited it,
   observed: changed, removed, err != nil, directory after *)
Inductive case :=
| CSync (globs : list bytes) (um : N) (out : list (bytes * onode)) (d : list (bytes * node))
        (content : list (bytes * dstate)) (changed removed : list bytes) (err : bool) (after : list (bytes * node))
| CMatch (glob name : bytes) (ok : bool).                        (* filepath.Match(glob, name) *)

Definition mismatch (c : case) : bool :=
  match c with
  | CSync globs um out d content changed removed err after =>
      let r := ensure_dir_state (match_any globs) um out d content in
      negb (dir_eqb (r_dir r) after) || negb (names_eqb (r_changed r) changed)
      || negb (names_eqb (r_removed r) removed) || negb (Bool.eqb (r_err r) err)
  | CMatch g n ok => negb (Bool.eqb (gmatch g n) ok)
  end.

(* The property on the implementation's observed behaviour, written without the model's ensure_* functions.
   `reads_as`: the name, opened the way the code opens it, has the desired state. *)
Definition in_state (out : list (bytes * onode)) (cur : option node) (ds : dstate) : bool :=
  match node_same out cur ds with Some true => true | _ => false end.
Definition reads_as (out : list (bytes * onode)) (v : node) (ds : dstate) : bool := in_state out (Some v) ds.
Fixpoint sortedb (l : list bytes) : bool :=
  match l with
  | x :: ((y :: _) as r) => ble x y && negb (beq x y) && sortedb r
  | _ => true
  end.
Definition umask_ok (um : N) (content : list (bytes * dstate)) : bool :=
  forallb (fun e => match snd e with DReg _ m _ => N.land (perm m) um =? 0 | _ => true end) content.

Definition monitor_fail (c : case) : bool :=
  match c with
  | CMatch _ _ _ => false
  | CSync globs um out d content changed removed err after =>
      let mt := match_any globs in
      let untouched := forallb (fun e => mt (fst e) || onode_eqb (Some (snd e)) (lookup after (fst e))) d
                       && forallb (fun e => mt (fst e) || onode_eqb (Some (snd e)) (lookup d (fst e))) after in
      if negb err then
        (* success: managed names are exactly the desired ones, in the desired state; lists exact and sorted *)
        negb (untouched
              && (negb (umask_ok um content) ||
                  forallb (fun e => match lookup after (fst e) with Some v => reads_as out v (snd e) | None => false end) content)
              && forallb (fun e => negb (mt (fst e)) || mem_name (fst e) (names content)) after
              && sortedb changed && sortedb removed
              && forallb (fun n => mem_name n (names content)
                                   && negb (match lookup d n with Some v => match lookup content n with Some ds => reads_as out v ds | None => false end | None => false end)) changed
              && forallb (fun e => mem_name (fst e) changed
                                   || (match lookup d (fst e) with Some v => reads_as out v (snd e) | None => false end)) content
              && forallb (fun n => mt n && negb (mem_name n (names content)) && mem_name n (names d)) removed
              && forallb (fun e => negb (mt (fst e)) || mem_name (fst e) (names content) || mem_name (fst e) removed) d)
      else
        (* an error was returned. If it came from the change phase (some entry cannot be ensured against the initial
           directory) the call must have failed closed: nothing reported changed, and every managed name is gone
           unless it is a non-empty directory (os.Remove cannot remove it). Unrelated names untouched either way. *)
        let bad_input := negb (forallb (fun n => valid_base n && mt n) (names content)) in
        if bad_input then negb (dir_eqb d after && is_nil_b changed && is_nil_b removed)
        else
          let wfail := existsb (fun e => match efs um out (lookup d (fst e)) (snd e) with FErr => true | _ => false end) content in
          negb untouched
          || (wfail && negb (is_nil_b changed
                             && forallb (fun e => negb (mt (fst e)) || negb (removable (snd e))) after))
  end.
