(* C16 — model of timeutil/schedule.go (Clock, Week, WeekSpan.Match, ClockSpan.Window/ClockSpans, Schedule.Next,
   Schedule.Includes, Next) on UTC times, and of the bounded next-refresh computation. No proofs in this file.
   Times are seconds since 1970-01-01 UTC (Z); a day number is t / 86400. Time zones and DST are NOT modelled: in
   UTC every t.Add(24h) / AddDate step is pure day arithmetic and all times compared inside WeekSpan.Match share the
   time of day of t, so Match is a function of the day number. Durations inside ClockSpans are nanoseconds like Go's. *)
From Coq Require Import List ZArith Bool.
Import ListNotations.
Require Import V.lib.Civil.
Open Scope Z_scope.

Record clock := mkClock { hour : Z; minute : Z }.
Record week := mkWeek { wday : Z; pos : Z }.                      (* pos 0 = every week, 5 = last *)
Record weekspan := mkWS { ws_start : week; ws_end : week }.
Record clockspan := mkCS { cs_start : clock; cs_end : clock; split : Z; spread : bool }.
Record schedule := mkSched { weekspans : list weekspan; clockspans : list clockspan }.
Record window := mkWin { w_start : Z; w_end : Z; w_spread : bool }.

Definition clock_eqb (a b : clock) : bool := (hour a =? hour b) && (minute a =? minute b).
Definition week_eqb (a b : week) : bool := (wday a =? wday b) && (pos a =? pos b).

(* ------------------------------------------------------------------ Clock.Sub / Clock.Add / ClockSpan.ClockSpans *)
Definition hour_ns : Z := 3600000000000.
Definition minute_ns : Z := 60000000000.
Definition clock_ns (c : clock) : Z := hour c * hour_ns + minute c * minute_ns.

(* Clock.Sub *)
Definition clock_sub (t o : clock) : Z :=
  let d := clock_ns t - clock_ns o in if d <? 0 then - (d + 24 * hour_ns) else d.

(* Clock.Add: int(t2.Hours()) % 24, int(t2.Minutes()) % 60 (truncating conversions, Go remainder) *)
Definition clock_add (t : clock) (dur : Z) : clock :=
  let t2 := clock_ns t + dur in
  mkClock (Z.rem (Z.quot t2 hour_ns) 24) (Z.rem (Z.quot t2 minute_ns) 60).

(* ClockSpan.ClockSpans *)
Definition clock_spans (ts : clockspan) : list clockspan :=
  if (split ts =? 0) || (split ts =? 1) || clock_eqb (cs_end ts) (cs_start ts) then [ts]
  else
    let span := Z.abs (clock_sub (cs_end ts) (cs_start ts)) in
    let step := Z.quot span (split ts) in
    map (fun i => let st := clock_add (cs_start ts) (Z.of_nat i * step) in
                  mkCS st (clock_add st step) 0 (spread ts))
        (seq 0 (Z.to_nat (split ts))).

(* Schedule.flattenedClockSpans *)
Definition flattened (s : schedule) : list clockspan :=
  flat_map clock_spans (match clockspans s with [] => [mkCS (mkClock 0 0) (mkClock 0 0) 0 false] | l => l end).

(* Clock.Time on day D (time.Date normalises hour 24 to the next day) *)
Definition clock_time (c : clock) (D : Z) : Z := D * 86400 + hour c * 3600 + minute c * 60.

(* ClockSpan.Window for the date of day D *)
Definition window_of (cs : clockspan) (D : Z) : window :=
  let s := clock_time (cs_start cs) D in
  let e := clock_time (cs_end cs) D in
  mkWin s (if e <? s then e + 86400 else e) (spread cs).

(* ------------------------------------------------------------------ WeekSpan.Match *)
Definition weekday_match (ws : weekspan) (D : Z) : bool :=
  let w := weekday_of D in
  let a := wday (ws_start ws) in
  let b := wday (ws_end ws) in
  if a <=? b then (a <=? w) && (w <=? b) else (a <=? w) || (w <=? b).

(* findNthWeekDay: from the first of the month, the nth day with that weekday (n >= 1; the Go loop walks day by day) *)
Definition find_nth_weekday (D wd n : Z) : Z :=
  let f := D - dom_of D + 1 in f + (wd - weekday_of f) mod 7 + 7 * (n - 1).

(* monthNext *)
Fixpoint month_next_loop (fuel : nat) (n m : Z) : Z :=
  match fuel with
  | O => n
  | S f => if month_of n =? m then month_next_loop f (n + 1) m else n
  end.
Definition month_next (D : Z) : Z :=
  let n := month_next_loop 5 (D + 28) (month_of D) in
  if dom_of n =? 1 then n else n - dom_of n + 1.

(* monthPrev: t.AddDate(0, 0, -(t.Day()+1)) — the day before the last day of the previous month *)
Definition month_prev (D : Z) : Z := D - (dom_of D + 1).

(* findLastWeekDay *)
Definition find_last_weekday (D wd : Z) : Z :=
  let n := month_next D - 1 in n - (weekday_of n - wd) mod 7.

(* matchingWeekdaysInMonth *)
Definition matching_weekdays_in_month (D : Z) : Z := (dom_of D - 1) / 7 + 1.
(* isLastWeekdayInMonth *)
Definition is_last_weekday_in_month (D : Z) : bool := negb (month_of D =? month_of (D + 7)).

Definition is_single_day (ws : weekspan) : bool := week_eqb (ws_start ws) (ws_end ws).
Definition anchored_at_start (ws : weekspan) : bool := negb (pos (ws_start ws) =? 0).

(* dateRangeAnchoredAt *)
Definition date_range (ws : weekspan) (D : Z) : Z * Z :=
  let wp := if anchored_at_start ws then pos (ws_start ws) else pos (ws_end ws) in
  let se := if negb (wp =? 5)
            then (find_nth_weekday D (wday (ws_start ws)) wp, find_nth_weekday D (wday (ws_end ws)) wp)
            else (find_last_weekday D (wday (ws_start ws)), find_last_weekday D (wday (ws_end ws))) in
  let s := fst se in let e := snd se in
  if (e <? s) || ((s =? e) && negb (is_single_day ws))
  then (if anchored_at_start ws then (s, e + 7) else (s - 7, e))
  else (s, e).

(* WeekSpan.Match *)
Definition ws_match (ws : weekspan) (D : Z) : bool :=
  if (pos (ws_start ws) =? 0) && (pos (ws_end ws) =? 0) then weekday_match ws D
  else
    let se := date_range ws D in
    let se' :=
      if (snd se <? D) || (D <? fst se) then
        if anchored_at_start ws then
          (if negb (matching_weekdays_in_month D =? 1) then None else Some (date_range ws (month_prev D)))
        else
          (if negb (is_last_weekday_in_month D) then None else Some (date_range ws (month_next D)))
      else Some se in
    match se' with
    | None => false
    | Some (s, e) => negb ((D <? s) || (e <? D))
    end.

Definition week_ok (s : schedule) (D : Z) : bool :=
  match weekspans s with [] => true | l => existsb (fun ws => ws_match ws D) l end.

(* ------------------------------------------------------------------ Schedule.Next *)
(* the body of the inner loop over the flattened clock spans *)
Definition pick (now last D : Z) (acc : option window) (cs : clockspan) : option window :=
  let w := window_of cs D in
  if w_end w <? now then acc
  else if (w_start w <=? last) && (last <=? w_end w) then acc
  else match acc with
       | None => Some w
       | Some a => if w_start w <? w_start a then Some w else acc
       end.

(* the outer loop: t = last, last+24h, ...; fuel bounds the number of days tried (None = out of fuel) *)
Fixpoint next_from (fuel : nat) (s : schedule) (tsp : list clockspan) (now last t : Z) : option window :=
  match fuel with
  | O => None
  | S f =>
      let D := t / 86400 in
      if negb (week_ok s D) then next_from f s tsp now last (t + 86400)
      else match fold_left (pick now last D) tsp None with
           | None => next_from f s tsp now last (t + 86400)
           | Some w => if w_end w <? now then next_from f s tsp now last (t + 86400) else Some w
           end
  end.

Definition sched_next (fuel : nat) (s : schedule) (last now : Z) : option window :=
  next_from fuel s (flattened s) now last last.

(* ------------------------------------------------------------------ Schedule.Includes / Includes *)
Definition span_includes (t D : Z) (cs : clockspan) : bool :=
  let w := window_of cs D in
  let e := if w_end w =? w_start w then w_end w + 60 else w_end w in
  (w_start w <=? t) && (t <=? e) && (t <? e).

Definition sched_includes (s : schedule) (t : Z) : bool :=
  let D := t / 86400 in
  week_ok s D && existsb (span_includes t D) (flattened s).

Definition includes (l : list schedule) (t : Z) : bool := existsb (fun s => sched_includes s t) l.

(* ------------------------------------------------------------------ Next (bounded by maxDuration) *)
(* `nexts` are the windows returned by each schedule's Next(last); all times in seconds here *)
Definition choose (nexts : list window) (last maxd : Z) : window :=
  fold_left (fun w n => if w_start n <? w_start w then n else w) nexts
            (mkWin (last + maxd) (last + maxd + 3600) false).

(* the part of the returned delay that is not random (seconds) *)
Definition delay_base (w : window) (now : Z) : Z := if w_start w <? now then 0 else w_start w - now.

(* randDur's bound: the random extra delay is in [0, rand_bound) (0 if the bound is not positive) *)
Definition rand_bound (w : window) : Z :=
  let d := w_end w - w_start w in if 300 <? d then d - 300 else d.

Definition fuel_days : nat := 400.

(* ------------------------------------------------------------------ correspondence interface *)
Inductive case :=
(* Schedule.Next(last) with timeNow = now: observed window, Includes(window.Start), Includes(window.End - 1 minute)
   (true when the window is a single instant) *)
| CNext (s : schedule) (last now : Z) (w : window) (inc_start inc_tail : bool)
(* Next(schedules, last, maxd): the windows each schedule's Next(last) returned (observed), observed delay in nanoseconds *)
| CTop (l : list schedule) (last now maxd : Z) (nexts : list window) (delay_ns : Z)
(* Includes(schedules, t) *)
| CInc (l : list schedule) (t : Z) (r : bool)
(* ParseSchedule(s): accepted?, the parsed schedules, whether String() of each parses back to the same schedule *)
| CParse (accepted : bool) (l : list schedule) (roundtrip : bool).

Definition window_eqb (a b : window) : bool :=
  (w_start a =? w_start b) && (w_end a =? w_end b) && Bool.eqb (w_spread a) (w_spread b).

Definition top_window (l : list schedule) (last now maxd : Z) : option window :=
  let nexts := map (fun s => sched_next fuel_days s last now) l in
  if existsb (fun o => match o with None => true | Some _ => false end) nexts then None
  else Some (choose (flat_map (fun o => match o with Some w => [w] | None => [] end) nexts) last maxd).

(* the observed delay d (ns) is what timeutil.Next computes from window w: 0 if w starts before now, else start - now,
   plus a random amount in [0, rand_bound) for a spread window *)
Definition delay_consistent (w : window) (now d : Z) : bool :=
  let lo := delay_base w now * 1000000000 in
  if w_start w <? now then d =? 0
  else if w_spread w then (lo <=? d) && (d <=? lo + Z.max 0 (rand_bound w) * 1000000000)
  else d =? lo.

Fixpoint windows_eqb (a : list (option window)) (b : list window) : bool :=
  match a, b with
  | [], [] => true
  | Some x :: a', y :: b' => window_eqb x y && windows_eqb a' b'
  | _, _ => false
  end.

Definition mismatch (c : case) : bool :=
  match c with
  | CNext s last now w i1 i2 =>
      match sched_next fuel_days s last now with
      | None => true
      | Some m => negb (window_eqb m w) || negb (Bool.eqb (sched_includes s (w_start w)) i1) ||
                  negb (Bool.eqb (if w_start w <? w_end w then sched_includes s (w_end w - 60) else true) i2)
      end
  | CTop l last now maxd nexts d =>
      match top_window l last now maxd with
      | None => true
      | Some w =>
          negb (windows_eqb (map (fun s => sched_next fuel_days s last now) l) nexts) ||
          negb (delay_consistent w now d)
      end
  | CInc l t r => negb (Bool.eqb (includes l t) r)
  | CParse _ _ _ => false
  end.

(* well-formed parser output *)
Definition clock_wf (c : clock) : bool :=
  ((0 <=? hour c) && (hour c <=? 23) && (0 <=? minute c) && (minute c <=? 59)) || ((hour c =? 24) && (minute c =? 0)).
Definition week_wf (w : week) : bool := (0 <=? wday w) && (wday w <=? 6) && (0 <=? pos w) && (pos w <=? 5).
Definition ws_wf (ws : weekspan) : bool :=
  week_wf (ws_start ws) && week_wf (ws_end ws) &&
  ((pos (ws_start ws) =? 0) || (pos (ws_end ws) =? 0) || is_single_day ws).
Definition cs_wf (cs : clockspan) : bool := clock_wf (cs_start cs) && clock_wf (cs_end cs) && (0 <=? split cs).
Definition sched_wf (s : schedule) : bool := forallb ws_wf (weekspans s) && forallb cs_wf (clockspans s).

(* monitor: the property's conclusion on the implementation's observed behaviour.
   CNext: the returned window does not end before now, does not contain last, starts on or after the day of last,
          is not inverted; the instant it starts at is accepted by Includes, and so is its last minute.
   CTop: the delay is that of an offered (or the fallback) window starting no later than last + maxd, and 0 when overdue.
   CParse: accepted timers are well formed and survive String -> ParseSchedule. *)
Definition monitor_fail (c : case) : bool :=
  match c with
  | CNext s last now w i1 i2 =>
      (w_end w <? now) || ((w_start w <=? last) && (last <=? w_end w)) || (w_end w <? w_start w) ||
      (w_start w <? (last / 86400) * 86400) || negb i1 || negb i2
  | CTop l last now maxd nexts d =>
      (* the delay is the one of a window that STARTS no later than last + maxd: one of the windows the schedules
         offered, or the fallback at last + maxd; and it is 0 when the limit is already past *)
      (d <? 0) ||
      ((last + maxd <? now) && negb (d =? 0)) ||
      negb (existsb (fun w => (w_start w <=? last + maxd) && delay_consistent w now d)
                    (mkWin (last + maxd) (last + maxd + 3600) false :: nexts))
  | CInc _ _ _ => false
  | CParse acc l rt => acc && (negb (forallb sched_wf l) || negb rt)
  end.
