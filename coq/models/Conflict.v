(* C14 — model of overlord/snapstate/conflict.go: checkChangeConflictExclusiveKinds, isIrrelevantChange,
   CheckChangeConflictMany, checkChangeConflictIgnoringOneChange (the snapst staleness check), and of what a request
   does with the verdict (rejected: nothing is created; accepted: a new change, or new tasks in the requesting change).
   No proofs in this file.

   Snaps and change ids are numbers, change kinds are byte strings. A task is the list of snaps it affects
   (SnapsAffectedByTask) and whether its status is a ready one (Done/Undone/Hold/Error). A change is ready when all of
   its tasks are (Change.Status().Ready(); Change.IsReady() differs only for a change without tasks, which has no
   task to conflict with). A ready change is final: it receives no further progress events or tasks. *)
From Coq Require Import List NArith Bool String.
Import ListNotations.
Require Import V.lib.Bytes V.gen.ConflictKinds.
Open Scope list_scope.
Open Scope N_scope.

Record task := mkTask { t_snaps : list N; t_ready : bool }.
Record change := mkChange {
  c_id : N;
  c_kind : bytes;
  c_dg : bool;              (* changeIsSnapdDowngrade(st, chg) *)
  c_tasks : list task }.
Definition state := list change.

Definition kind_in (k : bytes) (l : list bytes) : bool := existsb (beq k) l.
Definition mem (x : N) (l : list N) : bool := existsb (N.eqb x) l.
Definition intersects (a b : list N) : bool := existsb (fun x => mem x b) a.

Definition c_ready (c : change) : bool := forallb t_ready (c_tasks c).
Definition is_ignored (c : change) (ignore : option N) : bool :=
  match ignore with Some i => c_id c =? i | None => false end.      (* ignoreChangeID != "" && chg.ID() == ignoreChangeID *)

(* one iteration of the loop of checkChangeConflictExclusiveKinds: does this change produce a conflict error?
   new_excl = (newExclusiveChangeKind != "") *)
Definition excl_hit (new_excl : bool) (ignore : option N) (c : change) : bool :=
  negb (c_ready c) &&
  (if kind_in (c_kind c) excl_always then true
   else if kind_in (c_kind c) excl_ignorable then negb (is_ignored c ignore)
   else if kind_in (c_kind c) excl_downgrade then
     negb (is_ignored c ignore) && (c_dg c || (nondowngrade_blocks_new_exclusive && new_excl))
   else new_excl).

(* checkChangeConflictExclusiveKinds(st, new, ignore) != nil *)
Definition check_exclusive (st : state) (new_excl : bool) (ignore : option N) : bool :=
  existsb (excl_hit new_excl ignore) st.

(* !isIrrelevantChange(chg, ignore) *)
Definition relevant (ignore : option N) (c : change) : bool :=
  negb (c_ready c) && negb (is_ignored c ignore) && negb (kind_in (c_kind c) irrelevant_kinds).

Definition touches (c : change) (snaps : list N) : bool :=
  existsb (fun t => intersects (t_snaps t) snaps) (c_tasks c).

(* CheckChangeConflictMany(st, snaps, ignore) != nil *)
Definition check_many (st : state) (snaps : list N) (ignore : option N) : bool :=
  check_exclusive st false ignore || existsb (fun c => relevant ignore c && touches c snaps) st.

(* checkChangeConflictIgnoringOneChange(st, snap, snapst, ignore) != nil; same = the caller passed no snapst, or one
   that is DeepEqual to the snap's current record *)
Definition check_conflict (st : state) (snap : N) (same : bool) (ignore : option N) : bool :=
  check_many st [snap] ignore || negb same.

(* ------------------------------------------------------------------ requests and progress *)
Inductive op :=
| Request (kind : bytes) (dg run_excl : bool) (ignore : option N) (same : bool) (snaps : list N) (tasks : list task)
    (* an operation on snaps: every snap is checked (CheckChangeConflict / CheckChangeConflictMany, ignoring the
       requesting change if any); run_excl: the requester also calls CheckChangeConflictRunExclusively /
       checkChangeConflictExclusiveKinds(st, kind, ignore) (remodel, recovery systems, snapd downgrade); same: see
       check_conflict. If accepted the tasks go into the requesting change when it exists and is in progress, otherwise
       into a new change of the given kind. *)
| Progress (c i : N) (r : bool)    (* task number i of change c gets a ready (r = true) or unready status *)
| Unchecked (kind : bytes) (snaps : list N)
    (* a request of an entry point that makes NO snap conflict check at all (snapshotstate.Check / Forget): a change with
       one task affecting snaps is created unconditionally. Like Inject it is outside the well-formed histories of the
       theorems; unlike Inject the monitor judges it as a request. *)
| Inject (kind : bytes) (snaps : list N).
    (* a change with one task affecting snaps that appears WITHOUT any conflict check (used by a driver to put another
       subsystem's change into the state; not a well-formed request: the theorems do not range over it) *)

Definition rejected (st : state) (o : op) : bool :=
  match o with
  | Request kind dg run_excl ignore same snaps tasks =>
      check_many st snaps ignore || negb same || (run_excl && check_exclusive st true ignore)
  | Progress _ _ _ => false
  | Inject _ _ => false
  | Unchecked _ _ => false
  end.

Definition next_id (st : state) : N := fold_right (fun c m => N.max (N.succ (c_id c)) m) 1 st.

Definition in_progress (st : state) (i : N) : bool := existsb (fun c => (c_id c =? i) && negb (c_ready c)) st.

Fixpoint set_nth (ts : list task) (i : N) (r : bool) : list task :=
  match ts with
  | [] => []
  | t :: rest => if i =? 0 then mkTask (t_snaps t) r :: rest else t :: set_nth rest (N.pred i) r
  end.

Definition step (st : state) (o : op) : state :=
  match o with
  | Request kind dg run_excl ignore same snaps tasks =>
      if rejected st o then st
      else match ignore with
           | Some i => if in_progress st i
                       then map (fun c => if c_id c =? i then mkChange (c_id c) (c_kind c) (c_dg c) (c_tasks c ++ tasks) else c) st
                       else st ++ [mkChange (next_id st) kind dg tasks]
           | None => st ++ [mkChange (next_id st) kind dg tasks]
           end
  | Progress ci i r =>
      map (fun c => if (c_id c =? ci) && negb (c_ready c)
                    then mkChange (c_id c) (c_kind c) (c_dg c) (set_nth (c_tasks c) i r) else c) st
  | Inject kind snaps => st ++ [mkChange (next_id st) kind false [mkTask snaps false]]
  | Unchecked kind snaps => st ++ [mkChange (next_id st) kind false [mkTask snaps false]]
  end.

Definition run (st : state) (ops : list op) : state := fold_left step ops st.

(* the tasks of a request only affect snaps that the request had checked *)
Definition req_wf (o : op) : bool :=
  match o with
  | Request _ _ _ _ _ snaps tasks => forallb (fun t => forallb (fun x => mem x snaps) (t_snaps t)) tasks
  | Progress _ _ _ => true
  | Inject _ _ => false
  | Unchecked _ _ => false
  end.

(* the changes that count: in progress and not of an exempt kind (pre-download, become-operational) *)
Definition counts (c : change) : bool := relevant None c.
Definition is_exclusive (c : change) : bool :=
  kind_in (c_kind c) excl_always || kind_in (c_kind c) excl_ignorable || (kind_in (c_kind c) excl_downgrade && c_dg c).

(* ------------------------------------------------------------------ correspondence interface *)
(* direct calls: a state built by the driver and one query on it with the observed verdict *)
Inductive query :=
| QMany (snaps : list N) (ignore : option N)          (* CheckChangeConflictMany *)
| QExcl (ignore : option N)                           (* checkChangeConflictExclusiveKinds(st, kind, ignore), kind != "" *)
| QConflict (snap : N) (same : bool) (ignore : option N).  (* checkChangeConflictIgnoringOneChange *)

Definition answer (st : state) (q : query) : bool :=
  match q with
  | QMany snaps ignore => check_many st snaps ignore
  | QExcl ignore => check_exclusive st true ignore
  | QConflict snap same ignore => check_conflict st snap same ignore
  end.

(* a history through the API: every step is an operation, whether the implementation rejected it with a conflict
   error, and what the driver then saw in the state: number of changes, number of tasks belonging to changes, and for
   every snap the ids of the in-progress non-exempt changes having a task that affects it *)
Record hobs := mkHobs {
  ho_op : op;
  ho_rejected : bool;
  ho_nchanges : N;
  ho_ntasks : N;
  ho_touching : list (N * list N) }.

Inductive case :=
| Direct (st : state) (qs : list (query * bool))
| History (nsnaps : N) (steps : list hobs).

Definition ntasks (st : state) : N := fold_right (fun c n => N.of_nat (List.length (c_tasks c)) + n) 0 st.
Definition touching (st : state) (x : N) : list N :=
  map c_id (filter (fun c => counts c && touches c [x]) st).
Fixpoint list_eqb (a b : list N) : bool :=
  match a, b with
  | [], [] => true
  | x :: a', y :: b' => (x =? y) && list_eqb a' b'
  | _, _ => false
  end.
Fixpoint lookup (l : list (N * list N)) (x : N) : list N :=
  match l with [] => [] | (k, v) :: r => if k =? x then v else lookup r x end.
Definition ids (n : N) : list N := map N.of_nat (seq 1 (N.to_nat n)).   (* 1 .. n *)

Fixpoint mismatch_steps (n : N) (st : state) (steps : list hobs) : bool :=
  match steps with
  | [] => false
  | h :: r =>
      let rej := rejected st (ho_op h) in
      let st' := step st (ho_op h) in
      if Bool.eqb rej (ho_rejected h) && (N.of_nat (List.length st') =? ho_nchanges h) && (ntasks st' =? ho_ntasks h)
         && forallb (fun x => list_eqb (touching st' x) (lookup (ho_touching h) x)) (ids n)
      then mismatch_steps n st' r else true
  end.

Definition mismatch (c : case) : bool :=
  match c with
  | Direct st qs => existsb (fun qa => negb (Bool.eqb (answer st (fst qa)) (snd qa))) qs
  | History n steps => mismatch_steps n [] steps
  end.

(* monitor: the property on the observed behaviour only.
   Direct: with an in-progress exclusive change that is not the ignored one every query is answered conflict; a query
   about a snap affected by a task of an in-progress, non-exempt, non-ignored change is answered conflict; a stale snap
   record is answered conflict.
   History: after every step each snap is touched by at most one in-progress non-exempt change; a rejected request
   leaves the numbers of changes and tasks as they were. *)
Definition kind_exempt (k : bytes) : bool :=
  beq k (bs "pre-download"%string) || beq k (bs "become-operational"%string).
Definition kind_exclusive (k : bytes) (dg : bool) : bool :=
  beq k (bs "remodel"%string) || beq k (bs "transition-ubuntu-core"%string) || beq k (bs "transition-to-snapd-snap"%string)
  || beq k (bs "create-recovery-system"%string) || beq k (bs "remove-recovery-system"%string)
  || ((beq k (bs "refresh-snap"%string) || beq k (bs "revert-snap"%string)) && dg).

Definition q_ignore (q : query) : option N :=
  match q with QMany _ i => i | QExcl i => i | QConflict _ _ i => i end.

Definition must_conflict (st : state) (q : query) : bool :=
  existsb (fun c => negb (c_ready c) && kind_exclusive (c_kind c) (c_dg c) && negb (is_ignored c (q_ignore q))) st
  || match q with
     | QMany snaps ignore =>
         existsb (fun c => negb (c_ready c) && negb (kind_exempt (c_kind c)) && negb (is_ignored c ignore) && touches c snaps) st
     | QConflict snap same ignore =>
         negb same
         || existsb (fun c => negb (c_ready c) && negb (kind_exempt (c_kind c)) && negb (is_ignored c ignore) && touches c [snap]) st
     | QExcl ignore =>
         (* a new exclusive change is refused while any other change is in progress (an ordinary refresh-snap /
            revert-snap change included: repaired defect, fixed: line in KNOWN_FINDINGS) *)
         existsb (fun c => negb (c_ready c) && negb (is_ignored c ignore)) st
     end.

Definition is_accepted_request (h : hobs) : bool :=
  match ho_op h with Request _ _ _ _ _ _ _ => negb (ho_rejected h) | Unchecked _ _ => true | _ => false end.

(* after an accepted request: no snap has gained a further in-progress non-exempt change so that it now has more than
   one; the tasks created affect only snaps the request had checked. After a rejected request: nothing was created.
   (Changes put into the state by the driver itself with Inject are not judged.) *)
Fixpoint monitor_steps (prev_changes prev_tasks : N) (prev_touching : list (N * list N)) (steps : list hobs) : bool :=
  match steps with
  | [] => false
  | h :: r =>
      let crowded := is_accepted_request h &&
            existsb (fun e => negb (N.of_nat (List.length (snd e)) <=? 1)
                              && negb (N.of_nat (List.length (snd e)) <=? N.of_nat (List.length (lookup prev_touching (fst e)))))
                    (ho_touching h) in
      let unchecked := match ho_op h with Request _ _ _ _ _ _ _ => negb (ho_rejected h) && negb (req_wf (ho_op h)) | _ => false end in
      let grew := ho_rejected h && negb ((ho_nchanges h =? prev_changes) && (ho_ntasks h =? prev_tasks)) in
      if crowded || unchecked || grew then true else monitor_steps (ho_nchanges h) (ho_ntasks h) (ho_touching h) r
  end.

Definition monitor_fail (c : case) : bool :=
  match c with
  | Direct st qs => existsb (fun qa => must_conflict st (fst qa) && negb (snd qa)) qs
  | History n steps => monitor_steps 0 0 [] steps
  end.
