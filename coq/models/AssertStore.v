(* C19 - model of the assertion stores of snapd: asserts/membackstore.go (memBSLeaf.cur/put/get/search,
   memBSSeqLeaf.sequenceMemberAfter), asserts/fsbackstore.go (pickLatestAssertion, currentAssertion, Put, Get, Search,
   SequenceMemberAfter) and the database layer of asserts/database.go (Add's format / trusted / predefined checks, find,
   findMany, FindSequence).  No proofs in this file.

   Both backstores keep, per assertion type and primary key, at most one assertion per format number (a Go map
   format -> assertion in memory, files active / active.N on disk).  The model keeps the stored assertions in one flat
   list with at most one entry per slot (type, primary key, format).  Signatures, account keys and validity dates are
   outside this property (C18). *)
From Coq Require Import List NArith ZArith Bool.
Import ListNotations.
Require Import V.lib.Bytes.
Open Scope N_scope.

(* a_tag identifies the add operation that produced the assertion (a header the driver puts in), a_seq is
   SequenceMember.Sequence() for sequence-forming types (last primary key component) and 0 otherwise *)
Record asn := mkA { a_typ : N; a_key : list bytes; a_fmt : N; a_rev : N; a_seq : N; a_tag : N }.

Definition store := list asn.

(* types used by the driver: 0 test-only, 1 test-only-2, 2 test-only-seq (sequence forming), 3 account *)
Definition max_supp (t : N) : N := if t =? 0 then 1 else if t =? 2 then 2 else 0.
Definition seq_forming (t : N) : bool := t =? 2.

Fixpoint key_eqb (a b : list bytes) : bool :=
  match a, b with
  | [], [] => true
  | x :: a', y :: b' => beq x y && key_eqb a' b'
  | _, _ => false
  end.

Definition same_key (t : N) (k : list bytes) (x : asn) : bool := (a_typ x =? t) && key_eqb (a_key x) k.
Definition same_slot (a x : asn) : bool := same_key (a_typ a) (a_key a) x && (a_fmt x =? a_fmt a).

(* the highest revision of a list (cur / pickLatestAssertion: strictly greater wins) *)
Fixpoint best (l : list asn) : option asn :=
  match l with
  | [] => None
  | x :: r => match best r with
              | None => Some x
              | Some b => if a_rev x <? a_rev b then Some b else Some x
              end
  end.

(* memBSLeaf.cur(key0, maxFormat) / currentAssertion(primaryPath, maxFormat) *)
Definition cur (s : store) (t : N) (k : list bytes) (maxf : N) : option asn :=
  best (filter (fun x => same_key t k x && (a_fmt x <=? maxf)) s).

Inductive addres := Accepted | RevErr | Unsupported | Clash.

(* leaf[key0][assert.Format()] = assert / atomicWriteEntry(active.N) *)
Definition insert (a : asn) (s : store) : store := a :: filter (fun x => negb (same_slot a x)) s.

(* memBSLeaf.put / filesystemBackstore.Put *)
Definition put (s : store) (a : asn) : store * addres :=
  match cur s (a_typ a) (a_key a) (max_supp (a_typ a)) with
  | Some c => if a_rev a <=? a_rev c then (s, RevErr) else (insert a s, Accepted)
  | None => (insert a s, Accepted)
  end.

(* Get *)
Definition get (s : store) (t : N) (k : list bytes) (maxf : N) : option asn := cur s t k maxf.

(* Search with a hint on the primary key (empty component = wildcard): the current assertion of every matching key *)
Fixpoint hint_match (hint k : list bytes) : bool :=
  match hint, k with
  | [], [] => true
  | h :: hint', x :: k' => (is_nil_b h || beq h x) && hint_match hint' k'
  | _, _ => false
  end.

Fixpoint insert_tag (x : N) (l : list N) : list N :=
  match l with
  | [] => [x]
  | y :: r => if x <? y then x :: l else if x =? y then l else y :: insert_tag x r
  end.

Definition tags_of (l : list asn) : list N := fold_right (fun a acc => insert_tag (a_tag a) acc) [] l.

Definition currents (s : store) (t : N) (maxf : N) (p : asn -> bool) : list asn :=
  flat_map (fun x => if (a_typ x =? t) && p x
                     then match cur s t (a_key x) maxf with Some c => [c] | None => [] end
                     else []) s.

Definition search (s : store) (t : N) (hint : list bytes) (maxf : N) : list N :=
  tags_of (currents s t maxf (fun x => hint_match hint (a_key x))).

(* The filesystem backstore finds assertions by file name: every primary-key value is escaped into one path component
   (url.QueryEscape) when an assertion is written and when a search pattern is built; an empty header is the wildcard.
   [search_esc] is Search as the file names see it, for an arbitrary escape function; it is proved equal to [search]
   for every injective escape (C19_search_any_injective_escape). *)
Section Escape.
  Variable esc : bytes -> bytes.
  Fixpoint pat_match (hint k : list bytes) : bool :=
    match hint, k with
    | [], [] => true
    | h :: hint', x :: k' => (is_nil_b h || beq (esc h) (esc x)) && pat_match hint' k'
    | _, _ => false
    end.
  Definition search_esc (s : store) (t : N) (hint : list bytes) (maxf : N) : list N :=
    tags_of (currents s t maxf (fun x => pat_match hint (a_key x))).
End Escape.

(* escapeComp of asserts/fsbackstore.go: url.QueryEscape (letters, digits and - _ . ~ stay, a space becomes +, every
   other byte becomes %XX with upper-case hex digits), then the two values that name directories, "." and "..", get
   their dots escaped as well (repair 2f752eb). *)
Definition hex_digit (d : N) : N := if d <? 10 then 48 + d else 55 + d.
Definition unreserved (c : N) : bool :=
  is_alpha c || is_digit c || (c =? 45) || (c =? 95) || (c =? 46) || (c =? 126).

Fixpoint query_escape (s : bytes) : bytes :=
  match s with
  | [] => []
  | c :: r => if unreserved c then c :: query_escape r
              else if c =? 32 then 43 :: query_escape r
              else 37 :: hex_digit (c / 16) :: hex_digit (c mod 16) :: query_escape r
  end.

Definition ESC_DOT : bytes := [37; 50; 69].                       (* %2E *)
Definition escape_comp (s : bytes) : bytes :=
  let q := query_escape s in
  if beq q [46] then ESC_DOT else if beq q [46; 46] then ESC_DOT ++ ESC_DOT else q.

(* url.QueryUnescape, used only to state that the escape can be undone *)
Definition unhex (c : N) : N := if c <? 58 then c - 48 else c - 55.
Fixpoint unescape (s : bytes) : bytes :=
  match s with
  | [] => []
  | c :: r => if c =? 43 then 32 :: unescape r
              else if c =? 37 then match r with
                                   | h :: l :: r' => (unhex h * 16 + unhex l) :: unescape r'
                                   | _ => c :: unescape r
                                   end
              else c :: unescape r
  end.

(* filepath.Join cleans the joined path: a component "." disappears and ".." removes the component before it; the
   escaped components are never one of the two (C19_escape_safe), so every key keeps a path of its own. *)
Definition DOT : bytes := [46].
Definition DOTDOT : bytes := [46; 46].
Definition is_dot (c : bytes) : bool := beq c DOT || beq c DOTDOT.
Definition clean_path (k : list bytes) : list bytes :=
  fold_left (fun acc c => if beq c DOT then acc else if beq c DOTDOT then removelast acc else acc ++ [c]) k [].

(* SequenceMemberAfter(sequenceKey, after, maxFormat): after = -1 -> the latest member; otherwise the first member with
   a sequence number > after; only members that have an assertion with format <= maxFormat count *)
Definition prefix_of (k : list bytes) : list bytes := removelast k.

Fixpoint pick (better : asn -> asn -> bool) (l : list asn) : option asn :=
  match l with
  | [] => None
  | x :: r => match pick better r with
              | None => Some x
              | Some b => if better x b then Some x else Some b
              end
  end.

Definition seq_after (s : store) (t : N) (prefix : list bytes) (after : Z) (maxf : N) : option asn :=
  let members := currents s t maxf (fun x => key_eqb (prefix_of (a_key x)) prefix) in
  if (after =? -1)%Z then pick (fun x b => a_seq b <? a_seq x) members
  else pick (fun x b => a_seq x <? a_seq b) (filter (fun x => (after <? Z.of_N (a_seq x))%Z) members).

(* ------------------------------------------------------------------ database layer *)
Record db := mkDb { d_trusted : list (N * list bytes); d_predefined : list (N * list bytes); d_bs : store }.

Definition in_keys (t : N) (k : list bytes) (l : list (N * list bytes)) : bool :=
  existsb (fun e => (fst e =? t) && key_eqb (snd e) k) l.

(* Database.Add after a successful signature check: unsupported formats are refused (Check), then primary keys
   clashing with trusted or predefined assertions, then the backstore's revision rule *)
Definition db_add (d : db) (a : asn) : db * addres :=
  if max_supp (a_typ a) <? a_fmt a then (d, Unsupported)
  else if in_keys (a_typ a) (a_key a) (d_trusted d) || in_keys (a_typ a) (a_key a) (d_predefined d) then (d, Clash)
  else let '(s', r) := put (d_bs d) a in (mkDb (d_trusted d) (d_predefined d) s', r).

(* ------------------------------------------------------------------ histories *)
Inductive op :=
| OAdd (a : asn)
| OGet (t : N) (k : list bytes) (maxf : N)
| OSearch (t : N) (hint : list bytes) (maxf : N)
| OSeq (t : N) (prefix : list bytes) (after : Z) (maxf : N).

Inductive obs :=
| RAdd (r : addres)
| RFound (tags : list N)          (* tags of the returned assertions, sorted *)
| RNotFound
| ROther.                         (* any other error *)

Definition found1 (o : option asn) : obs := match o with Some a => RFound [a_tag a] | None => RNotFound end.

(* one operation on a backstore *)
Definition bs_step (s : store) (o : op) : store * obs :=
  match o with
  | OAdd a => let '(s', r) := put s a in (s', RAdd r)
  | OGet t k m => (s, found1 (get s t k m))
  | OSearch t h m => (s, match search s t h m with [] => RNotFound | l => RFound l end)
  | OSeq t p after m => (s, found1 (seq_after s t p after m))
  end.

(* one operation on the database: lookups above the supported format are an error; FindMany always uses the maximum
   supported format *)
Definition db_step (d : db) (o : op) : db * obs :=
  match o with
  | OAdd a => let '(d', r) := db_add d a in (d', RAdd r)
  | OGet t k m => (d, if max_supp t <? m then ROther else found1 (get (d_bs d) t k m))
  | OSearch t h _ => (d, match search (d_bs d) t h (max_supp t) with [] => RNotFound | l => RFound l end)
  | OSeq t p after m => (d, if max_supp t <? m then ROther else found1 (seq_after (d_bs d) t p after m))
  end.

Fixpoint bs_run (s : store) (ops : list op) : store * list obs :=
  match ops with
  | [] => (s, [])
  | o :: r => let '(s1, x) := bs_step s o in let '(s2, xs) := bs_run s1 r in (s2, x :: xs)
  end.

Fixpoint db_run (d : db) (ops : list op) : db * list obs :=
  match ops with
  | [] => (d, [])
  | o :: r => let '(d1, x) := db_step d o in let '(d2, xs) := db_run d1 r in (d2, x :: xs)
  end.

(* ------------------------------------------------------------------ correspondence interface *)
(* the same history on the memory backstore, the filesystem backstore and a Database (memory backstore underneath,
   with the given trusted and predefined primary keys) *)
Inductive case :=
| CHist (trusted predefined : list (N * list bytes)) (ops : list op) (mem fs dbo : list obs)
(* the name of the directory the filesystem backstore created for a one-key assertion with primary key [v] *)
| CEsc (v dirname : bytes).

Fixpoint list_eqbN (a b : list N) : bool :=
  match a, b with
  | [], [] => true
  | x :: a', y :: b' => (x =? y) && list_eqbN a' b'
  | _, _ => false
  end.

Definition addres_eqb (a b : addres) : bool :=
  match a, b with
  | Accepted, Accepted | RevErr, RevErr | Unsupported, Unsupported | Clash, Clash => true
  | _, _ => false
  end.

Definition obs_eqb (a b : obs) : bool :=
  match a, b with
  | RAdd x, RAdd y => addres_eqb x y
  | RFound x, RFound y => list_eqbN x y
  | RNotFound, RNotFound => true
  | ROther, ROther => true
  | _, _ => false
  end.

Fixpoint obs_list_eqb (a b : list obs) : bool :=
  match a, b with
  | [], [] => true
  | x :: a', y :: b' => obs_eqb x y && obs_list_eqb a' b'
  | _, _ => false
  end.

Definition mismatch (c : case) : bool :=
  match c with
  | CHist tr pd ops mem fs dbo =>
      negb (obs_list_eqb (snd (bs_run [] ops)) mem
            && obs_list_eqb (snd (bs_run [] ops)) fs
            && obs_list_eqb (snd (db_run (mkDb tr pd []) ops)) dbo)
  | CEsc v dirname => negb (beq (escape_comp v) dirname)
  end.

(* The property's conclusion evaluated on the observed behaviour, with a reference that is deliberately not the
   model above: a plain replay of the observed history that remembers, per primary key, the accepted add with the
   highest revision.
   - an add is accepted iff its revision is higher than the highest accepted one for its key (database: and its
     format is supported and its key is not trusted/predefined);
   - a get at the maximum supported format returns exactly that highest accepted add;
   - the two backstores agree on every result. *)
Fixpoint ref_lookup (t : N) (k : list bytes) (r : list asn) : option asn :=
  match r with
  | [] => None
  | x :: r' => if same_key t k x then Some x else ref_lookup t k r'
  end.

Definition ref_set (a : asn) (r : list asn) : list asn :=
  a :: filter (fun x => negb (same_key (a_typ a) (a_key a) x)) r.

Fixpoint monitor_bs (r : list asn) (ops : list op) (os : list obs) : bool :=
  match ops, os with
  | [], [] => true
  | OAdd a :: ops', o :: os' =>
      let higher := match ref_lookup (a_typ a) (a_key a) r with Some c => a_rev c <? a_rev a | None => true end in
      if a_fmt a <=? max_supp (a_typ a) then
        match o with
        | RAdd Accepted => higher && monitor_bs (ref_set a r) ops' os'
        | RAdd RevErr => negb higher && monitor_bs r ops' os'
        | _ => false
        end
      else monitor_bs r ops' os'        (* unsupported formats put directly into a backstore: not constrained here *)
  | OGet t k m :: ops', o :: os' =>
      (if m =? max_supp t
       then obs_eqb o (found1 (ref_lookup t k r))
       else true) && monitor_bs r ops' os'
  | _ :: ops', _ :: os' => monitor_bs r ops' os'
  | _, _ => false
  end.

Fixpoint monitor_db (tr pd : list (N * list bytes)) (r : list asn) (ops : list op) (os : list obs) : bool :=
  match ops, os with
  | [], [] => true
  | OAdd a :: ops', o :: os' =>
      let higher := match ref_lookup (a_typ a) (a_key a) r with Some c => a_rev c <? a_rev a | None => true end in
      if max_supp (a_typ a) <? a_fmt a then obs_eqb o (RAdd Unsupported) && monitor_db tr pd r ops' os'
      else if in_keys (a_typ a) (a_key a) tr || in_keys (a_typ a) (a_key a) pd
      then obs_eqb o (RAdd Clash) && monitor_db tr pd r ops' os'
      else match o with
           | RAdd Accepted => higher && monitor_db tr pd (ref_set a r) ops' os'
           | RAdd RevErr => negb higher && monitor_db tr pd r ops' os'
           | _ => false
           end
  | OGet t k m :: ops', o :: os' =>
      (if m =? max_supp t then obs_eqb o (found1 (ref_lookup t k r)) else true) && monitor_db tr pd r ops' os'
  | _ :: ops', _ :: os' => monitor_db tr pd r ops' os'
  | _, _ => false
  end.

Definition only_supported (ops : list op) : bool :=
  forallb (fun o => match o with OAdd a => a_fmt a <=? max_supp (a_typ a) | _ => true end) ops.

Definition monitor_fail (c : case) : bool :=
  match c with
  | CHist tr pd ops mem fs dbo =>
      negb (obs_list_eqb mem fs)
      || (only_supported ops && negb (monitor_bs [] ops mem && monitor_bs [] ops fs))
      || negb (monitor_db tr pd [] ops dbo)
  | CEsc v dirname =>        (* the name is a single, ordinary path component and leads back to the key *)
      is_dot dirname || is_nil_b dirname || existsb (fun c => c =? 47) dirname || negb (beq (unescape dirname) v)
  end.
