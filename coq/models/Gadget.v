(* C38 — model of the gadget volume pipeline of gadget/gadget.go, gadget/ondisk.go and gadget/layout.go:
   quantity.ParseSize/ParseOffset, setImplicitForVolume, orderStructuresByOffset, validateVolume /
   validateVolumeStructure / validateRole (the size, min-size and mbr parts), validateCrossVolumeStructure,
   Volume.MinSize, validateOffsetWrite, OnDiskStructsFromGadget, layOutStructureContent (as called by LayoutVolume).
   quantity.Size and quantity.Offset are uint64: every sum the Go code computes is written with add64 (mod 2^64).
   No proofs in this file. *)
From Coq Require Import List NArith ZArith Bool.
Import ListNotations.
Open Scope N_scope.

Definition W : N := 18446744073709551616.                      (* 2^64 *)
Definition add64 (a b : N) : N := (a + b) mod W.

(* ------------------------------------------------------------------ quantity.parseSizeOrOffset / ParseSize / ParseOffset
   strutil.SplitUnit hands over an int64 number and the unit; the product is an int64 product (wraps); a negative
   result is refused. The driver only sends digit strings that strconv.ParseInt accepts (|num| < 2^63). *)
Inductive qunit := UB | UM | UG.
Record qty := Q { q_num : Z; q_unit : qunit }.
Definition wrap_i64 (z : Z) : Z := ((z + 9223372036854775808) mod 18446744073709551616 - 9223372036854775808)%Z.
Definition unit_mult (u : qunit) : Z := match u with UB => 1 | UM => 1048576 | UG => 1073741824 end%Z.
Definition parse_qty (q : qty) : option N :=
  let r := wrap_i64 (q_num q * unit_mult (q_unit q)) in
  if (r <? 0)%Z then None else Some (Z.to_N r).
(* the number the text denotes *)
Definition qty_value (q : qty) : Z := (q_num q * unit_mult (q_unit q))%Z.

(* ------------------------------------------------------------------ volume definitions
   raw: as written in gadget.yaml (quantities unparsed, absent fields None).
   rs_mbr: the structure is the MBR (type: mbr, or role: mbr on a bare / GUID-typed structure);
   rs_fs : VolumeStructure.HasFilesystem (a filesystem is declared): raw image content is laid out only when false;
   rs_ow : offset-write, (relative-to structure named by its yaml index | absolute, offset);
   rc_image: size of the image file found in the gadget root dir (None: no such file). *)
Record raw_content := RC { rc_offset : option qty; rc_size : option qty; rc_image : option N }.
Record raw_struct := RS { rs_offset : option qty; rs_size : option qty; rs_min : option qty; rs_mbr : bool; rs_fs : bool;
                          rs_ow : option (option N * qty); rs_content : list raw_content }.
Record raw_volume := RV { rv_partial_size : bool; rv_structs : list raw_struct }.

Record content := C { c_offset : option N; c_size : N; c_image : option N }.
Record structure := S { s_idx : N; s_offset : option N; s_size : N; s_min : N; s_mbr : bool; s_fs : bool;
                        s_ow : option (option N * N); s_content : list content }.

(* yaml decoding of the quantities: an absent size is 0, an absent offset is nil, any unparsable quantity fails the load *)
Definition parse_opt0 (o : option qty) : option N := match o with None => Some 0 | Some q => parse_qty q end.
Definition parse_optp (o : option qty) : option (option N) :=
  match o with None => Some None | Some q => option_map Some (parse_qty q) end.

Definition parse_content (r : raw_content) : option content :=
  match parse_optp (rc_offset r), parse_opt0 (rc_size r) with
  | Some o, Some sz => Some (C o sz (rc_image r))
  | _, _ => None
  end.

Fixpoint parse_all {A B} (f : A -> option B) (l : list A) : option (list B) :=
  match l with
  | [] => Some []
  | x :: r => match f x, parse_all f r with Some y, Some ys => Some (y :: ys) | _, _ => None end
  end.

(* parseRelativeOffset: offsets above 4G are refused *)
Definition four_g : N := 4294967296.
Definition parse_ow (o : option (option N * qty)) : option (option (option N * N)) :=
  match o with
  | None => Some None
  | Some (rel, q) => match parse_qty q with
                     | Some v => if four_g <? v then None else Some (Some (rel, v))
                     | None => None
                     end
  end.

Definition parse_struct (idx : N) (r : raw_struct) : option structure :=
  match parse_optp (rs_offset r), parse_opt0 (rs_size r), parse_opt0 (rs_min r), parse_ow (rs_ow r),
        parse_all parse_content (rs_content r) with
  | Some o, Some sz, Some mn, Some ow, Some cs => Some (S idx o sz mn (rs_mbr r) (rs_fs r) ow cs)
  | _, _, _, _, _ => None
  end.

Fixpoint parse_structs (idx : N) (l : list raw_struct) : option (list structure) :=
  match l with
  | [] => Some []
  | r :: t => match parse_struct idx r, parse_structs (idx + 1) t with
              | Some s, Some ss => Some (s :: ss)
              | _, _ => None
              end
  end.

(* ------------------------------------------------------------------ setImplicitForVolume (the offset / min-size part) *)
Definition with_min (s : structure) (m : N) : structure :=
  S (s_idx s) (s_offset s) (s_size s) m (s_mbr s) (s_fs s) (s_ow s) (s_content s).
Definition with_offset (s : structure) (o : option N) : structure :=
  S (s_idx s) o (s_size s) (s_min s) (s_mbr s) (s_fs s) (s_ow s) (s_content s).

(* VolumeStructure.hasPartialSize / isFixedSize; p = the volume has `partial: [size]` *)
Definition has_partial_size (p : bool) (s : structure) : bool := p && (s_size s =? 0).
Definition is_fixed_size (p : bool) (s : structure) : bool := negb (has_partial_size p s) && (s_size s =? s_min s).

Definition non_mbr_start : N := 1048576.                      (* NonMBRStartOffset = 1 MiB *)

(* prev = previousEnd (None: the previous structure has no well defined end) *)
Fixpoint set_implicit (p : bool) (prev : option N) (l : list structure) : list structure :=
  match l with
  | [] => []
  | s :: r =>
      let s1 := if s_min s =? 0 then with_min s (s_size s) else s in
      let off := match s_offset s1, prev with
                 | None, Some pe => Some (if negb (s_mbr s1) && (pe <? non_mbr_start) then non_mbr_start else pe)
                 | o, _ => o
                 end in
      let s2 := with_offset s1 off in
      let prev' := match off with
                   | Some o => if is_fixed_size p s2 then Some (add64 o (s_size s2)) else None
                   | None => None
                   end in
      s2 :: set_implicit p prev' r
  end.

(* ------------------------------------------------------------------ orderStructuresByOffset
   a structure with an offset opens a block, one without joins the block of its predecessor; blocks are sorted by the
   offset of their first structure. sort.Sort on at most 12 elements is a (stable) insertion sort. *)
Definition no_offset (s : structure) : bool := match s_offset s with None => true | Some _ => false end.

Fixpoint group (l : list structure) : list (list structure) :=
  match l with
  | [] => []
  | s :: r => match group r with
              | [] => [[s]]
              | b :: bs => match b with
                           | h :: _ => if no_offset h then (s :: b) :: bs else [s] :: b :: bs
                           | [] => [s] :: bs
                           end
              end
  end.

Definition block_key (b : list structure) : N :=
  match b with h :: _ => match s_offset h with Some o => o | None => 0 end | [] => 0 end.

Fixpoint insert_block (x : list structure) (l : list (list structure)) : list (list structure) :=
  match l with
  | [] => [x]
  | y :: r => if block_key x <? block_key y then x :: y :: r else y :: insert_block x r
  end.

Definition sort_blocks (l : list (list structure)) : list (list structure) :=
  fold_left (fun acc b => insert_block b acc) l [].

Definition order_by_offset (l : list structure) : list structure := concat (sort_blocks (group l)).

(* ------------------------------------------------------------------ validateVolumeStructure / validateRole (size and mbr parts) *)
Definition size_mbr : N := 446.
Definition validate_struct (p : bool) (s : structure) : bool :=
  (has_partial_size p s || (negb (s_size s =? 0) && (s_min s <=? s_size s)))
  && (negb (s_mbr s) || ((s_size s <=? size_mbr)
                         && match s_offset s with None => true | Some o => o =? 0 end
                         && negb (s_fs s))).

(* Volume.MinSize over the ordered structures *)
Definition vol_min_size (l : list structure) : N :=
  fold_left (fun e s => match s_offset s with Some o => add64 o (s_min s) | None => add64 e (s_min s) end) l 0.

Definition lba48 : N := 4.                                    (* SizeLBA48Pointer *)
(* validateOffsetWrite(s, first, volSize) *)
Definition validate_ow (s first : structure) (vol_size : N) : bool :=
  match s_ow s with
  | None => true
  | Some (Some rel, off) =>
      (rel =? s_idx first) && match s_offset first with Some 0 => true | _ => false end
      && (add64 off lba48 <=? s_min first)
  | Some (None, off) => add64 off lba48 <=? vol_size
  end.

(* validateCrossVolumeStructure; prev = previousEnd *)
Fixpoint validate_cross_from (first : structure) (vol_size : N) (prev : N) (l : list structure) : bool :=
  match l with
  | [] => true
  | s :: r =>
      (negb (s_mbr s) || match s_offset s with Some 0 => true | _ => false end)
      && validate_ow s first vol_size
      && match s_offset s with
         | Some o => negb (o <? prev) && validate_cross_from first vol_size (add64 o (s_size s)) r
         | None => validate_cross_from first vol_size (add64 prev (s_size s)) r
         end
  end.

Definition validate_cross (l : list structure) : bool :=
  match l with
  | [] => true
  | f :: _ => validate_cross_from f (vol_min_size l) 0 l
  end.

(* InfoFromGadgetYaml for one volume: the ordered structures if the definition is accepted *)
Definition accept_parsed (p : bool) (l : list structure) : option (list structure) :=
  let o := order_by_offset (set_implicit p (Some 0) l) in
  if forallb (validate_struct p) o && validate_cross o then Some o else None.

Definition accept (v : raw_volume) : option (list structure) :=
  match parse_structs 0 (rv_structs v) with
  | Some l => accept_parsed (rv_partial_size v) l
  | None => None
  end.

(* ------------------------------------------------------------------ OnDiskStructsFromGadget: (start, size) per structure *)
Fixpoint on_disk_from (off : N) (l : list structure) : list (N * N) :=
  match l with
  | [] => []
  | s :: r => let st := match s_offset s with Some o => o | None => off end in
              (st, s_size s) :: on_disk_from (add64 st (s_size s)) r
  end.
Definition on_disk (l : list structure) : list (N * N) := on_disk_from 0 l.

(* ------------------------------------------------------------------ layOutStructureContent
   first loop: relative placement, returns (absolute start, size) per content or None on error *)
Fixpoint place_content (st ssize prev : N) (l : list content) : option (list (N * N)) :=
  match l with
  | [] => Some []
  | c :: r =>
      match c_image c with
      | None => None
      | Some img =>
          let start := match c_offset c with Some o => o | None => prev end in
          if negb (c_size c =? 0) && (c_size c <? img) then None
          else let actual := if c_size c =? 0 then img else c_size c in
               let pe := add64 start actual in
               if ssize <? pe then None
               else match place_content st ssize pe r with
                    | Some t => Some ((add64 st start, actual) :: t)
                    | None => None
                    end
      end
  end.

Fixpoint insert_c (x : N * N) (l : list (N * N)) : list (N * N) :=
  match l with
  | [] => [x]
  | y :: r => if fst x <? fst y then x :: y :: r else y :: insert_c x r
  end.
Definition sort_c (l : list (N * N)) : list (N * N) := fold_left (fun acc x => insert_c x acc) l [].

(* second loop: overlap check over the sorted contents *)
Fixpoint no_overlap_from (prev : N) (l : list (N * N)) : bool :=
  match l with
  | [] => true
  | (cs, sz) :: r => negb (cs <? prev) && no_overlap_from (add64 cs sz) r
  end.

Definition layout_content (st : N) (s : structure) : option (list (N * N)) :=
  if s_fs s then Some []
  else match s_content s with
       | [] => Some []
       | cs => match place_content st (s_size s) 0 cs with
               | Some placed => let sorted := sort_c placed in
                                if no_overlap_from st sorted then Some sorted else None
               | None => None
               end
       end.

(* LayoutVolume (SkipResolveContent): the content of every structure, or None if one of them cannot be laid out *)
Fixpoint layout_all (l : list structure) (d : list (N * N)) : option (list (list (N * N))) :=
  match l, d with
  | s :: r, (st, _) :: dr => match layout_content st s, layout_all r dr with
                             | Some c, Some cs => Some (c :: cs)
                             | _, _ => None
                             end
  | _, _ => Some []
  end.

(* ------------------------------------------------------------------ correspondence / monitor interface *)
Definition on_eqb (a b : option N) : bool :=
  match a, b with Some x, Some y => x =? y | None, None => true | _, _ => false end.
Fixpoint pairs_eqb (a b : list (N * N)) : bool :=
  match a, b with
  | [], [] => true
  | (x1, x2) :: a', (y1, y2) :: b' => (x1 =? y1) && (x2 =? y2) && pairs_eqb a' b'
  | _, _ => false
  end.
Fixpoint ppairs_eqb (a b : list (list (N * N))) : bool :=
  match a, b with
  | [], [] => true
  | x :: a', y :: b' => pairs_eqb x y && ppairs_eqb a' b'
  | _, _ => false
  end.

(* observed structure of volume.Structure after InfoFromGadgetYaml: yaml index, offset, size, min-size *)
Definition ostruct := (N * option N * N * N)%type.
Fixpoint ostructs_eqb (m : list structure) (o : list ostruct) : bool :=
  match m, o with
  | [], [] => true
  | s :: m', (i, off, sz, mn) :: o' =>
      (s_idx s =? i) && on_eqb (s_offset s) off && (s_size s =? sz) && (s_min s =? mn) && ostructs_eqb m' o'
  | _, _ => false
  end.

(* obs_accept: None = InfoFromGadgetYaml returned an error; otherwise the ordered structures, the on-disk (start, size)
   list of OnDiskStructsFromGadget in structure order, and the laid-out content per structure (None = LayoutVolume error) *)
Inductive case :=
| CVol (v : raw_volume) (obs : option (list ostruct * list (N * N) * option (list (list (N * N))))).

Definition mismatch (c : case) : bool :=
  match c with
  | CVol v obs =>
      match accept v, obs with
      | None, None => false
      | Some l, Some (os, od, lay) =>
          negb (ostructs_eqb l os) || negb (pairs_eqb (on_disk l) od)
          || match layout_all l (on_disk l), lay with
             | None, None => false
             | Some a, Some b => negb (ppairs_eqb a b)
             | _, _ => true
             end
      | _, _ => true
      end
  end.

(* the property on the observed layout, in unbounded arithmetic and without the model functions:
   consecutive structures a, b satisfy start_a + size_a <= start_b; every laid-out content lies inside its structure
   and consecutive contents do not overlap *)
Fixpoint disjoint_incr (l : list (N * N)) : bool :=
  match l with
  | (s1, z1) :: r => match r with
                     | (s2, _) :: _ => (s1 + z1 <=? s2) && disjoint_incr r
                     | [] => true
                     end
  | [] => true
  end.
Definition inside (st sz : N) (c : N * N) : bool := (st <=? fst c) && (fst c + snd c <=? st + sz).
Fixpoint contents_ok (d : list (N * N)) (lay : list (list (N * N))) : bool :=
  match d, lay with
  | (st, sz) :: dr, cs :: lr => forallb (inside st sz) cs && disjoint_incr cs && contents_ok dr lr
  | _, _ => true
  end.

Definition monitor_fail (c : case) : bool :=
  match c with
  | CVol _ None => false
  | CVol _ (Some (_, od, lay)) =>
      negb (disjoint_incr od) || match lay with Some l => negb (contents_ok od l) | None => false end
  end.
