(* C36 - model of snap/quota/quota.go and resources.go (the part that decides whether a quota group request is
   accepted), function by function. Executable definitions only; proofs are in proofs/QuotaProofs.v.

   What is modelled: Group limits (memory, threads, cpu count, cpu percentage, cpu set), the tree of groups,
   GetQuotaResources, Resources.ValidateChange, Resources.Validate, GetLocalCPUSetQuota, GetCPUSetQuota,
   GetLocalCPUQuota / getCurrentCPUAllocation, getQuotaAllocations, validateMemory/CPU/CPUsAllowed/ThreadResourceFit,
   validateQuotasFit, UpdateQuotaLimits, NewGroup, NewSubGroup.
   Not modelled: journal quotas (not inherited, outside the property), snaps/services lists, group name syntax
   (the driver uses valid, pairwise distinct names: getQuotaAllocations keys its map by name, and uniqueness is
   enforced by the callers of this package), Go's fixed-width arithmetic (unbounded Z; the driver stays far below
   2^63). runtime.NumCPU() is the parameter ncpu. *)
From Coq Require Import List ZArith NArith Bool.
Import ListNotations.
Open Scope Z_scope.

Record limits := mkLim { l_mem : Z; l_thr : Z; l_cnt : Z; l_pct : Z; l_set : list Z }.
Definition no_limits : limits := mkLim 0 0 0 0 [].

(* a group with its sub-groups (Group.subGroups) *)
Inductive group := G (id : N) (l : limits) (ss : list group).
Definition gid (g : group) : N := match g with G i _ _ => i end.
Definition lim (g : group) : limits := match g with G _ l _ => l end.
Definition subs (g : group) : list group := match g with G _ _ ss => ss end.

(* a request's Resources value; None = nil pointer *)
Record res := mkRes { r_mem : option Z; r_cpu : option (Z * Z); r_set : option (list Z); r_thr : option Z }.

Definition zlen {A} (l : list A) : Z := Z.of_nat (length l).
Definition nilb {A} (l : list A) : bool := match l with [] => true | _ => false end.

(* ---------------------------------------------------------------- cpu sets *)

Definition contains (s : list Z) (e : Z) : bool := existsb (Z.eqb e) s.
(* isSuperset(a, b) *)
Definition is_superset (a b : list Z) : bool := forallb (contains a) b.

(* GetCPUSetQuota: own set if any, else the nearest ancestor's (inh = what the group inherits, [] if none) *)
Definition eff_set (inh : list Z) (l : limits) : list Z := if nilb (l_set l) then inh else l_set l.

(* ---------------------------------------------------------------- allocations (getQuotaAllocations) *)

(* GetLocalCPUQuota followed by getCurrentCPUAllocation *)
Definition cpu_alloc (ncpu : Z) (inh : list Z) (l : limits) : Z :=
  if l_pct l =? 0 then 0
  else if negb (l_cnt l =? 0) then l_cnt l * l_pct l
  else
    let n := zlen (eff_set inh l) in
    (if negb (n =? 0) && (n <? ncpu) then n else ncpu) * l_pct l.

(* MemoryReservedByChildren / ThreadsReservedByChildren, for the limit selected by f *)
Fixpoint resv (f : limits -> Z) (g : group) : Z :=
  match g with
  | G _ _ ss => (fix sum (cs : list group) : Z :=
                   match cs with
                   | [] => 0
                   | c :: r => Z.max (f (lim c)) (resv f c) + sum r
                   end) ss
  end.

(* CPUReservedByChildren; inh = the cpu set the group itself inherits *)
Fixpoint cpu_resv (ncpu : Z) (inh : list Z) (g : group) : Z :=
  match g with
  | G _ l ss => let e := eff_set inh l in
                (fix sum (cs : list group) : Z :=
                   match cs with
                   | [] => 0
                   | c :: r => Z.max (cpu_alloc ncpu e (lim c)) (cpu_resv ncpu e c) + sum r
                   end) ss
  end.

(* CPUSetReservedByChildren, without the final sort/uniq (it is only ever used in subset tests) *)
Fixpoint set_resv (g : group) : list Z :=
  match g with
  | G _ _ ss => (fix cat (cs : list group) : list Z :=
                   match cs with
                   | [] => []
                   | c :: r => (if nilb (l_set (lim c)) then set_resv c else l_set (lim c)) ++ cat r
                   end) ss
  end.

(* ---------------------------------------------------------------- Resources.ValidateChange / Validate *)

Definition memory_limit_min : Z := 640 * 1024.

(* cpuFitsIntoCPUSet (true = fits) *)
Definition cpu_fits (cnt pct : Z) (s : list Z) : bool :=
  negb (negb (nilb s) && negb (cnt =? 0) && (cnt * pct >? zlen s * 100)).

Definition has_cpu (l : limits) : bool := negb (l_cnt l =? 0) || negb (l_pct l =? 0).

(* qr.ValidateChange(newLimits) where qr = GetQuotaResources() of a group with limits l (true = no error) *)
Definition validate_change (l : limits) (r : res) : bool :=
  (match r_mem r with
   | Some m => negb (negb (l_mem l =? 0) && (m =? 0)) && negb (m <=? memory_limit_min) &&
               negb (negb (l_mem l =? 0) && (m <? l_mem l))
   | None => true
   end) &&
  (match r_cpu r with
   | Some (c, p) =>
       if has_cpu l then
         negb ((p =? 0) && negb (l_pct l =? 0)) &&
         (match r_set r with
          | Some s => cpu_fits c p s
          | None => if nilb (l_set l) then true else cpu_fits c p (l_set l)
          end)
       else true
   | None => true
   end) &&
  (match r_set r with
   | Some s =>
       if nilb (l_set l) then true
       else negb (nilb s) &&
            (match r_cpu r with
             | None => if has_cpu l then cpu_fits (l_cnt l) (l_pct l) s else true
             | Some _ => true
             end)
   | None => true
   end) &&
  (match r_thr r with
   | Some t => if l_thr l =? 0 then true else negb (t =? 0) && negb (t <? l_thr l)
   | None => true
   end).

(* GetQuotaResources().Validate() of a group with limits l, as called by Group.validate (true = no error) *)
Definition validate_limits (l : limits) : bool :=
  negb ((l_mem l =? 0) && negb (has_cpu l) && nilb (l_set l) && (l_thr l =? 0)) &&
  (if has_cpu l then
     negb (negb (l_cnt l =? 0) && (l_pct l =? 0)) &&
     (if nilb (l_set l) then true else cpu_fits (l_cnt l) (l_pct l) (l_set l))
   else true) &&
  (if l_thr l =? 0 then true else negb (l_thr l <=? 0)).

(* ---------------------------------------------------------------- the four fit validators *)

(* An ancestor as the validators see it: the group together with the cpu set it inherits. Chains are ordered
   nearest ancestor first. `known` says whether allQuotas has an entry for the group being validated: true when an
   existing group is updated, false for the still detached group of NewGroup / NewSubGroup. *)
Definition anc := (list Z * group)%type.

(* validateMemoryResourceFit / validateThreadResourceFit (identical up to the field) *)
Definition validate_scalar (f : limits -> Z) (known : bool) (g : group) (chain : list anc) (new : Z) : bool :=
  let own := f (lim g) in
  let r := resv f g in
  if known && (r >? new) then false
  else if known && (new <? own) then true
  else
    let reserved := if known then Z.max own r else own in
    match find (fun a : anc => negb (f (lim (snd a)) =? 0)) chain with
    | None => true
    | Some a => negb (new >? f (lim (snd a)) - (resv f (snd a) - reserved))
    end.

(* the parent loop of validateCPUResourceFit (as repaired in /repo commit 731c638: an ancestor that has a cpu set but no
   cpu quota bounds the request by the size of its set and the walk goes on to the ancestors above it; the walk ends
   at the first ancestor that has a cpu quota) *)
Fixpoint cpu_parents (ncpu : Z) (chain : list anc) (req existing : Z) : bool :=
  match chain with
  | [] => true
  | (ainh, a) :: rest =>
      let al := cpu_alloc ncpu ainh (lim a) in
      if negb (al =? 0) then negb (req >? al - (cpu_resv ncpu ainh a - existing))
      else if negb (nilb (l_set (lim a))) && (req >? zlen (l_set (lim a)) * 100) then false
      else cpu_parents ncpu rest req existing
  end.

(* validateCPUResourceFit; inh = cpu set inherited by g *)
Definition validate_cpu (ncpu : Z) (known : bool) (inh : list Z) (g : group) (chain : list anc) (cnt pct : Z) : bool :=
  let req := if cnt =? 0
             then (let n := zlen (eff_set inh (lim g)) in (if n =? 0 then ncpu else n) * pct)
             else cnt * pct in
  let cur_alloc := cpu_alloc ncpu inh (lim g) in
  let cur_resv := cpu_resv ncpu inh g in
  if known && (cur_resv >? req) then false
  else if known && (req <? cur_alloc) then true
  else cpu_parents ncpu chain req (if known then Z.max cur_alloc cur_resv else 0).

(* validateCPUsAllowedResourceFit *)
Definition validate_set (known : bool) (g : group) (chain : list anc) (cpus : list Z) : bool :=
  if known && negb (is_superset cpus (set_resv g)) then false
  else if known && is_superset (l_set (lim g)) cpus then true
  else match find (fun a : anc => negb (nilb (l_set (lim (snd a))))) chain with
       | None => true
       | Some a => is_superset (l_set (lim (snd a))) cpus
       end.

(* validateQuotasFit *)
Definition validate_fit (ncpu : Z) (known : bool) (inh : list Z) (g : group) (chain : list anc) (r : res) : bool :=
  (match r_mem r with Some m => validate_scalar l_mem known g chain m | None => true end) &&
  (match r_cpu r with
   | Some (c, p) => if p =? 0 then true else validate_cpu ncpu known inh g chain c p
   | None => true
   end) &&
  (match r_set r with Some s => if nilb s then true else validate_set known g chain s | None => true end) &&
  (match r_thr r with Some t => validate_scalar l_thr known g chain t | None => true end).

(* the assignments at the end of UpdateQuotaLimits. Note that a new CPU quota replaces the whole GroupQuotaCPU value,
   which drops the cpu set unless the request carries one. *)
Definition apply_res (l : limits) (r : res) : limits :=
  let mem := match r_mem r with Some m => m | None => l_mem l end in
  let '(cnt, pct, set) := match r_cpu r with Some (c, p) => (c, p, []) | None => (l_cnt l, l_pct l, l_set l) end in
  let set := match r_set r with Some s => s | None => set end in
  let thr := match r_thr r with Some t => t | None => l_thr l end in
  mkLim mem thr cnt pct set.

(* UpdateQuotaLimits on a group (attached or detached): None = error, Some = the new limits *)
Definition update_limits (ncpu : Z) (known : bool) (inh : list Z) (g : group) (chain : list anc) (r : res) : option limits :=
  if validate_change (lim g) r && validate_fit ncpu known inh g chain r then Some (apply_res (lim g) r) else None.

(* ---------------------------------------------------------------- requests against a forest of groups *)

(* a path selects a group: index of the root in the forest, then child indices *)
Fixpoint walk (inh : list Z) (g : group) (p : list nat) (acc : list anc) : option (list Z * group * list anc) :=
  match p with
  | [] => Some (inh, g, acc)
  | i :: p' => match nth_error (subs g) i with
               | None => None
               | Some c => walk (eff_set inh (lim g)) c p' ((inh, g) :: acc)
               end
  end.

Fixpoint replace_nth {A} (l : list A) (i : nat) (x : A) : list A :=
  match l, i with
  | [], _ => []
  | _ :: r, O => x :: r
  | y :: r, S i' => y :: replace_nth r i' x
  end.

(* rebuild the tree with the group at path p transformed by t *)
Fixpoint modify (g : group) (p : list nat) (t : group -> group) : group :=
  match p with
  | [] => t g
  | i :: p' => match nth_error (subs g) i with
               | None => g
               | Some c => G (gid g) (lim g) (replace_nth (subs g) i (modify c p' t))
               end
  end.

Inductive req :=
  | RNew (id : N) (r : res)                  (* quota.NewGroup(name, r) *)
  | RSub (p : list nat) (id : N) (r : res)   (* (group at p).NewSubGroup(name, r) *)
  | RUpd (p : list nat) (r : res).           (* (group at p).UpdateQuotaLimits(r) *)

Definition forest := list group.

(* one request; None = refused (the forest is unchanged) *)
Definition step (ncpu : Z) (st : forest) (q : req) : option forest :=
  match q with
  | RNew id r =>
      (* the fresh group is its own upper parent, so getQuotaAllocations does record it: known = true *)
      let g := G id no_limits [] in
      match update_limits ncpu true [] g [] r with
      | Some l' => if validate_limits l' then Some (st ++ [G id l' []]) else None
      | None => None
      end
  | RSub [] _ _ => None
  | RSub (i :: p) id r =>
      match nth_error st i with
      | None => None
      | Some root =>
          match walk [] root p [] with
          | None => None
          | Some (pinh, parent, chain) =>
              let g := G id no_limits [] in
              match update_limits ncpu false (eff_set pinh (lim parent)) g ((pinh, parent) :: chain) r with
              | Some l' =>
                  if negb (N.eqb id (gid parent)) && validate_limits l'
                  then Some (replace_nth st i (modify root p (fun par => G (gid par) (lim par) (subs par ++ [G id l' []]))))
                  else None
              | None => None
              end
          end
      end
  | RUpd [] _ => None
  | RUpd (i :: p) r =>
      match nth_error st i with
      | None => None
      | Some root =>
          match walk [] root p [] with
          | None => None
          | Some (inh, g, chain) =>
              match update_limits ncpu true inh g chain r with
              | Some l' => Some (replace_nth st i (modify root p (fun t => G (gid t) l' (subs t))))
              | None => None
              end
          end
      end
  end.

(* the forest after a history of requests, refused ones leaving it unchanged *)
Fixpoint run (ncpu : Z) (st : forest) (qs : list req) : forest :=
  match qs with
  | [] => st
  | q :: r => run ncpu (match step ncpu st q with Some st' => st' | None => st end) r
  end.

(* ---------------------------------------------------------------- the property: every group fits *)

(* for the limit selected by f: every group that has the limit holds its children's combined reservations *)
Fixpoint fits (f : limits -> Z) (g : group) : bool :=
  match g with
  | G _ l ss => ((f l =? 0) || (resv f g <=? f l)) &&
                (fix all (cs : list group) : bool := match cs with [] => true | c :: r => fits f c && all r end) ss
  end.

(* cpu sets: every group's own set lies within the nearest ancestor's set (inh) *)
Fixpoint sets_nested (inh : list Z) (g : group) : bool :=
  match g with
  | G _ l ss => (nilb inh || is_superset inh (l_set l)) &&
                (let e := eff_set inh l in
                 (fix all (cs : list group) : bool := match cs with [] => true | c :: r => sets_nested e c && all r end) ss)
  end.

(* cpu: every group with an effective cpu reservation holds its children's combined effective reservations *)
Fixpoint cpu_fits_tree (ncpu : Z) (inh : list Z) (g : group) : bool :=
  match g with
  | G _ l ss => ((cpu_alloc ncpu inh l =? 0) || (cpu_resv ncpu inh g <=? cpu_alloc ncpu inh l)) &&
                (let e := eff_set inh l in
                 (fix all (cs : list group) : bool := match cs with [] => true | c :: r => cpu_fits_tree ncpu e c && all r end) ss)
  end.

Definition inv_mem (st : forest) : bool := forallb (fits l_mem) st.
Definition inv_thr (st : forest) : bool := forallb (fits l_thr) st.
Definition inv_set (st : forest) : bool := forallb (sets_nested []) st.
Definition inv_cpu (ncpu : Z) (st : forest) : bool := forallb (cpu_fits_tree ncpu []) st.

(* ---------------------------------------------------------------- correspondence interface *)

Definition zlist_eqb (a b : list Z) : bool :=
  (fix go a b := match a, b with
                 | [], [] => true
                 | x :: a', y :: b' => Z.eqb x y && go a' b'
                 | _, _ => false end) a b.

Definition limits_eqb (a b : limits) : bool :=
  (l_mem a =? l_mem b) && (l_thr a =? l_thr b) && (l_cnt a =? l_cnt b) && (l_pct a =? l_pct b) &&
  zlist_eqb (l_set a) (l_set b).

Fixpoint group_eqb (a b : group) : bool :=
  match a, b with
  | G i la sa, G j lb sb =>
      N.eqb i j && limits_eqb la lb &&
      (fix go (x y : list group) : bool :=
         match x, y with
         | [], [] => true
         | c :: x', d :: y' => group_eqb c d && go x' y'
         | _, _ => false
         end) sa sb
  end.

Fixpoint forest_eqb (a b : forest) : bool :=
  match a, b with
  | [], [] => true
  | x :: a', y :: b' => group_eqb x y && forest_eqb a' b'
  | _, _ => false
  end.

(* One history run against the real package (with runtime.NumCPU fixed to ncpu): for every request whether it was
   accepted and the whole observed forest afterwards (limits read back from the exported Group fields). *)
Inductive case := CHist (ncpu : Z) (steps : list (req * bool * forest)).

(* model vs implementation, request by request, each time starting from the forest the implementation had *)
Fixpoint mismatch_steps (ncpu : Z) (prev : forest) (steps : list (req * bool * forest)) : bool :=
  match steps with
  | [] => false
  | (q, acc, next) :: rest =>
      (match step ncpu prev q with
       | Some st' => negb acc || negb (forest_eqb st' next)
       | None => acc
       end) || mismatch_steps ncpu next rest
  end.

Definition mismatch (c : case) : bool := match c with CHist ncpu steps => mismatch_steps ncpu [] steps end.

(* the property on the observed forests: a refused request changes nothing; after every request every group fits *)
Fixpoint monitor_steps (ncpu : Z) (prev : forest) (steps : list (req * bool * forest)) : bool :=
  match steps with
  | [] => false
  | (q, acc, next) :: rest =>
      (negb acc && negb (forest_eqb prev next)) ||
      negb (inv_mem next) || negb (inv_thr next) || negb (inv_set next) || negb (inv_cpu ncpu next) ||
      monitor_steps ncpu next rest
  end.

Definition monitor_fail (c : case) : bool := match c with CHist ncpu steps => monitor_steps ncpu [] steps end.
