(* C25 -- non-root callers can only run snapctl's read-only commands.
   Model of overlord/hookstate/ctlcmd/ctlcmd.go: isAllowedToRun (exact) and Run, where the third-party option parser
   (github.com/jessevdk/go-flags, ParseArgs with PassDoubleDash|HelpFlag) is ABSTRACTED to the three facts the property
   needs; the abstraction is validated on the real go-flags with the real command structs by the driver:
     (1) the command that may execute is the first token, and only if it is a registered command name
         (the top level has no options of its own, so an option token or -- in first place never selects a command);
     (2) a token equal to -h or --help before any -- token means nothing executes (help, or an earlier parse error):
         option tokens are never taken as positionals or as option values (go-flags' isValidValue refuses a value that
         looks like an option), and no snapctl command declares its own -h / --help (checked by the translator);
     (3) whether a selected command really executes (unknown flags, missing required arguments, bad values) is left
         open: the model says MayExec.
   The allowed list and the registered names are gen/NonRootAllowed.v. No proofs in this file. *)
From Coq Require Import List NArith ZArith Bool String.
Import ListNotations.
Require Import V.lib.Bytes V.gen.NonRootAllowed.
Open Scope N_scope.

Fixpoint mem (x : bytes) (l : list bytes) : bool :=
  match l with [] => false | y :: r => beq x y || mem x r end.

Definition is_help (a : bytes) : bool := beq a (bs "-h") || beq a (bs "--help").
Definition is_dd (a : bytes) : bool := beq a (bs "--").

(* the loop of isAllowedToRun without the idx == 0 test: true when a help token comes before any -- *)
Fixpoint scan_help (args : list bytes) : bool :=
  match args with
  | [] => false
  | a :: r => if is_help a then true else if is_dd a then false else scan_help r
  end.

(* isAllowedToRun(uid, args) *)
Definition is_allowed_to_run (uid : N) (args : list bytes) : bool :=
  if uid =? 0 then true
  else match args with
       | [] => false
       | a :: _ => if mem a non_root_allowed then true else scan_help args
       end.

(* go-flags optstyle_other.go: argumentIsOption *)
Definition dash : N := 45.
Definition argument_is_option (a : bytes) : bool :=
  match a with
  | c0 :: c1 :: r =>
      (c0 =? dash) &&
      (negb (c1 =? dash) ||
       match r with c2 :: _ => negb (c2 =? dash) | [] => false end)
  | _ => false
  end.

Inductive result : Type :=
| InternalError              (* len(args) == 0 *)
| Forbidden                  (* ForbiddenCommandError from the gate *)
| NoExec                     (* go-flags returns help or a parse error; no command's Execute runs *)
| MayExec (cmd : bytes).     (* go-flags selects this command; its Execute runs unless option parsing fails *)

(* Run(context, args, uid) *)
Definition run (args : list bytes) (uid : N) : result :=
  match args with
  | [] => InternalError
  | a :: _ =>
    if negb (is_allowed_to_run uid args) then Forbidden
    else if scan_help args then NoExec
    else if argument_is_option a || is_dd a then NoExec
    else if mem a registered_commands then MayExec a
    else NoExec
  end.

(* ---------------------------------------------------------------------------------------------- specification side *)

(* the read-only commands named by the property statement (hand-written, independent of the code) *)
Definition spec_allowed : list bytes :=
  [bs "get"; bs "services"; bs "set-health"; bs "is-connected"; bs "system-mode"; bs "model"].

(* a help token occurs before any -- token (written independently of scan_help) *)
Fixpoint before_dd (args : list bytes) : list bytes :=
  match args with [] => [] | a :: r => if is_dd a then [] else a :: before_dd r end.
Definition help_before_dd (args : list bytes) : bool := existsb is_help (before_dd args).

(* ---------------------------------------------------------------------------------------------- correspondence *)

Inductive observed : Type :=
| OInternal                  (* the internal error for empty args *)
| OForbidden                 (* *ForbiddenCommandError *)
| ONoExec                    (* *flags.Error: help, unknown flag/command, missing argument ...; nothing executed *)
| OExec (cmd : bytes).       (* the Execute of this command ran (recording wrapper around the real command struct) *)

Inductive case : Type :=
| CRun (args : list bytes) (uid : N) (o : observed)
| CNames (allowed : list bytes) (registered : list bytes).   (* the runtime nonRootAllowed and sorted command names *)

Fixpoint list_bytes_eqb (a b : list bytes) : bool :=
  match a, b with
  | [], [] => true
  | x :: a', y :: b' => beq x y && list_bytes_eqb a' b'
  | _, _ => false
  end.

Definition mismatch (c : case) : bool :=
  match c with
  | CRun args uid o =>
    match run args uid, o with
    | InternalError, OInternal => false
    | Forbidden, OForbidden => false
    | NoExec, ONoExec => false
    | MayExec n, OExec m => negb (beq n m)
    | MayExec _, ONoExec => false          (* option parsing of the selected command failed: left open by the model *)
    | _, _ => true
    end
  | CNames a r => negb (list_bytes_eqb a non_root_allowed) || negb (list_bytes_eqb r registered_commands)
  end.

(* the property's conclusion is false on the implementation's observed behaviour *)
Definition monitor_fail (c : case) : bool :=
  match c with
  | CRun args uid o =>
    match o with
    | OExec n => (negb (uid =? 0) && negb (mem n spec_allowed))    (* a non-root caller executed something else *)
                 || help_before_dd args                            (* help was asked for, yet a command executed *)
    | OForbidden => uid =? 0                                        (* root was refused *)
    | _ => false
    end
  | CNames _ _ => false
  end.
