(* C06 — a small file-system model with crash semantics, and the model of osutil/io.go's atomic-write helpers
   (AtomicFile.commit, AtomicWriteChown, AtomicRename, AtomicSymlink, Cancel) as lists of file-system operations whose
   ORDER is taken from gen/CommitOrder.v (regenerated from the Go source on every run). No proofs in this file.

   The persistence rules below are an ASSUMED model of a POSIX file system, not something verified:
     - a directory-entry update (create, rename, unlink) is atomic but reaches the disk only at fsync of that directory;
       until then it is pending, and at a crash every pending update independently did or did not reach the disk
       (the two halves of a rename are not even assumed to persist together: more outcomes than a journalling fs has);
     - data written to an inode is unsynced until fsync of that inode; at a crash an inode keeps its synced content
       followed by ANY prefix of its unsynced bytes (torn write);
     - synced data and synced directory entries survive. *)
From Coq Require Import List NArith Bool.
Import ListNotations.
Require Import V.lib.Bytes V.gen.CommitOrder.
Open Scope N_scope.

Definition name := (N * N)%type.          (* (directory id, base-name id) *)
Definition ino := N.
Definition name_eqb (a b : name) : bool := (fst a =? fst b) && (snd a =? snd b).

Record inode := mkInode { synced : bytes; unsynced : bytes }.

(* an entry assignment: the name now points to the inode / is absent. A directory is a list of assignments, newest first *)
Definition dirent := (name * option ino)%type.

Fixpoint dlookup (d : list dirent) (n : name) : option ino :=
  match d with
  | [] => None
  | (m, v) :: r => if name_eqb m n then v else dlookup r n
  end.

Fixpoint ilookup (l : list (ino * inode)) (i : ino) : option inode :=
  match l with
  | [] => None
  | (j, nd) :: r => if j =? i then Some nd else ilookup r i
  end.

Record st := mkSt {
  vdir : list dirent;            (* what running programs see *)
  ddir : list dirent;            (* what is on disk *)
  pend : list dirent;            (* directory updates not yet on disk, oldest first *)
  inodes : list (ino * inode);
  next : ino                     (* next inode number handed out by Creat / Symlink *)
}.

(* the system calls of the model. Inodes are named by their creation number: a file can only be written through the
   descriptor that created it (open of an existing file for writing, truncate, pwrite, link are outside the language;
   the trace parser rejects them) *)
Inductive op :=
| Creat (n : name)                 (* open(O_CREAT|O_EXCL|O_WRONLY): fresh empty inode `next` under name n *)
| Write (i : ino) (data : bytes)   (* append *)
| Fsync (i : ino)
| Meta                             (* close, fchown, utimensat: no effect on names or contents *)
| Rename (a b : name)
| FsyncDir (d : N)
| Unlink (n : name)
| Symlink (n : name) (data : bytes). (* fresh inode whose content (the link text) is written with the entry: never torn *)

Definition in_dir (d : N) (e : dirent) : bool := fst (fst e) =? d.

Definition upd_inode (s : st) (i : ino) (nd : inode) : st :=
  mkSt (vdir s) (ddir s) (pend s) ((i, nd) :: inodes s) (next s).

Definition step (s : st) (o : op) : st :=
  match o with
  | Creat n =>
      mkSt ((n, Some (next s)) :: vdir s) (ddir s) (pend s ++ [(n, Some (next s))])
           ((next s, mkInode [] []) :: inodes s) (next s + 1)
  | Symlink n data =>
      mkSt ((n, Some (next s)) :: vdir s) (ddir s) (pend s ++ [(n, Some (next s))])
           ((next s, mkInode data []) :: inodes s) (next s + 1)
  | Write i data =>
      match ilookup (inodes s) i with
      | Some nd => upd_inode s i (mkInode (synced nd) (unsynced nd ++ data))
      | None => s
      end
  | Fsync i =>
      match ilookup (inodes s) i with
      | Some nd => upd_inode s i (mkInode (synced nd ++ unsynced nd) [])
      | None => s
      end
  | Meta => s
  | Rename a b =>
      match dlookup (vdir s) a with
      | Some i => mkSt ((b, Some i) :: (a, None) :: vdir s) (ddir s) (pend s ++ [(a, None); (b, Some i)]) (inodes s) (next s)
      | None => s
      end
  | FsyncDir d =>
      mkSt (vdir s) (rev (filter (in_dir d) (pend s)) ++ ddir s) (filter (fun e => negb (in_dir d e)) (pend s))
           (inodes s) (next s)
  | Unlink n => mkSt ((n, None) :: vdir s) (ddir s) (pend s ++ [(n, None)]) (inodes s) (next s)
  end.

Definition run (s : st) (tr : list op) : st := fold_left step tr s.

(* ------------------------------------------------------------------ crash *)
(* a crash scenario: which pending directory updates reached the disk (missing bits = lost), and how many unsynced
   bytes of each inode did *)
Fixpoint kept (keep : list bool) (ops : list dirent) : list dirent :=
  match ops, keep with
  | e :: r, true :: k => e :: kept k r
  | _ :: r, false :: k => kept k r
  | _, _ => []
  end.

Definition crash_dir (s : st) (keep : list bool) : list dirent := rev (kept keep (pend s)) ++ ddir s.

(* what a reader finds under name n after the crash: None = no such file *)
Definition crash_read (s : st) (keep : list bool) (cut : ino -> nat) (n : name) : option bytes :=
  match dlookup (crash_dir s keep) n with
  | None => None
  | Some i => match ilookup (inodes s) i with
              | None => None
              | Some nd => Some (synced nd ++ firstn (cut i) (unsynced nd))
              end
  end.

(* executable enumeration of every crash outcome for one name (used by the monitor on observed traces) *)
Fixpoint all_keeps (n : nat) : list (list bool) :=
  match n with
  | O => [[]]
  | S k => flat_map (fun l => [true :: l; false :: l]) (all_keeps k)
  end.

Fixpoint prefixes (l : bytes) : list bytes :=
  [] :: match l with [] => [] | x :: r => map (cons x) (prefixes r) end.

Definition crash_reads (s : st) (n : name) : list (option bytes) :=
  flat_map (fun k =>
    match dlookup (crash_dir s k) n with
    | None => [None]
    | Some i => match ilookup (inodes s) i with
                | None => [None]
                | Some nd => map (fun p => Some (synced nd ++ p)) (prefixes (unsynced nd))
                end
    end) (all_keeps (length (pend s))).

(* ------------------------------------------------------------------ the syntactic discipline (safe shape) *)
Definition points_to (t : name) (i : ino) (e : dirent) : bool :=
  name_eqb (fst e) t && match snd e with Some j => j =? i | None => false end.

(* inode i may be what the target name shows after a crash *)
Definition published (t : name) (s : st) (i : ino) : bool :=
  existsb (points_to t i) (pend s) || match dlookup (ddir s) t with Some j => j =? i | None => false end.

Definition clean (s : st) (i : ino) : bool :=
  match ilookup (inodes s) i with Some nd => is_nil_b (unsynced nd) | None => false end.

(* one operation respects the discipline for target t:
   - the target name is only ever the destination of a rename (never created in place, unlinked or renamed away);
   - a rename onto the target moves an inode that has been fsynced after its last write (so temp name <> target too);
   - an inode that the target may show is never written again *)
Definition op_safe (t : name) (s : st) (o : op) : bool :=
  match o with
  | Creat n | Unlink n | Symlink n _ => negb (name_eqb n t)
  | Write i _ => negb (published t s i)
  | Rename a b =>
      negb (name_eqb a t) &&
      (if name_eqb b t then match dlookup (vdir s) a with Some i => clean s i | None => true end else true)
  | Fsync _ | Meta | FsyncDir _ => true
  end.

Fixpoint safe_from (t : name) (s : st) (tr : list op) : bool :=
  match tr with
  | [] => true
  | o :: r => op_safe t s o && safe_from t (step s o) r
  end.

Definition vread (s : st) (i : ino) : option bytes :=
  option_map (fun nd => synced nd ++ unsynced nd) (ilookup (inodes s) i).

(* the complete contents that renames onto t published, in order *)
Fixpoint versions (t : name) (s : st) (tr : list op) : list (option bytes) :=
  match tr with
  | [] => []
  | o :: r =>
      (match o with
       | Rename a b => if name_eqb b t then match dlookup (vdir s) a with Some i => [vread s i] | None => [] end else []
       | _ => []
       end) ++ versions t (step s o) r
  end.

Definition is_rename_onto (t : name) (o : op) : bool :=
  match o with Rename _ b => name_eqb b t | _ => false end.
Definition is_fsyncdir (d : N) (o : op) : bool :=
  match o with FsyncDir e => e =? d | _ => false end.

(* ------------------------------------------------------------------ osutil/io.go, in the order the source has now *)
Record cfg := mkCfg {
  unsafe_io : bool;     (* snapdUnsafeIO: only ever true in a test binary (gen: unsafe_io_needs_test_binary) *)
  do_chown : bool;      (* uid or gid given *)
  do_mtime : bool       (* SetModTime used *)
}.

Definition guard_on (c : cfg) (two_dirs : bool) (g : guard) : bool :=
  match g with
  | GAlways => true
  | GSafeIO => negb (unsafe_io c)
  | GChown => do_chown c
  | GMtime => do_mtime c
  | GOldDir => negb (unsafe_io c)
  | GNewDir => negb (unsafe_io c) && two_dirs
  end.

(* AtomicFile.commit: aw.File is inode i, aw.tmpname tmp, aw.target t *)
Definition commit_call_ops (i : ino) (tmp t : name) (c : call) : list op :=
  match c with
  | CChown => [Meta]
  | COpenDir => []
  | CFileSync => [Fsync i]
  | CClose => [Meta]
  | CChtimes => [Meta]
  | CRename => [Rename tmp t]
  | CDirSync => [FsyncDir (fst t)]
  | _ => []
  end.

Definition commit_ops (c : cfg) (i : ino) (tmp t : name) : list op :=
  flat_map (fun gc => if guard_on c false (fst gc) then commit_call_ops i tmp t (snd gc) else []) commit_calls.

(* AtomicWriteChown (and NewAtomicFile + Write... + Commit): the temp file gets inode i; io.Copy writes the chunks *)
Definition write_ops (c : cfg) (i : ino) (tmp t : name) (chunks : list bytes) : list op :=
  flat_map (fun gc =>
    match snd gc with
    | WNew => [Creat tmp]
    | WCopy => map (Write i) chunks
    | WCommit => commit_ops c i tmp t
    | _ => []
    end) write_calls.

(* AtomicRename *)
Definition rename_ops (c : cfg) (a b : name) : list op :=
  flat_map (fun gc =>
    if guard_on c (negb (fst a =? fst b)) (fst gc) then
      match snd gc with
      | RRename => [Rename a b]
      | RSyncOldDir => [FsyncDir (fst a)]
      | RSyncNewDir => [FsyncDir (fst b)]
      | _ => []
      end
    else []) rename_calls.

(* AtomicSymlink (first iteration of the retry loop succeeds) *)
Definition symlink_ops (c : cfg) (tmp link : name) (data : bytes) : list op :=
  flat_map (fun gc =>
    match snd gc with
    | SSymlink => [Symlink tmp data]
    | SAtomicRename => rename_ops c tmp link
    | _ => []
    end) symlink_calls.

(* Cancel before Commit: os.Remove(tmpname), Close *)
Definition cancel_ops (i : ino) (tmp : name) (chunks : list bytes) : list op :=
  Creat tmp :: map (Write i) chunks ++ [Unlink tmp; Meta].

(* ---- error exits. Every call of commit may fail; a failed call has no effect and commit returns at once. The caller
   (AtomicWriteChown's deferred Cancel) then removes the temp file and closes it, unless the rename already happened
   (ErrCannotCancel). `k` = how many of the calls that are active under cfg succeed before one fails; k >= their number
   means no failure. *)
Definition call_is_rename (gc : guard * call) : bool := match snd gc with CRename => true | _ => false end.
Definition active_commit_calls (c : cfg) : list (guard * call) :=
  filter (fun gc => guard_on c false (fst gc)) commit_calls.
Definition commit_ops_f (c : cfg) (i : ino) (tmp t : name) (k : nat) : list op :=
  let done := firstn k (active_commit_calls c) in
  flat_map (fun gc => commit_call_ops i tmp t (snd gc)) done ++
  (if Nat.ltb k (length (active_commit_calls c))
   then (if existsb call_is_rename done then [] else [Unlink tmp; Meta])
   else []).
Definition write_ops_f (c : cfg) (i : ino) (tmp t : name) (chunks : list bytes) (k : nat) : list op :=
  Creat tmp :: map (Write i) chunks ++ commit_ops_f c i tmp t k.

Definition call_eqb (a b : call) : bool :=
  match a, b with
  | CChown, CChown | COpenDir, COpenDir | CFileSync, CFileSync | CClose, CClose | CChtimes, CChtimes
  | CRename, CRename | CDirSync, CDirSync => true
  | _, _ => false
  end.
(* index of the first active call equal to `failing` *)
Fixpoint index_of_call (failing : call) (l : list (guard * call)) : nat :=
  match l with
  | [] => O
  | gc :: r => if call_eqb (snd gc) failing then O else S (index_of_call failing r)
  end.

(* ------------------------------------------------------------------ correspondence interface *)
Inductive acall :=
| AWrite (chown mtime : bool) (tmp t : name) (chunks : list bytes)   (* AtomicWriteFile / AtomicWrite / NewAtomicFile..Commit[As] *)
| ACancel (tmp : name) (chunks : list bytes)
| ARename (a b : name)
| ASymlink (tmp link : name) (data : bytes)
(* error paths: the write whose commit fails at the given call (e.g. COpenDir: the directory cannot be opened);
   a call refused before it touched anything; AtomicSymlink whose rename is refused (the temp link is removed again);
   a call whose operation list is not predicted (only the monitor applies) *)
| AWriteFail (chown mtime : bool) (tmp t : name) (chunks : list bytes) (failing : call)
| ANothing
| ASymlinkFail (tmp : name) (data : bytes)
| AOther.

Definition call_ops (nx : ino) (c : acall) : list op :=
  match c with
  | AWrite ch mt tmp t chunks => write_ops (mkCfg false ch mt) nx tmp t chunks
  | ACancel tmp chunks => cancel_ops nx tmp chunks
  | ARename a b => rename_ops (mkCfg false false false) a b
  | ASymlink tmp link data => symlink_ops (mkCfg false false false) tmp link data
  | AWriteFail ch mt tmp t chunks failing =>
      write_ops_f (mkCfg false ch mt) nx tmp t chunks (index_of_call failing (active_commit_calls (mkCfg false ch mt)))
  | ANothing => []
  | ASymlinkFail tmp data => [Symlink tmp data; Unlink tmp]
  | AOther => []
  end.
Definition call_predicted (c : acall) : bool := match c with AOther => false | _ => true end.

(* files that exist (durably) before the calls: the k-th has inode k *)
Fixpoint init_from (k : ino) (files : list (name * bytes)) : st :=
  match files with
  | [] => mkSt [] [] [] [] k
  | (n, c) :: r => let s := init_from (k + 1) r in
                   mkSt ((n, Some k) :: vdir s) ((n, Some k) :: ddir s) [] ((k, mkInode c []) :: inodes s) (next s)
  end.
Definition init_st (files : list (name * bytes)) : st := init_from 0 files.

(* one observed call: what was asked, the file-system operations seen in the system-call trace of the non-test
   binary, and what the caller is entitled to find under the target name once the call has returned *)
Definition obs_step := (acall * list op * option bytes)%type.

(* input: pre-existing files, the watched target name, the calls. observed: the traces. *)
Inductive case := Case (files : list (name * bytes)) (t : name) (steps : list obs_step) (parsed : bool).

Definition op_eqb (x y : op) : bool :=
  match x, y with
  | Creat a, Creat b | Unlink a, Unlink b => name_eqb a b
  | Write i d, Write j e => (i =? j) && beq d e
  | Fsync i, Fsync j => i =? j
  | Meta, Meta => true
  | Rename a b, Rename c d => name_eqb a c && name_eqb b d
  | FsyncDir a, FsyncDir b => a =? b
  | Symlink a d, Symlink b e => name_eqb a b && beq d e
  | _, _ => false
  end.
Fixpoint ops_eqb (a b : list op) : bool :=
  match a, b with
  | [], [] => true
  | x :: a', y :: b' => op_eqb x y && ops_eqb a' b'
  | _, _ => false
  end.
Definition not_meta (o : op) : bool := match o with Meta => false | _ => true end.

(* mismatch: the observed operations (close/chown/utimes dropped) differ from what the model derives from the
   generated call order, or the trace could not be parsed into the model's language *)
Fixpoint steps_mismatch (s : st) (steps : list obs_step) : bool :=
  match steps with
  | [] => false
  | (c, tr, _) :: r =>
      (call_predicted c && negb (ops_eqb (filter not_meta (call_ops (next s) c)) (filter not_meta tr))) ||
      steps_mismatch (run s tr) r
  end.
Definition mismatch (c : case) : bool :=
  let 'Case files t steps parsed := c in negb parsed || steps_mismatch (init_st files) steps.

Definition obytes_eqb (a b : option bytes) : bool :=
  match a, b with None, None => true | Some x, Some y => beq x y | _, _ => false end.

(* every crash outcome of state s shows one of the allowed contents under t *)
Definition crash_ok (s : st) (t : name) (allowed : list (option bytes)) : bool :=
  forallb (fun r => existsb (obytes_eqb r) allowed) (crash_reads s t).

(* ... at every point of the trace (the states after 0, 1, ..., all operations) *)
Fixpoint all_prefixes_ok (s : st) (t : name) (allowed : list (option bytes)) (tr : list op) : bool :=
  crash_ok s t allowed &&
  match tr with
  | [] => true
  | o :: r => all_prefixes_ok (step s o) t allowed r
  end.

(* monitor: the property's conclusion on the observed trace. During a call the target shows, after any crash, the
   complete content it had before the call or the complete content the call was asked to put there; once the call
   has returned, only the latter. *)
Fixpoint steps_fail (s : st) (t : name) (before : option bytes) (steps : list obs_step) : bool :=
  match steps with
  | [] => false
  | (_, tr, after) :: r =>
      negb (all_prefixes_ok s t [before; after] tr) ||
      negb (crash_ok (run s tr) t [after]) ||
      steps_fail (run s tr) t after r
  end.

Definition initial_read (files : list (name * bytes)) (t : name) : option bytes :=
  let s := init_st files in
  match dlookup (ddir s) t with Some i => option_map synced (ilookup (inodes s) i) | None => None end.

Definition monitor_fail (c : case) : bool :=
  let 'Case files t steps parsed := c in
  parsed && steps_fail (init_st files) t (initial_read files t) steps.
