(* C28 (planning part) -- executable model of cmd/snap-update-ns change planning and recording:
     change.go   neededChanges, findFirstRootDirectoryThatExists
     sorting.go  byOvernameAndMountPoint.Less, byOriginAndMountPoint.Less
     update.go   executeMountProfileUpdate (what is recorded as the new current profile)
     osutil/mountentry.go  OptStr, OptBool, XSnapd* accessors
   plus hand models of path/filepath.Clean, filepath.Dir, sort.Sort (insertion sort, exactly what Go runs for
   n <= 12; for longer inputs any correct sort gives the same result when no two keys tie) and sort.Strings.
   Written function by function from the Go code. No proofs here (see proofs/MountNSProofs.v). *)
From Coq Require Import List NArith ZArith Bool String.
Import ListNotations.
Require Import V.lib.Bytes V.models.MountEntry.
Open Scope N_scope.

(* ------------------------------------------------------------------ strings *)

(* a < b for Go strings (bytewise lexicographic) *)
Fixpoint blt (a b : bytes) : bool :=
  match a, b with
  | _, [] => false
  | [], _ :: _ => true
  | x :: a', y :: b' => if x <? y then true else if y <? x then false else blt a' b'
  end.

Definition slash : N := 47.

Definition has_suffix_slash (s : bytes) : bool := match rev s with c :: _ => c =? slash | [] => false end.
(* if !strings.HasSuffix(dir, "/") { dir = dir + "/" } *)
Definition with_slash (s : bytes) : bytes := if has_suffix_slash s then s else s ++ [slash].
(* strings.TrimSuffix(dir, "/") + "/" *)
Definition skip_prefix_of (s : bytes) : bytes :=
  (if has_suffix_slash s then removelast s else s) ++ [slash].

(* ------------------------------------------------------------------ filepath.Clean / filepath.Dir *)

Definition dot : bytes := [46].
Definition dotdot : bytes := [46; 46].

(* the component stack of Clean, top first; in a relative path the bottom may hold .. components *)
Fixpoint clean_comps (rooted : bool) (stack : list bytes) (comps : list bytes) : list bytes :=
  match comps with
  | [] => rev stack
  | c :: r =>
      if is_nil_b c || beq c dot then clean_comps rooted stack r
      else if beq c dotdot then
        match stack with
        | top :: below => if beq top dotdot then clean_comps rooted (c :: stack) r else clean_comps rooted below r
        | [] => if rooted then clean_comps rooted [] r else clean_comps rooted [c] r
        end
      else clean_comps rooted (c :: stack) r
  end.

(* func Clean(path string) string *)
Definition clean (p : bytes) : bytes :=
  match p with
  | [] => dot
  | c :: _ =>
      let rooted := c =? slash in
      let body := join slash (clean_comps rooted [] (split_on slash p)) in
      if rooted then slash :: body else match body with [] => dot | _ => body end
  end.

(* func Dir(path string) string: Clean of everything up to and including the last slash *)
Definition path_dir (p : bytes) : bytes :=
  match split_last slash p with
  | Some (a, _) => clean (a ++ [slash])
  | None => dot
  end.

(* ------------------------------------------------------------------ mount entry options *)

(* func (e *MountEntry) OptStr(name string) (string, bool) *)
Fixpoint opt_str (name : bytes) (opts : list bytes) : option bytes :=
  match opts with
  | [] => None
  | o :: r => if has_prefix (name ++ [61]) o then Some (skipn (S (List.length name)) o) else opt_str name r
  end.
(* func (e *MountEntry) OptBool(name string) bool *)
Definition opt_bool (name : bytes) (opts : list bytes) : bool := existsb (beq name) opts.

Definition opt_val (name : bytes) (e : entry) : bytes :=
  match opt_str name (e_opts e) with Some v => v | None => [] end.

Definition s_origin := bs "x-snapd.origin".
Definition s_needed_by := bs "x-snapd.needed-by".
Definition s_synthetic := bs "x-snapd.synthetic".
Definition s_detach := bs "x-snapd.detach".
Definition s_kind := bs "x-snapd.kind".
Definition s_id := bs "x-snapd.id".
Definition s_overname := bs "overname".
Definition s_layout := bs "layout".
Definition s_rootfs := bs "rootfs".
Definition s_tmpfs := bs "tmpfs".
Definition s_bind := bs "bind".
Definition s_rbind := bs "rbind".
Definition s_file := bs "file".
Definition s_symlink := bs "symlink".

Definition x_origin (e : entry) : bytes := opt_val s_origin e.          (* XSnapdOrigin *)
Definition x_needed_by (e : entry) : bytes := opt_val s_needed_by e.    (* XSnapdNeededBy *)
Definition x_kind (e : entry) : bytes := opt_val s_kind e.              (* XSnapdKind *)
Definition x_synthetic (e : entry) : bool := opt_bool s_synthetic (e_opts e).  (* XSnapdSynthetic *)
Definition x_detach (e : entry) : bool := opt_bool s_detach (e_opts e).        (* XSnapdDetach *)
(* XSnapdEntryID: the x-snapd.id option, else the mount point *)
Definition x_entry_id (e : entry) : bytes :=
  match opt_str s_id (e_opts e) with Some v => v | None => e_dir e end.

Definition set_dir (e : entry) (d : bytes) : entry :=
  mkEntry (e_name e) d (e_type e) (e_opts e) (e_freq e) (e_pass e).
Definition set_opts (e : entry) (o : list bytes) : entry :=
  mkEntry (e_name e) (e_dir e) (e_type e) o (e_freq e) (e_pass e).
Definition clean_entry (e : entry) : entry := set_dir e (clean (e_dir e)).

(* ------------------------------------------------------------------ sorting.go *)

Definition is_overname (e : entry) : bool := beq (x_origin e) s_overname.
Definition is_layout (e : entry) : bool := beq (x_origin e) s_layout.

Definition dir_lt (a b : entry) : bool := blt (with_slash (e_dir a)) (with_slash (e_dir b)).

(* byOvernameAndMountPoint.Less *)
Definition less_overname (a b : entry) : bool :=
  if negb (beq (x_origin a) (x_origin b)) then
    if is_overname a then true
    else if is_overname b then false
    else dir_lt a b
  else dir_lt a b.

(* byOriginAndMountPoint.Less *)
Definition less_origin (a b : entry) : bool :=
  if negb (beq (x_origin a) (x_origin b)) then
    if is_overname a then true
    else if is_overname b then false
    else if is_layout a then false
    else if is_layout b then true
    else dir_lt a b
  else dir_lt a b.

(* sort.Sort for short inputs = insertionSort: each element in turn moves left past every element it is
   strictly less than. The sorted prefix is kept reversed (largest first). *)
Section Sort.
  Context {A : Type} (lt : A -> A -> bool).
  Fixpoint ins_rev (x : A) (racc : list A) : list A :=
    match racc with
    | [] => [x]
    | y :: r => if lt x y then y :: ins_rev x r else x :: racc
    end.
  Definition isort (l : list A) : list A := rev (fold_left (fun racc x => ins_rev x racc) l []).
End Sort.

(* ------------------------------------------------------------------ the file system oracle *)

(* what osutil.IsDirectory / FileExists / IsSymlink answer, as the lists of paths for which they say yes
   (fs_exists lists only the paths that exist without being directories: both functions are os.Stat) *)
Record fsor := mkFs { fs_dirs : list bytes; fs_exists : list bytes; fs_symlinks : list bytes }.
Definition mem (x : bytes) (l : list bytes) : bool := existsb (beq x) l.
Definition is_dir (fs : fsor) (p : bytes) : bool := mem p (fs_dirs fs).

(* func findFirstRootDirectoryThatExists(desiredParentDir string) string; the Go recursion ends because / is a
   directory; the fuel (path length + 2) is never exhausted on an oracle that says so *)
Fixpoint first_existing_root (fs : fsor) (fuel : nat) (p : bytes) : bytes :=
  match fuel with
  | O => p
  | S f => if is_dir fs p then p else first_existing_root fs f (path_dir p)
  end.

(* the switch on entry.XSnapdKind() in neededChanges: does the mount target exist in the form needed *)
Definition exists_as (fs : fsor) (e : entry) : bool :=
  let k := x_kind e in
  if is_nil_b k then is_dir fs (e_dir e)
  else if beq k s_file then mem (e_dir e) (fs_exists fs) || is_dir fs (e_dir e)
  else if beq k s_symlink then mem (e_dir e) (fs_symlinks fs)
  else true.

Definition mimic_dir (fs : fsor) (e : entry) : bytes :=
  let parent := path_dir (e_dir e) in first_existing_root fs (S (S (List.length parent))) parent.

(* ------------------------------------------------------------------ neededChanges *)

Inductive action := Keep | Mount | Unmount.
Definition change := (action * entry)%type.

Definition mount_id := (bytes * bytes)%type.     (* mountEntryId{dir, fsType} *)
Definition id_of (e : entry) : mount_id := (e_dir e, e_type e).
Definition id_eqb (a b : mount_id) : bool := beq (fst a) (fst b) && beq (snd a) (snd b).
Definition id_mem (i : mount_id) (l : list mount_id) : bool := existsb (id_eqb i) l.

(* desiredMap[dir]: later entries overwrite earlier ones *)
Definition desired_lookup (des : list entry) (dir : bytes) : option entry :=
  find (fun d => beq (e_dir d) dir) (rev des).

(* the three reasons to reuse a current entry: rootfs set up by snap-confine; synthetic entry whose needed-by
   entry is still desired; identical to the desired entry for the same mount point *)
Definition reusable (des : list entry) (ids : list bytes) (c : entry) : bool :=
  beq (x_origin c) s_rootfs ||
  (x_synthetic c && mem (x_needed_by c) ids) ||
  match desired_lookup des (e_dir c) with Some d => entry_eqb c d | None => false end.

(* the loop over the sorted current entries with its skipDir variable; result: the keys put into reuse *)
Fixpoint reuse_scan (des : list entry) (ids : list bytes) (skip : bytes) (cur : list entry) : list mount_id :=
  match cur with
  | [] => []
  | c :: r =>
      if negb (is_nil_b skip) && has_prefix skip (e_dir c) then reuse_scan des ids skip r
      else if reusable des ids c then id_of c :: reuse_scan des ids [] r
      else reuse_scan des ids (skip_prefix_of (e_dir c)) r
  end.

(* the entry of an Unmount change: detach rather than unmount what may host nested mount points *)
Definition detach_form (e : entry) : entry :=
  let should := beq (e_type e) s_tmpfs || opt_bool s_bind (e_opts e) || opt_bool s_rbind (e_opts e) in
  if should && negb (x_detach e) then set_opts e (e_opts e ++ [s_detach]) else e.

Fixpoint nodup_b (l : list bytes) : list bytes :=
  match l with
  | [] => []
  | x :: r => if mem x r then nodup_b r else x :: nodup_b r
  end.

(* the reuse set *)
Definition reuse_of (current desired : list entry) : list mount_id :=
  let cur := map clean_entry current in
  let des := isort less_origin (map clean_entry desired) in
  reuse_scan des (map x_entry_id des) [] (isort less_overname cur).

(* the Keep / Unmount part: the current entries in reverse *)
Definition unmount_part (reuse : list mount_id) (cur : list entry) : list change :=
  map (fun e => if id_mem (id_of e) reuse then (Keep, e) else (Unmount, detach_form e)) (rev cur).

(* the order in which the not reused desired entries are mounted. (The Go code also drops a second entry for the
   same mount point here and walks maps in random order; both are without effect when the desired mount points
   are pairwise different, which is the hypothesis of every theorem and is checked on every tied case.) *)
Definition mount_order (fs : fsor) (dnr : list entry) : list entry :=
  let independent := filter (fun e => is_overname e || exists_as fs e) dnr in
  let mimics := filter (fun e => negb (is_overname e) && negb (exists_as fs e)) dnr in
  let mdirs := isort blt (nodup_b (map (mimic_dir fs) mimics)) in
  isort less_origin independent ++
  List.concat (map (fun d => isort less_origin (filter (fun e => beq (mimic_dir fs e) d) mimics)) mdirs).

(* func neededChanges(currentProfile, desiredProfile *osutil.MountProfile) []*Change *)
Definition needed_changes (fs : fsor) (current desired : list entry) : list change :=
  let cur := map clean_entry current in
  let des := isort less_origin (map clean_entry desired) in
  let reuse := reuse_of current desired in
  unmount_part reuse cur ++
  map (fun e => (Mount, e)) (mount_order fs (filter (fun e => negb (id_mem (id_of e) reuse)) des)).

(* update.go: the new current profile = the entries of the performed Mount and Keep changes, in order *)
Definition recorded (made : list change) : list entry :=
  map snd (filter (fun c => match fst c with Unmount => false | _ => true end) made).

(* ------------------------------------------------------------------ applying a change list to a mount table *)

Fixpoint remove_first (p : entry -> bool) (l : list entry) : option (list entry) :=
  match l with
  | [] => None
  | x :: r => if p x then Some r else match remove_first p r with Some r' => Some (x :: r') | None => None end
  end.

(* Keep: the entry must be there; Unmount: the entry whose unmount form this is goes away; Mount: added.
   None = the change does not apply to the table. *)
Definition apply_change (tbl : list entry) (c : change) : option (list entry) :=
  match fst c with
  | Keep => if existsb (entry_eqb (snd c)) tbl then Some tbl else None
  | Unmount => remove_first (fun e => entry_eqb (detach_form e) (snd c)) tbl
  | Mount => Some (tbl ++ [snd c])
  end.
Fixpoint apply_changes (tbl : list entry) (cs : list change) : option (list entry) :=
  match cs with
  | [] => Some tbl
  | c :: r => match apply_change tbl c with Some t => apply_changes t r | None => None end
  end.

(* ------------------------------------------------------------------ the property's vocabulary *)

(* c lies beneath p: its directory starts with p's directory plus a slash *)
Definition beneath (c p : entry) : bool := has_prefix (skip_prefix_of (e_dir p)) (e_dir c).

(* helper entries: not asked for by snapd, present to support something else *)
Definition is_helper (ids : list bytes) (c : entry) : bool :=
  beq (x_origin c) s_rootfs || (x_synthetic c && mem (x_needed_by c) ids).

Fixpoint distinct_b (l : list bytes) : bool :=
  match l with [] => true | x :: r => negb (mem x r) && distinct_b r end.
Fixpoint distinct_ids (l : list mount_id) : bool :=
  match l with [] => true | x :: r => negb (id_mem x r) && distinct_ids r end.

(* is the multiset of a contained in b, and are they equal as multisets *)
Fixpoint sub_multiset (a b : list entry) : bool :=
  match a with
  | [] => true
  | x :: r => match remove_first (entry_eqb x) b with Some b' => sub_multiset r b' | None => false end
  end.
Definition same_multiset (a b : list entry) : bool := sub_multiset a b && (List.length a =? List.length b)%nat.

(* ------------------------------------------------------------------ correspondence interface *)

Definition action_eqb (a b : action) : bool :=
  match a, b with Keep, Keep | Mount, Mount | Unmount, Unmount => true | _, _ => false end.
Fixpoint changes_eqb (a b : list change) : bool :=
  match a, b with
  | [], [] => true
  | x :: a', y :: b' => action_eqb (fst x) (fst y) && entry_eqb (snd x) (snd y) && changes_eqb a' b'
  | _, _ => false
  end.

Inductive case :=
  (* one update step: the oracle answers, the current profile with the true mount age of each entry (position in
     the sequence of all mounts ever made in this history; smaller = older; informative), the desired profile, whether sort
     stability could matter (more than 12 current entries with tied keys), the observed result of neededChanges,
     the changes executeMountProfileUpdate collected (with the synthesised ones) and the profile it saved *)
  | CStep (fs : fsor) (current : list entry) (ages : list N) (desired : list entry) (unstable : bool)
          (changes : list change) (made : list change) (saved : list entry).

Definition tie_mismatch (c : case) : bool :=
  match c with
  | CStep fs cur _ des unstable chs made saved =>
      (negb unstable && negb (changes_eqb (needed_changes fs cur des) chs)) ||
      negb (entries_eqb (recorded made) saved)
  end.

(* --- the property on the observed change list, written without the model's planning functions --- *)

Definition unmounts_of (chs : list change) : list entry :=
  map snd (filter (fun c => action_eqb (fst c) Unmount) chs).
Definition mounts_of (chs : list change) : list entry :=
  map snd (filter (fun c => action_eqb (fst c) Mount) chs).
Definition keeps_of (chs : list change) : list entry :=
  map snd (filter (fun c => action_eqb (fst c) Keep) chs).

(* the position in the current profile of the entry an Unmount change refers to *)
Fixpoint pos_of (cur : list entry) (u : entry) : option nat :=
  match cur with
  | c :: cr => if entry_eqb (detach_form c) u then Some O else match pos_of cr u with Some n => Some (S n) | None => None end
  | [] => None
  end.

(* within one step: no entry is unmounted before an entry that is beneath it and later in the current profile (the
   profile is the log of what was mounted, oldest first). Over whole histories, with true mount ages: order_fail below. *)
Fixpoint unmount_order_ok (cur : list entry) (us : list entry) : bool :=
  match us with
  | [] => true
  | p :: later =>
      forallb (fun c => negb (beneath c p &&
                              match pos_of cur p, pos_of cur c with
                              | Some ip, Some ic => Nat.ltb ip ic
                              | _, _ => false
                              end)) later
      && unmount_order_ok cur later
  end.

(* among entries of the same origin no entry is mounted before an entry whose directory contains it *)
Fixpoint mount_order_ok (ms : list entry) : bool :=
  match ms with
  | [] => true
  | c :: later =>
      forallb (fun p => negb (beq (x_origin c) (x_origin p) && beneath c p)) later && mount_order_ok later
  end.

(* a desired entry is shadowed when a different helper entry of the current profile sits on its (dir, type): reuse
   is keyed by (dir, type) only, so if that helper is reused the desired entry is neither mounted nor recorded
   (KNOWN_FINDINGS key desired-shadowed-by-helper) *)
Definition shadowed (ids : list bytes) (cur : list entry) (d : entry) : bool :=
  existsb (fun c => is_helper ids c && id_eqb (id_of c) (id_of d) && negb (entry_eqb c d)) cur.

(* the hypotheses under which the property is stated, evaluated on the case (the absence of shadowed entries is
   NOT among them: the monitor reports that class) *)
Definition hyps (fs : fsor) (cur des : list entry) : bool :=
  distinct_b (map e_dir des) &&
  distinct_ids (map id_of cur) &&
  (* mount targets that exist are closed under containment: if the target of a desired entry exists in the form
     needed then so do the targets of the desired entries of the same origin above it *)
  forallb (fun c => forallb (fun p => negb (beq (x_origin c) (x_origin p) && beneath c p && exists_as fs c &&
                                            negb (exists_as fs p) && negb (is_overname p))) des) des.

(* the property's conclusion on an observed change list; des_expect = the desired entries that must be present *)
(* no entry is kept while an entry whose directory properly contains its directory is unmounted in the same update
   (the kept mount would go away with its parent and never come back). strict = false exempts the pairs where exactly
   one of the two is an overname entry (KNOWN_FINDINGS key keep-beneath-unmounted-overname). Stated for current
   profiles without two entries on one sort key. *)
Definition sort_key (e : entry) : bytes := with_slash (e_dir e).
Definition no_keep_beneath_unmounted (strict : bool) (cur : list entry) (chs : list change) : bool :=
  negb (distinct_b (map sort_key cur)) ||
  forallb (fun k => forallb (fun u => negb (beneath k u && negb (beq (sort_key k) (sort_key u)) &&
                                           (strict || Bool.eqb (is_overname k) (is_overname u))))
                            (unmounts_of chs)) (keeps_of chs).

Definition step_ok (strict : bool) (cur des des_expect : list entry) (chs : list change) : bool :=
  let ids := map x_entry_id des in
  no_keep_beneath_unmounted strict cur chs &&
  (* applying the changes to the current table works and yields the desired entries plus helpers *)
  match apply_changes cur chs with
  | None => false
  | Some tbl =>
      match (fix diff (a b : list entry) : option (list entry) :=
               match a with
               | [] => Some b
               | x :: r => match remove_first (entry_eqb x) b with Some b' => diff r b' | None => None end
               end) des_expect tbl with
      | Some extra => forallb (fun x => is_helper ids x && existsb (entry_eqb x) cur) extra
      | None => false
      end
  end &&
  (* unchanged entries not beneath a changed one are kept *)
  forallb (fun c0 =>
             negb (existsb (entry_eqb c0) des &&
                   negb (existsb (fun p => negb (is_helper ids p) && negb (existsb (entry_eqb p) des) && beneath c0 p) cur))
             || existsb (entry_eqb c0) (keeps_of chs)) cur &&
  unmount_order_ok cur (unmounts_of chs) &&
  mount_order_ok (mounts_of chs).

(* the full property: every desired entry present *)
Definition monitor_fail (c : case) : bool :=
  match c with
  | CStep fs current ages desired _ chs _ _ =>
      let cur := map clean_entry current in
      let des := map clean_entry desired in
      hyps fs cur des && negb (step_ok true cur des des chs)
  end.

(* the same with the two recorded classes taken out: shadowed desired entries that are in fact absent need not be
   present, and a kept entry may lie beneath an unmounted one across the overname boundary. A case that fails this
   fails for a reason other than the recorded findings; folded into the correspondence verdict so that the
   known-finding keys cannot hide it. Evaluated only where the full monitor fails. *)
Definition relaxed_fail (c : case) : bool :=
  match c with
  | CStep fs current ages desired _ chs _ _ =>
      let cur := map clean_entry current in
      let des := map clean_entry desired in
      let ids := map x_entry_id des in
      let present := keeps_of chs ++ mounts_of chs in
      let expect := filter (fun d => negb (shadowed ids cur d && negb (existsb (entry_eqb d) present))) des in
      monitor_fail c && negb (step_ok false cur des expect chs)
  end.

Definition mismatch (c : case) : bool := tie_mismatch c || relaxed_fail c.

(* --- the unmount order over whole histories ---
   One update step of a history, reduced to what the sentence [no entry is unmounted before an entry that was
   mounted beneath it after it] talks about: the current entries as (mount point, true mount age) in profile order
   and the positions (in that list) of the entries unmounted, in the order of the Unmount changes. *)
Inductive ocase := COrder (cur : list (bytes * N)) (unmounts : list nat).

Definition beneath_dir (c p : bytes) : bool := has_prefix (skip_prefix_of p) c.

Fixpoint order_ok (cur : list (bytes * N)) (us : list nat) : bool :=
  match us with
  | [] => true
  | i :: later =>
      forallb (fun j =>
                 match nth_error cur i, nth_error cur j with
                 | Some (pd, pa), Some (cd, ca) => negb (beneath_dir cd pd && (pa <? ca))
                 | _, _ => false
                 end) later
      && order_ok cur later
  end.

Definition order_fail (c : ocase) : bool := match c with COrder cur us => negb (order_ok cur us) end.
