(* C07 — serialized task kinds never run concurrently: model of the four predicates registered with
   TaskRunner.AddBlocked (hookstate.Manager, SnapManager.blockedTask, ifacestate.Manager, devicestate
   gadgetUpdateBlocked) and of the part of TaskRunner.Ensure / run / clean that maintains the set of tasks with a
   tomb (overlord/state/taskrunner.go). The task kinds come from gen/BlockedKinds.v, regenerated from the sources on
   every run. Executable definitions only; proofs in proofs/BlockedProofs.v. *)
From Coq Require Import List NArith Bool String.
Import ListNotations.
Require Import V.lib.Bytes.
Require V.gen.BlockedKinds.
Open Scope N_scope.

(* what the predicates look at in a task: its kind and, if Get("hook-setup") succeeds, HookSetup.Snap *)
Record task := mkT {
  t_id : N;
  t_kind : bytes;
  t_hook_snap : option bytes
}.

Definition mem_bytes (x : bytes) (l : list bytes) : bool := existsb (beq x) l.

Definition is_hook (t : task) : bool := beq (t_kind t) BlockedKinds.hook_kind.
Definition is_iface (t : task) : bool := mem_bytes (t_kind t) BlockedKinds.iface_kinds.     (* taskKinds[t.Kind()] *)
Definition is_prereq (t : task) : bool := beq (t_kind t) BlockedKinds.prereq_kind.
Definition is_gadget (t : task) : bool := beq (t_kind t) BlockedKinds.gadget_kind.

(* hookstate.Manager's predicate: one run-hook task per snap *)
Definition hook_blocked (t : task) (running : list task) : bool :=
  if is_hook t then
    match t_hook_snap t with
    | None => false                                  (* thisTask.Get("hook-setup") failed *)
    | Some s =>
        existsb (fun r => is_hook r && match t_hook_snap r with Some s' => beq s' s | None => false end) running
    end
  else false.

(* ifacestate.Manager's predicate *)
Definition iface_blocked (t : task) (running : list task) : bool :=
  if is_iface t then existsb is_iface running else false.

(* SnapManager.blockedTask *)
Definition prereq_blocked (t : task) (running : list task) : bool :=
  if is_prereq t then existsb is_prereq running else false.

(* devicestate.gadgetUpdateBlocked *)
Definition gadget_blocked (t : task) (running : list task) : bool :=
  (is_gadget t && negb (is_nil_b running)) || existsb is_gadget running.

(* the verdicts in the order the driver registers the managers: hookstate, snapstate, ifacestate, devicestate *)
Definition verdicts (t : task) (running : list task) : list bool :=
  [hook_blocked t running; prereq_blocked t running; iface_blocked t running; gadget_blocked t running].

(* Ensure: `for _, blocked := range r.blocked { if blocked(t, running) {...continue ConsiderTasks} }` *)
Definition blocked (t : task) (running : list task) : bool := existsb (fun b => b) (verdicts t running).

(* TaskRunner.blocked as data: AddBlocked appends a predicate, SetBlocked replaces them all; Ensure asks them in
   registration order and stops at the first that says true *)
Definition pred := task -> list task -> bool.
Definition add_blocked (ps : list pred) (p : pred) : list pred := ps ++ [p].
Definition set_blocked (p : pred) : list pred := [p].
Definition blocked_by (ps : list pred) (t : task) (running : list task) : bool := existsb (fun p => p t running) ps.

(* what overlord.New registers, in the order of the driver's first world (hookstate, snapstate, ifacestate, devicestate) *)
Definition registered : list pred :=
  add_blocked (add_blocked (add_blocked (add_blocked [] hook_blocked) prereq_blocked) iface_blocked) gadget_blocked.

(* ------------------------------------------------------------------------------------------ the specification
   two tasks that must not execute at the same time *)
Definition conflict (a b : task) : bool :=
  (is_hook a && is_hook b &&
   match t_hook_snap a, t_hook_snap b with Some x, Some y => beq x y | _, _ => false end) ||
  (is_iface a && is_iface b) ||
  (is_prereq a && is_prereq b) ||
  is_gadget a || is_gadget b.

(* no two tasks of the list conflict *)
Fixpoint excl (l : list task) : bool :=
  match l with
  | [] => true
  | t :: r => negb (existsb (conflict t) r) && excl r
  end.

(* ------------------------------------------------------------------------------------------ the runner
   r.tombs: the tasks that have a goroutine, with a flag telling whether it runs the cleanup handler (TaskRunner.clean)
   rather than the do/undo handler (TaskRunner.run) *)
Definition tombs := list (task * bool).

Definition has_tomb (id : N) (tb : tombs) : bool := existsb (fun x => N.eqb (t_id (fst x)) id) tb.

(* the do/undo handlers executing *)
Definition handlers (tb : tombs) : list task := map fst (List.filter (fun x => negb (snd x)) tb).

(* what the loop of Ensure does with one task of r.state.Tasks() *)
Inductive cand :=
| CRun (t : task)        (* reaches the blocked check: Do/Undo status, nothing to wait for, scheduled time reached *)
| CClean (t : task)      (* ready, not clean, change ready, a cleanup handler is registered: r.clean(t) *)
| CSkip.                 (* anything else *)

(* the loop: `running` starts as ALL the tasks with tombs, whatever their status (a task aborted while its handler is
   still executing has status Abort and keeps its tomb until the goroutine returns), and grows by every task started with r.run; r.clean adds a tomb
   but does not touch `running`; a task that already has a tomb is skipped (`if tb != nil { continue }`) *)
Fixpoint ensure_loop (tb : tombs) (running : list task) (cs : list cand) : tombs :=
  match cs with
  | [] => tb
  | CSkip :: r => ensure_loop tb running r
  | CClean t :: r =>
      if has_tomb (t_id t) tb then ensure_loop tb running r
      else ensure_loop (tb ++ [(t, true)]) running r
  | CRun t :: r =>
      if has_tomb (t_id t) tb then ensure_loop tb running r
      else if blocked t running then ensure_loop tb running r
      else ensure_loop (tb ++ [(t, false)]) (running ++ [t]) r
  end.

Definition ensure_pass (tb : tombs) (cs : list cand) : tombs := ensure_loop tb (map fst tb) cs.

(* r.someBlocked after the pass: set when a candidate was skipped because a predicate said true. When it is set, every
   finishing goroutine asks for another Ensure (`if r.someBlocked { r.state.EnsureBefore(0) }`) *)
Fixpoint some_blocked_loop (tb : tombs) (running : list task) (cs : list cand) : bool :=
  match cs with
  | [] => false
  | CSkip :: r => some_blocked_loop tb running r
  | CClean t :: r =>
      if has_tomb (t_id t) tb then some_blocked_loop tb running r
      else some_blocked_loop (tb ++ [(t, true)]) running r
  | CRun t :: r =>
      if has_tomb (t_id t) tb then some_blocked_loop tb running r
      else if blocked t running then true
      else some_blocked_loop (tb ++ [(t, false)]) (running ++ [t]) r
  end.
Definition some_blocked (tb : tombs) (cs : list cand) : bool := some_blocked_loop tb (map fst tb) cs.

Inductive event :=
| EEnsure (cs : list cand)     (* one TaskRunner.Ensure pass over the tasks in some iteration order *)
| EDone (id : N)               (* the goroutine of task id finishes: delete(r.tombs, id) *)
| EAbort (ids : list N)        (* Change.Abort / abortLanes: statuses change, tombs are killed but stay in r.tombs until
                                  their goroutine returns; which tasks are candidates afterwards is the next EEnsure's input *)
| ERestart.                    (* snapd restarts: a new TaskRunner, no goroutines; Doing tasks are candidates again *)

Definition step (tb : tombs) (e : event) : tombs :=
  match e with
  | EEnsure cs => ensure_pass tb cs
  | EDone id => List.filter (fun x => negb (N.eqb (t_id (fst x)) id)) tb
  | EAbort _ => tb
  | ERestart => []
  end.

Definition run (evs : list event) : tombs := fold_left step evs [].

(* ------------------------------------------------------------------------------------------ correspondence
   abbreviations for the case files (string literals are slow to parse) *)
Definition kd (i : nat) : bytes :=
  nth i [bs "run-hook"; bs "prerequisites"; bs "update-gadget-assets"; bs "connect"; bs "disconnect"; bs "setup-profiles";
         bs "auto-connect"; bs "hotplug-seq-wait"; bs "verif-other"; bs "remove-profiles"; bs "discard-conns";
         bs "hotplug-connect"; bs "transition-ubuntu-core"; bs "auto-disconnect"; bs "copy-snap-data"] [].
Definition sn (i : nat) : bytes := nth i [bs "snap-a"; bs "snap-b"; bs "snap-c"] [].

Definition list_eqb {A} (e : A -> A -> bool) := fix go (a b : list A) : bool :=
  match a, b with
  | [], [] => true
  | x :: a', y :: b' => e x y && go a' b'
  | _, _ => false
  end.

Inductive case :=
(* the registered predicates evaluated on a candidate and a running set: observed verdict of each predicate *)
| CBlocked (t : task) (running : list task) (observed : list bool)
(* a real TaskRunner.Ensure pass: tasks with a tomb before (with cleanup flag), tasks with a do/undo tomb after,
   tasks that were runnable (Do status, no tomb, nothing to wait for) before the pass and still have no tomb after *)
| CPass (before : tombs) (after_handlers : list task) (idle : list task) (some_blocked : bool)
(* the same after TaskRunner.SetBlocked replaced the predicate list by the driver's predicate number p *)
| CPassP (p : N) (before : tombs) (after_handlers : list task) (idle : list task) (some_blocked : bool)
(* the predicates registered in another order (devicestate, ifacestate, snapstate after hookstate): observed disjunction *)
| CBlockedAny (t : task) (running : list task) (observed : bool)
(* the set of handlers executing at one instant (recorded when a handler starts) *)
| CExec (executing : list task)
(* every task with a tomb after an Ensure pass, with its cleanup flag *)
| CTombs (tb : tombs).

Definition subset_ids (a b : list task) : bool :=
  forallb (fun x => existsb (fun y => N.eqb (t_id x) (t_id y)) b) a.

(* the predicates the driver installs with SetBlocked: 0 = never blocked, 1 = one task at a time *)
Definition driver_pred (p : N) : pred :=
  match p with
  | 0%N => fun _ _ => false
  | _ => fun _ running => negb (is_nil_b running)
  end.

(* an Ensure pass is order dependent; what every iteration order satisfies, for a monotone predicate `bl`:
   r.someBlocked is set exactly when some runnable task was skipped, i.e. left idle; whatever was left idle is blocked by
   the final running set; whatever was started was not blocked by the tasks that had a tomb before the pass (every one of
   them, whatever its status: `running` is built from r.tombs) *)
Definition pass_mismatch (bl : task -> list task -> bool) (before : tombs) (after_h idle : list task) (sb : bool) : bool :=
  negb (Bool.eqb sb (negb (is_nil_b idle))) ||
  negb (forallb (fun t => bl t (map fst before ++ after_h)) idle) ||
  negb (forallb (fun t => has_tomb (t_id t) before || negb (bl t (map fst before))) after_h).

Definition mismatch (c : case) : bool :=
  match c with
  | CBlocked t running observed => negb (list_eqb Bool.eqb (verdicts t running) observed)
  | CBlockedAny t running observed => negb (Bool.eqb (blocked t running) observed)
  | CPass before after_h idle sb => pass_mismatch blocked before after_h idle sb
  | CPassP p before after_h idle sb => pass_mismatch (blocked_by (set_blocked (driver_pred p))) before after_h idle sb
  | CExec _ => false
  | CTombs _ => false
  end.

(* ------------------------------------------------------------------------------------------ the property, stated
   without reference to the generated kinds: what C07 means by hook / interface-manipulating / prerequisite-installing /
   gadget-asset-update tasks. The interface kinds are the handlers of InterfaceManager that read or change the
   interface repository, connection state or security profiles (hotplug-seq-wait only compares a sequence number). *)
Definition spec_iface_kinds : list bytes :=
  [bs "connect"; bs "disconnect"; bs "setup-profiles"; bs "remove-profiles"; bs "discard-conns"; bs "auto-connect";
   bs "auto-disconnect"; bs "hotplug-add-slot"; bs "hotplug-connect"; bs "hotplug-update-slot"; bs "hotplug-remove-slot";
   bs "hotplug-disconnect"; bs "transition-ubuntu-core"].
Definition spec_is_hook (t : task) : bool := beq (t_kind t) (bs "run-hook").
Definition spec_is_iface (t : task) : bool := mem_bytes (t_kind t) spec_iface_kinds.
Definition spec_is_prereq (t : task) : bool := beq (t_kind t) (bs "prerequisites").
Definition spec_is_gadget (t : task) : bool := beq (t_kind t) (bs "update-gadget-assets").

Definition spec_conflict (a b : task) : bool :=
  (spec_is_hook a && spec_is_hook b &&
   match t_hook_snap a, t_hook_snap b with Some x, Some y => beq x y | _, _ => false end) ||
  (spec_is_iface a && spec_is_iface b) ||
  (spec_is_prereq a && spec_is_prereq b) ||
  spec_is_gadget a || spec_is_gadget b.

Fixpoint spec_excl (l : list task) : bool :=
  match l with
  | [] => true
  | t :: r => negb (existsb (spec_conflict t) r) && spec_excl r
  end.

(* the generated kinds cover the specification's kinds (checked by computation in props/C07.v on every run) *)
Definition gen_covers_spec : bool :=
  forallb (fun k => mem_bytes k BlockedKinds.iface_kinds) spec_iface_kinds &&
  beq BlockedKinds.hook_kind (bs "run-hook") && beq BlockedKinds.prereq_kind (bs "prerequisites") &&
  beq BlockedKinds.gadget_kind (bs "update-gadget-assets").

(* the property's conclusion on the observed behaviour (specification kinds only) *)
Definition monitor_fail (c : case) : bool :=
  match c with
  | CBlocked t running observed =>
      (* letting the candidate run next to a conflict-free running set must keep it conflict free *)
      spec_excl running && negb (existsb (fun b => b) observed) && negb (spec_excl (running ++ [t]))
  | CBlockedAny t running observed => spec_excl running && negb observed && negb (spec_excl (running ++ [t]))
  | CPass before after_h idle _ => spec_excl (handlers before) && negb (spec_excl after_h)
  | CPassP _ _ _ _ _ => false      (* with a replaced predicate list the exclusions are not promised *)
  | CExec executing => negb (spec_excl executing)
  | CTombs tb => negb (spec_excl (handlers tb))
  end.

(* the remaining clause of the property, `a gadget-asset update never runs alongside any other task`, read literally:
   a cleanup goroutine (task code of another task) exists while update-gadget-assets executes. Evaluated separately so
   that this one class can be recorded as a known finding without hiding any violation among do/undo handlers. *)
Definition cleanup_monitor_fail (c : case) : bool :=
  match c with
  | CTombs tb => existsb (fun x => negb (snd x) && spec_is_gadget (fst x)) tb && existsb (fun x => snd x) tb
  | _ => false
  end.

(* no Ensure pass of the history starts a cleanup (no ready change has an uncleaned task of a kind with a cleanup handler) *)
Definition no_clean_cand (c : cand) : bool := match c with CClean _ => false | _ => true end.
Definition no_clean (evs : list event) : bool :=
  forallb (fun e => match e with EEnsure cs => forallb no_clean_cand cs | _ => true end) evs.

