(* C01 / C02 / C03 — model of the change / task engine of overlord/state:
     overlord/state/change.go   Status.Ready, statusOrder, Change.Status, isChangeWaiting / isTaskWaiting,
                                detectChangeReady / taskStatusChanged / markReady, Change.Abort, AbortLanes,
                                abortLanes, abortTasks, taskEffectiveStatus, Change.Err
     overlord/state/task.go     Task.Status, SetStatus (Abort->Done suppression), SetToWait, changeStatus, Lanes, At
     overlord/state/taskrunner.go  TaskRunner.run (goroutine tail), tryUndo, Ensure, mustWait, abortLanes
   Each definition names the Go function it mirrors. No proofs in this file.

   Tasks are numbered by their position in Change.taskIDs.  Go's map iteration order in Ensure (state.Tasks())
   is the explicit argument [order] of the event [Ensure].  Handler completion is the event [Finish t outcome];
   goroutine scheduling is therefore the event list (the state lock and r.mu serialise the critical sections). *)
From Coq Require Import List NArith ZArith Bool Arith.
Import ListNotations.

(* ------------------------------------------------------------------ statuses (change.go: Status constants) *)
Inductive status := Hold | Do | Doing | Done | Abort | Undo | Undoing | Undone | Error | Wait.

Definition seqb (a b : status) : bool :=
  match a, b with
  | Hold, Hold | Do, Do | Doing, Doing | Done, Done | Abort, Abort | Undo, Undo | Undoing, Undoing
  | Undone, Undone | Error, Error | Wait, Wait => true
  | _, _ => false
  end.

(* Status.Ready *)
Definition ready (s : status) : bool :=
  match s with Done | Undone | Hold | Error => true | _ => false end.

(* var statusOrder *)
Definition status_order : list status := [Abort; Undoing; Undo; Doing; Do; Wait; Error; Undone; Done; Hold].

Definition memn (x : nat) (l : list nat) : bool := existsb (Nat.eqb x) l.

(* ------------------------------------------------------------------ tasks and engine state *)
Record task := mkTask {
  t_st : status;          (* Task.status (DefaultStatus is read as Do by Task.Status) *)
  t_waited : status;      (* Task.waitedStatus *)
  t_lanes : list nat;     (* Task.lanes (empty = lane 0, see lanes_of) *)
  t_waits : list nat;     (* Task.waitTasks *)
  t_halts : list nat;     (* Task.haltTasks *)
  t_undo : bool;          (* handlerPair(t).undo != nil *)
  t_at : Z                (* Task.atTime, 0 = zero time *)
}.

(* one handler start: task, undo handler?, statuses of the prerequisites at that instant (wait tasks for do,
   halt tasks for undo), whether the schedule gate was open, and whether this is a fresh start (Do->Doing /
   Undo->Undoing status write) rather than a re-run of a task left in Doing / Undoing by Retry *)
Record start_rec := mkSR { sr_t : nat; sr_undo : bool; sr_pre : list status; sr_gate : bool; sr_fresh : bool }.

Record state := mkState {
  tasks : list task;
  running : list nat;     (* TaskRunner.tombs: tasks with a live handler goroutine *)
  now : Z;                (* timeNow() *)
  cready : bool;          (* Change.ready channel closed (= readyTime set: markReady does both) *)
  panicked : bool;        (* detectChangeReady panicked: change unexpectedly became unready *)
  oof : bool;             (* a fuel bound of the model was hit (never, see TaskEngineProofs) *)
  slog : list start_rec   (* handler starts, most recent first *)
}.

Definition dummy : task := mkTask Hold Hold [] [] [] false 0.
Definition get (s : state) (t : nat) : task := nth t (tasks s) dummy.
Definition st (s : state) (t : nat) : status := t_st (get s t).

Fixpoint upd (l : list task) (t : nat) (f : task -> task) : list task :=
  match l, t with
  | [], _ => []
  | x :: r, O => f x :: r
  | x :: r, S t' => x :: upd r t' f
  end.

Definition with_tasks (s : state) (l : list task) : state :=
  mkState l (running s) (now s) (cready s) (panicked s) (oof s) (slog s).
Definition with_running (s : state) (r : list nat) : state :=
  mkState (tasks s) r (now s) (cready s) (panicked s) (oof s) (slog s).
Definition with_now (s : state) (z : Z) : state :=
  mkState (tasks s) (running s) z (cready s) (panicked s) (oof s) (slog s).
Definition with_cready (s : state) (b : bool) : state :=
  mkState (tasks s) (running s) (now s) b (panicked s) (oof s) (slog s).
Definition with_panicked (s : state) (b : bool) : state :=
  mkState (tasks s) (running s) (now s) (cready s) b (oof s) (slog s).
Definition with_oof (s : state) (b : bool) : state :=
  mkState (tasks s) (running s) (now s) (cready s) (panicked s) b (slog s).
Definition with_slog (s : state) (l : list start_rec) : state :=
  mkState (tasks s) (running s) (now s) (cready s) (panicked s) (oof s) l.

Definition set_st (tk : task) (n : status) : task :=
  mkTask n (t_waited tk) (t_lanes tk) (t_waits tk) (t_halts tk) (t_undo tk) (t_at tk).
Definition set_waited (tk : task) (n : status) : task :=
  mkTask (t_st tk) n (t_lanes tk) (t_waits tk) (t_halts tk) (t_undo tk) (t_at tk).
Definition set_at (tk : task) (z : Z) : task :=
  mkTask (t_st tk) (t_waited tk) (t_lanes tk) (t_waits tk) (t_halts tk) (t_undo tk) z.

(* Task.Lanes *)
Definition lanes_of (tk : task) : list nat := match t_lanes tk with [] => [0] | l => l end.

(* taskEffectiveStatus *)
Definition eff_status (tk : task) : status := if seqb (t_st tk) Wait then t_waited tk else t_st tk.

(* ------------------------------------------------------------------ Change.Status *)
(* isTaskWaiting memo: 1 = computing, 2 = not waiting, 3 = waiting *)
Fixpoint vget (v : list (nat * nat)) (t : nat) : nat :=
  match v with [] => 0 | (k, x) :: r => if Nat.eqb k t then x else vget r t end.

(* the loop over deps of Change.isTaskWaiting; [rec] is the recursive call isTaskWaiting(visited, wt, deps of wt) *)
Fixpoint tw_loop (rec : list (nat * nat) -> nat -> list nat -> bool * list (nat * nat)) (l : list task)
                 (ds : list nat) (w : bool) (v : list (nat * nat)) : bool * list (nat * nat) :=
  match ds with
  | [] => (w, v)
  | d :: r =>
    let tk := nth d l dummy in
    match t_st tk with
    | Wait => tw_loop rec l r true v
    | Done | Undone | Error | Hold => tw_loop rec l r w v
    | Do => let '(w', v') := rec v d (t_waits tk) in
            if w' then tw_loop rec l r true v' else (false, v')
    | Undo => let '(w', v') := rec v d (t_halts tk) in
              if w' then tw_loop rec l r true v' else (false, v')
    | _ => (false, v)
    end
  end.

(* Change.isTaskWaiting; fuel bounds the recursion depth (the memo makes every task enter the computing state at
   most once, so depth <= number of tasks) *)
Fixpoint task_waiting (fuel : nat) (l : list task) (v : list (nat * nat)) (t : nat) (deps : list nat)
  : bool * list (nat * nat) :=
  match fuel with
  | O => (false, v)
  | S f =>
    match vget v t with
    | 1 => (false, v)
    | 2 => (false, v)
    | 3 => (true, v)
    | _ =>
      let '(w, v2) := tw_loop (task_waiting f l) l deps false ((t, 1) :: v) in
      (w, (t, if w then 3 else 2) :: v2)
    end
  end.

(* Change.isChangeWaiting *)
Fixpoint change_waiting_loop (l : list task) (ids : list nat) (v : list (nat * nat)) : bool :=
  match ids with
  | [] => true
  | t :: r =>
    let tk := nth t l dummy in
    match t_st tk with
    | Wait | Done | Undone | Error | Hold => change_waiting_loop l r v
    | Do => let '(w, v') := task_waiting (S (length l)) l v t (t_waits tk) in
            if w then change_waiting_loop l r v' else false
    | Undo => let '(w, v') := task_waiting (S (length l)) l v t (t_halts tk) in
              if w then change_waiting_loop l r v' else false
    | _ => false
    end
  end.
Definition is_change_waiting (l : list task) : bool := change_waiting_loop l (seq 0 (length l)) [].

Definition has_status (l : list task) (x : status) : bool := existsb (fun tk => seqb (t_st tk) x) l.

(* Change.Status with c.status = DefaultStatus (the engine never sets an explicit change status) *)
Definition change_status (l : list task) : status :=
  match l with
  | [] => Hold
  | _ =>
    if has_status l Wait && is_change_waiting l then Wait
    else match find (has_status l) status_order with Some x => x | None => Hold end
  end.

(* Change.Err: the tasks it names (those in ErrorStatus), when the change is in ErrorStatus *)
Definition err_tasks (l : list task) : list nat :=
  if seqb (change_status l) Error
  then filter (fun t => seqb (t_st (nth t l dummy)) Error) (seq 0 (length l)) else [].

(* ------------------------------------------------------------------ one status write *)
(* detectChangeReady's loop: every task other than [t] has a ready status *)
Fixpoint others_ready (l : list task) (t : nat) : bool :=
  match l with
  | [] => true
  | x :: r => match t with
              | O => forallb (fun y => ready (t_st y)) r
              | S t' => ready (t_st x) && others_ready r t'
              end
  end.

(* Task.changeStatus + Change.taskStatusChanged + detectChangeReady + markReady.
   After a panic nothing else of the interrupted operation is executed. *)
Definition change_st (s : state) (t : nat) (nw : status) : state :=
  let old := st s t in
  if seqb old nw then s else
  let s1 := with_tasks s (upd (tasks s) t (fun tk => set_st tk nw)) in
  if Bool.eqb (ready old) (ready nw) then s1
  else if others_ready (tasks s1) t then
         if cready s1 && negb (ready (change_status (tasks s1))) then with_panicked s1 true
         else with_cready s1 true
       else s1.

(* Task.SetStatus *)
Definition set_status (s : state) (t : nat) (nw : status) : state :=
  if panicked s then s else
  if seqb nw Done && seqb (st s t) Abort then s else change_st s t nw.

(* Task.SetToWait *)
Definition set_to_wait (s : state) (t : nat) (ws : status) : state :=
  if panicked s then s else
  if seqb (st s t) Abort then s
  else change_st (with_tasks s (upd (tasks s) t (fun tk => set_waited tk ws))) t Wait.

(* ------------------------------------------------------------------ Change.abortLanes / abortTasks *)
(* Task.SetStatus while Change.aborting is set (commit d3068df: deferReadyDetection): detectChangeReady returns at
   once, so a status write made by Abort / AbortLanes / AbortUnreadyLanes only rewrites the task *)
Definition set_status_quiet (s : state) (t : nat) (nw : status) : state :=
  if seqb nw Done && seqb (st s t) Abort then s
  else with_tasks s (upd (tasks s) t (fun tk => set_st tk nw)).

Definition all_ready (l : list task) : bool := forallb (fun tk => ready (t_st tk)) l.

(* the function returned by Change.deferReadyDetection, run when the outermost abort returns: the internal check
   (ready change that is no longer ready -> panic), then one detectChangeReady(nil) on the final statuses *)
Definition ready_detect (s : state) : state :=
  if all_ready (tasks s) then (if cready s then s else with_cready s true)
  else if cready s then with_panicked s true else s.
(* the inner loops of abortLanes' first pass for one task: walk its lanes in order; stop at the first lane
   that is in the kill list (the task is a lane task); before that, record an opinion about foreign lanes *)
Fixpoint scan_lanes (kill tl : list nat) (live : bool) (hl hd : list nat) : bool * list nat * list nat :=
  match tl with
  | [] => (false, hl, hd)
  | x :: r => if memn x kill then (true, hl, hd)
              else if live then scan_lanes kill r live (x :: hl) hd
              else scan_lanes kill r live hl (x :: hd)
  end.

Definition is_live (tk : task) : bool :=
  match eff_status tk with Do | Doing | Done => true | _ => false end.

(* first pass of abortLanes: (laneTasks in change order, hasLive, hasDead) *)
Fixpoint scan_tasks (kill : list nat) (l : list task) (i : nat) (lt hl hd : list nat)
  : list nat * list nat * list nat :=
  match l with
  | [] => (rev lt, hl, hd)
  | tk :: r => let '(hit, hl', hd') := scan_lanes kill (lanes_of tk) (is_live tk) hl hd in
               scan_tasks kill r (S i) (if hit then i :: lt else lt) hl' hd'
  end.

(* second pass of abortLanes: drop lane tasks that are also in an entirely live foreign lane *)
Definition select_abort (l : list task) (kill : list nat) : list nat :=
  let '(lt, hl, hd) := scan_tasks kill l 0 [] [] [] in
  filter (fun t => negb (existsb (fun x => memn x hl && negb (memn x hd)) (lanes_of (nth t l dummy)))) lt.

(* the lanes appended per task in abortTasks: t.Lanes() once for every lane of t not yet aborted *)
Definition extra_lanes (tk : task) (al : list nat) : list nat :=
  flat_map (fun x => if memn x al then [] else lanes_of tk) (lanes_of tk).

(* the worklist loop of abortTasks; returns (state, seen, lanes). [f] bounds the iterations. *)
Fixpoint abort_loop (f : nat) (wl : list nat) (al seen : list nat) (s : state) (lanes : list nat)
  : state * list nat * list nat :=
  match f with
  | O => (match wl with [] => s | _ => with_oof s true end, seen, lanes)
  | S f' =>
    match wl with
    | [] => (s, seen, lanes)
    | t :: rest =>
      if memn t seen then abort_loop f' rest al seen s lanes
      else
        let seen' := t :: seen in
        let tk := get s t in
        let s' := match eff_status tk with
                  | Do => set_status_quiet s t Hold
                  | Doing => set_status_quiet s t Abort
                  | Done => set_status_quiet s t Undo
                  | _ => s
                  end in
        let lanes' := lanes ++ extra_lanes tk al in
        let new := filter (fun h => negb (memn h seen')) (t_halts tk) in
        abort_loop f' (rest ++ new) al seen' s' lanes'
    end
  end.

Definition loop_fuel (s : state) (wl : list nat) : nat :=
  S (length wl + fold_right (fun tk a => S (length (t_halts tk)) + a) 0 (tasks s)).

(* Change.abortLanes (d bounds the nesting abortLanes -> abortTasks -> abortLanes ...) *)
Fixpoint abort_lanes (d : nat) (kill al seen : list nat) (s : state) : state :=
  match d with
  | O => with_oof s true
  | S d' =>
    let sel := select_abort (tasks s) kill in
    let al' := kill ++ al in
    match sel with
    | [] => s
    | _ => let '(s', seen', lanes) := abort_loop (loop_fuel s sel) sel al' seen s [] in
           match lanes with
           | [] => s'
           | _ => abort_lanes d' lanes al' seen' s'
           end
    end
  end.

(* Change.abortTasks *)
Definition abort_tasks (d : nat) (wl al seen : list nat) (s : state) : state :=
  let '(s', seen', lanes) := abort_loop (loop_fuel s wl) wl al seen s [] in
  match lanes with
  | [] => s'
  | _ => abort_lanes d lanes al seen' s'
  end.

Definition depth_fuel (s : state) : nat := S (S (length (flat_map lanes_of (tasks s)))).

(* Change.AbortLanes *)
Definition abort_lanes_top (s : state) (lanes : list nat) : state :=
  ready_detect (abort_lanes (depth_fuel s) lanes [] [] s).
(* Change.Abort *)
Definition abort_change (s : state) : state :=
  ready_detect (abort_tasks (depth_fuel s) (seq 0 (length (tasks s))) [] [] s).

(* ------------------------------------------------------------------ TaskRunner *)
(* tryUndo *)
Definition try_undo (s : state) (t : nat) : state :=
  if seqb (st s t) Abort && negb (t_undo (get s t)) then set_status s t Hold else set_status s t Undo.

(* mustWait *)
Definition must_wait (s : state) (t : nat) : bool :=
  match st s t with
  | Do => existsb (fun w => negb (seqb (st s w) Done)) (t_waits (get s t))
  | Undo => existsb (fun h => negb (ready (st s h))) (t_halts (get s t))
  | _ => false
  end.

Definition gate_open (s : state) (t : nat) : bool :=
  negb (negb (t_at (get s t) =? 0)%Z && (now s <? t_at (get s t))%Z).

(* TaskRunner.run up to the creation of the goroutine *)
Definition run (s : state) (t : nat) : state :=
  let tk := get s t in
  let undo := match t_st tk with Undo | Undoing => true | _ => false end in
  let pre := map (st s) (if undo then t_halts tk else t_waits tk) in
  let fresh := match t_st tk with Do | Undo => true | _ => false end in
  let rec := mkSR t undo pre (gate_open s t) fresh in
  let s1 := match t_st tk with Do => set_status s t Doing | Undo => set_status s t Undoing | _ => s end in
  let s2 := with_tasks s1 (upd (tasks s1) t (fun tk => set_at tk 0)) in
  with_slog (with_running s2 (t :: running s2)) (rec :: slog s2).

(* body of the loop of TaskRunner.Ensure for one task (no blocked predicates, every kind has a do handler,
   no cleanup handlers) *)
Definition ensure_rest (s : state) (t : nat) : state :=
  let status := st s t in
  if ready status then s
  else if seqb status Wait then s
  else if must_wait s t then s
  else if seqb status Undo && negb (t_undo (get s t)) then set_status s t Done
  else if negb (gate_open s t) then s
  else run s t.

Definition ensure_one (s : state) (t : nat) : state :=
  if panicked s then s else
  if memn t (running s) then s
  else if seqb (st s t) Abort then ensure_rest (try_undo s t) t
  else ensure_rest s t.

Definition ensure_pass (s : state) (order : list nat) : state := fold_left ensure_one order s.

Inductive outcome := OOk | OErr | ORetry (after : Z) | OWait (undone : bool).

Definition remove_running (s : state) (t : nat) : state :=
  with_running s (filter (fun x => negb (Nat.eqb x t)) (running s)).

(* the tail of the goroutine started by TaskRunner.run, executed under r.mu and the state lock *)
Definition finish (s : state) (t : nat) (o : outcome) : state :=
  if panicked s then s else
  if negb (memn t (running s)) then s else
  let s0 := remove_running s t in
  match o with
  | ORetry d => if seqb (st s0 t) Abort then try_undo s0 t
                else if (d =? 0)%Z then s0
                else with_tasks s0 (upd (tasks s0) t (fun tk => set_at tk (now s0 + d)))
  | OWait u => if seqb (st s0 t) Abort then try_undo s0 t
               else set_to_wait s0 t (if u then Undone else Done)
  | OOk => match st s0 t with
           | Doing => set_status s0 t Done
           | Abort => set_status s0 t Undo
           | Undoing => set_status s0 t Undone
           | _ => s0
           end
  | OErr => set_status (abort_lanes_top s0 (lanes_of (get s0 t))) t Error
  end.

(* what RestartManager.StartUp / the reboot machinery do: SetStatus(WaitedStatus()) on a task in WaitStatus *)
Definition resolve_wait (s : state) (t : nat) : state :=
  if seqb (st s t) Wait then set_status s t (t_waited (get s t)) else s.

Inductive event :=
| Ensure (order : list nat)
| Finish (t : nat) (o : outcome)
| UAbort                      (* Change.Abort, e.g. POST /v2/changes/ID {action: abort} *)
| Tick (d : Z)
| Resolve (t : nat).

Definition step (s : state) (e : event) : state :=
  match e with
  | Ensure order => ensure_pass s order
  | Finish t o => finish s t o
  | UAbort => if panicked s then s else abort_change s
  | Tick d => with_now s (now s + Z.max d 0)
  | Resolve t => if panicked s then s else resolve_wait s t
  end.

Definition run_events (s : state) (es : list event) : state := fold_left step es s.

(* ------------------------------------------------------------------ correspondence interface *)
(* task description of a generated graph: lanes, wait tasks, has an undo handler *)
Definition tdesc : Type := (list nat * list nat * bool)%type.

Definition halts_of (g : list tdesc) (t : nat) : list nat :=
  filter (fun h => memn t (snd (fst (nth h g ([], [], false))))) (seq 0 (length g)).

Definition init_tasks (g : list tdesc) : list task :=
  map (fun i => let '(ln, ws, u) := nth i g ([], [], false) in mkTask Do Hold ln ws (halts_of g i) u 0)
      (seq 0 (length g)).
Definition init_state (g : list tdesc) : state := mkState (init_tasks g) [] 0 false false false [].

(* what the driver observes after every event *)
Record obs := mkObs {
  o_st : list status;            (* Task.Status of every task *)
  o_wd : list status;            (* Task.WaitedStatus of every task (never set: Hold) *)
  o_run : list nat;              (* ids with a live tomb, ascending *)
  o_dying : list nat;            (* ids whose tomb has been killed (tomb.Err() != ErrStillAlive), ascending *)
  o_ready : bool;                (* Change.IsReady *)
  o_cst : status;                (* Change.Status *)
  o_rt : bool;                   (* !Change.ReadyTime().IsZero() *)
  o_err : list nat;              (* tasks named by Change.Err(), ascending *)
  o_failed : list nat;           (* tasks whose handler returned an error so far, with the same message that Err
                                    reports (checked by the driver), ascending  -- driver bookkeeping *)
  o_panic : bool;                (* the operation panicked with: unexpectedly became unready *)
  o_starts : list start_rec;     (* handlers started by this event, by ascending task id; the statuses are those
                                    seen at the instant of the start *)
  o_hook_ok : bool               (* the Do->Doing / Undo->Undoing status-change hook saw all prerequisites
                                    Done / ready (exact instant, under the state lock) *)
}.

Inductive case := Case (g : list tdesc) (evs : list (event * obs)).

(* compact constructors used by the driver's printer (numbers as N literals, no polymorphic pairs: keeps the
   elaboration of the generated case files cheap) *)
Definition nl (l : list N) : list nat := map N.to_nat l.
Definition TD (lanes waits : list N) (u : bool) : tdesc := (nl lanes, nl waits, u).
(* status vectors travel as one decimal number 1d1d2..dn (digit = position in the list below), id sets as bit masks *)
Fixpoint digits (fuel : nat) (n : N) (acc : list N) : list N :=
  match fuel with
  | O => acc
  | S f => if (n <? 10)%N then n :: acc else digits f (n / 10)%N ((n mod 10)%N :: acc)
  end.
Definition status_of_code (c : N) : status :=
  nth (N.to_nat c) [Hold; Do; Doing; Done; Abort; Undo; Undoing; Undone; Error; Wait] Hold.
Definition dec_sts (n : N) : list status := map status_of_code (tl (digits 60 n [])).
Definition dec_set (n : N) : list nat := filter (fun i => N.testbit n (N.of_nat i)) (seq 0 64).
Definition SR (t : N) (u : bool) (pre : N) (g fresh : bool) : start_rec := mkSR (N.to_nat t) u (dec_sts pre) g fresh.
Definition OB (sts wds : N) (run dying : N) (rdy : bool) (cst : status) (rt : bool) (err failed : N)
              (pnc : bool) (starts : list start_rec) (hook : bool) : obs :=
  mkObs (dec_sts sts) (dec_sts wds) (dec_set run) (dec_set dying) rdy cst rt (dec_set err) (dec_set failed) pnc starts hook.
Definition EEnsure (n : N) : event := Ensure (seq 0 (N.to_nat n)).
Definition EFinish (t : N) (o : outcome) : event := Finish (N.to_nat t) o.
Definition EResolve (t : N) : event := Resolve (N.to_nat t).
Definition EO (e : event) (o : obs) : event * obs := (e, o).

Fixpoint insert_nat (x : nat) (l : list nat) : list nat :=
  match l with [] => [x] | y :: r => if Nat.leb x y then x :: l else y :: insert_nat x r end.
Definition sort_nat (l : list nat) : list nat := fold_right insert_nat [] l.

Fixpoint list_eqb {A} (e : A -> A -> bool) (a b : list A) : bool :=
  match a, b with
  | [], [] => true
  | x :: r, y :: q => e x y && list_eqb e r q
  | _, _ => false
  end.

Definition rec_tid (r : start_rec) : nat := sr_t r.
Fixpoint insert_rec (x : start_rec) (l : list start_rec) : list start_rec :=
  match l with [] => [x] | y :: r => if Nat.leb (rec_tid x) (rec_tid y) then x :: l else y :: insert_rec x r end.
Definition rec_eqb (a b : start_rec) : bool :=
  (* the snapshot of a re-run may depend on Go's map iteration order inside one Ensure pass (a no-undo halt task
     may or may not have been flipped Undo->Done yet), so it is compared for fresh starts only *)
  Nat.eqb (sr_t a) (sr_t b) && Bool.eqb (sr_undo a) (sr_undo b)
  && (negb (sr_fresh a) || list_eqb seqb (sr_pre a) (sr_pre b))
  && Bool.eqb (sr_gate a) (sr_gate b) && Bool.eqb (sr_fresh a) (sr_fresh b).

(* the driver calls the real Ensure until nothing changes any more; the model iterates ensure_pass with the
   same (canonical) order the same way: length+1 passes reach the fixpoint (see notes/C01.md, confluence) *)
Fixpoint iter_ensure (k : nat) (s : state) (order : list nat) : state :=
  match k with O => s | S k' => iter_ensure k' (ensure_pass s order) order end.

Definition step_case (s : state) (e : event) : state :=
  match e with
  | Ensure order => iter_ensure (S (length (tasks s))) s order
  | _ => step s e
  end.

Definition new_starts (before after : state) : list start_rec :=
  fold_right insert_rec [] (firstn (length (slog after) - length (slog before)) (slog after)).

Definition obs_mismatch (before after : state) (o : obs) : bool :=
  negb (list_eqb seqb (map t_st (tasks after)) (o_st o))
  || negb (list_eqb seqb (map t_waited (tasks after)) (o_wd o))
  || negb (list_eqb Nat.eqb (sort_nat (running after)) (o_run o))
  || negb (Bool.eqb (cready after) (o_ready o))
  || negb (seqb (change_status (tasks after)) (o_cst o))
  || negb (list_eqb Nat.eqb (err_tasks (tasks after)) (o_err o))
  || negb (Bool.eqb (panicked after) (o_panic o))
  || negb (list_eqb rec_eqb (new_starts before after) (o_starts o))
  || oof after.

(* which tombs are dying after an event. TaskRunner.abortLanes (error path of run) kills the tombs of the tasks that are
   in Abort after the lane abort, and only those; Ensure kills the tomb of every task it finds in Abort with a tomb;
   Change.Abort kills nothing (the next Ensure does); a finished handler's tomb is gone. *)
Definition abort_running (s : state) : list nat := filter (fun t => seqb (st s t) Abort) (running s).
Definition dying_after (before after : state) (dy : list nat) (e : event) : list nat :=
  match e with
  | Ensure _ => dy ++ abort_running before
  | Finish t o =>
    let dy' := filter (fun x => negb (Nat.eqb x t)) dy in
    if memn t (running before)
    then match o with OErr => dy' ++ abort_running after | _ => dy' end
    else dy
  | _ => dy
  end.
Fixpoint dedup_sorted (l : list nat) : list nat :=
  match l with
  | x :: ((y :: _) as r) => if Nat.eqb x y then dedup_sorted r else x :: dedup_sorted r
  | _ => l
  end.

Fixpoint replay_mismatch (s : state) (dy : list nat) (evs : list (event * obs)) : bool :=
  match evs with
  | [] => false
  | (e, o) :: r =>
    let s' := step_case s e in
    let dy' := dedup_sorted (sort_nat (dying_after s s' dy e)) in
    obs_mismatch s s' o || negb (list_eqb Nat.eqb dy' (o_dying o)) || replay_mismatch s' dy' r
  end.

Definition mismatch (c : case) : bool := let 'Case g evs := c in replay_mismatch (init_state g) [] evs.

(* ------------------------------------------------------------------ monitors: the properties evaluated on the
   implementation's observed behaviour only (no model function of the engine is used below) *)

(* C02: every do-handler start saw all wait tasks Done, every undo-handler start saw all halt tasks ready,
   the schedule gate was open, and the exact-instant hook agrees *)
Definition has_undo_g (g : list tdesc) (t : nat) : bool := snd (nth t g ([], [], false)).

(* statuses paired with the prerequisite ids they belong to *)
Fixpoint zip_ok (f : nat -> status -> bool) (ids : list nat) (pre : list status) : bool :=
  match ids, pre with
  | i :: r, x :: q => f i x && zip_ok f r q
  | [], [] => true
  | _, _ => false
  end.

(* every do start (fresh or re-run) saw every wait task Done; every undo start (fresh or re-run) saw every halt task
   ready; the gate was open. No exception: a re-run that sees a handler-less halt task in Undo is reported (known
   finding undo-rerun-sees-handlerless-dependent-in-undo, classified in checks/c02.py). *)
Definition start_ok (r : start_rec) : bool :=
  sr_gate r
  && (if sr_undo r then forallb ready (sr_pre r) else forallb (fun x => seqb x Done) (sr_pre r)).

Definition monitor_fail02 (c : case) : bool :=
  let 'Case g evs := c in
  existsb (fun eo : event * obs => negb (forallb start_ok (o_starts (snd eo))) || negb (o_hook_ok (snd eo))) evs.

(* C01.  (a) a FRESH undo start happens only when every task that waited on it is ready (re-runs of undo handlers
       are checked, strictly, by the C02 monitor);
   (b) an abort (handler error or Change.Abort) changes statuses only by Do->Hold, Doing->Abort, Done->Undo,
       Wait->Hold/Abort/Undo, plus failing task -> Error, and only inside the closure R of the aborted lanes
       under halt edges and lane membership; every task with a lane in the aborted lanes none of whose lanes is
       foreign, and everything that transitively waits on such a task, IS mapped when it was Do/Doing/Done;
   (c) at the end of a history that settled (no handler running, every task ready) in which a handler failed:
       the change is in Error, no undoable task of the failed task's closure is left Done. *)
Definition lanes_g (g : list tdesc) (t : nat) : list nat :=
  match fst (fst (nth t g ([], [], false))) with [] => [0] | l => l end.
Definition inter_b (a b : list nat) : bool := existsb (fun x => memn x b) a.
Definition subset_b (a b : list nat) : bool := forallb (fun x => memn x b) a.

(* one round of the upper closure: tasks with a lane in L, halt tasks of members; L grows by members' lanes *)
Definition closure_round (g : list tdesc) (SL : list nat * list nat) : list nat * list nat :=
  let '(X, L) := SL in
  let ids := seq 0 (length g) in
  let S1 := filter (fun t => memn t X || inter_b (lanes_g g t) L
                             || existsb (fun w => memn w X) (snd (fst (nth t g ([], [], false))))) ids in
  (S1, L ++ flat_map (lanes_g g) S1).
Fixpoint iter_closure (k : nat) (g : list tdesc) (SL : list nat * list nat) : list nat * list nat :=
  match k with O => SL | S k' => iter_closure k' g (closure_round g SL) end.
Definition upper_closure (g : list tdesc) (seed : list nat) (lanes : list nat) : list nat :=
  fst (iter_closure (S (S (2 * length g))) g (seed, lanes)).

(* lower closure: tasks all of whose lanes are aborted, and what transitively waits on them (halt edges only) *)
Definition lower_round (g : list tdesc) (lanes : list nat) (X : list nat) : list nat :=
  filter (fun t => memn t X || subset_b (lanes_g g t) lanes
                   || existsb (fun w => memn w X) (snd (fst (nth t g ([], [], false))))) (seq 0 (length g)).
Fixpoint iter_lower (k : nat) (g : list tdesc) (lanes : list nat) (X : list nat) : list nat :=
  match k with O => X | S k' => iter_lower k' g lanes (lower_round g lanes X) end.
Definition lower_closure (g : list tdesc) (seed lanes : list nat) : list nat :=
  iter_lower (S (length g)) g lanes seed.

Definition abort_map_ok (old nw : status) : bool :=
  seqb old nw
  || match old, nw with
     | Do, Hold | Doing, Abort | Done, Undo | Wait, Hold | Wait, Abort | Wait, Undo => true
     | _, _ => false
     end.

Fixpoint zip3_forall (f : nat -> status -> status -> bool) (i : nat) (a b : list status) : bool :=
  match a, b with
  | x :: r, y :: q => f i x y && zip3_forall f (S i) r q
  | [], [] => true
  | _, _ => false
  end.

(* observed effective statuses (taskEffectiveStatus): a task in Wait counts by the status it waits for *)
Fixpoint eff_vec (sts wds : list status) : list status :=
  match sts, wds with
  | x :: r, w :: q => (if seqb x Wait then w else x) :: eff_vec r q
  | l, _ => l
  end.
Definition o_eff (o : obs) : list status := eff_vec (o_st o) (o_wd o).

(* the healthy-lane exemption of ONE abortLanes call, stated on the statuses before the call: a task w voices an
   opinion on lane x when x comes, in w's own lane list, before any lane of the kill list; a lane task u is spared when
   some lane of u outside the kill list has at least one opinion and only live (Do/Doing/Done) ones. The statuses
   are the EFFECTIVE ones (o_eff: a task in Wait counts by the observed Task.WaitedStatus), so the spec decides. *)
Fixpoint opines (kill : list nat) (x : nat) (ls : list nat) : bool :=
  match ls with
  | [] => false
  | y :: r => if memn y kill then false else if Nat.eqb y x then true else opines kill x r
  end.
Definition lane_task (g : list tdesc) (kill : list nat) (u : nat) : bool := inter_b (lanes_g g u) kill.
Definition live_st (x : status) : bool := match x with Do | Doing | Done => true | _ => false end.
Definition spared_spec (g : list tdesc) (sts : list status) (kill : list nat) (u : nat) : bool :=
  existsb (fun x =>
             if memn x kill then false
             else let ops := filter (fun w => opines kill x (lanes_g g w)) (seq 0 (length g)) in
                  if existsb (fun w => seqb (nth w sts Hold) Wait) ops then true
                  else match ops with
                       | [] => false
                       | _ => forallb (fun w => live_st (nth w sts Hold)) ops
                       end)
          (lanes_g g u).

(* statuses before/after an abort issued for [lanes] (handler error of task ft: Some ft) or for everything *)
Definition abort_ok (g : list tdesc) (ft : option nat) (before beff after : list status) : bool :=
  let ids := seq 0 (length g) in
  let '(seed, lanes) := match ft with
                        | Some t => ([], lanes_g g t)
                        | None => (ids, [])
                        end in
  let R := upper_closure g seed lanes in
  let R' := lower_closure g seed lanes in
  let NS := filter (fun u => lane_task g lanes u && negb (spared_spec g beff lanes u)) ids in
  let A1 := iter_lower (S (length g)) g [] NS in
  let nonnested := forallb (fun u => subset_b (lanes_g g u) lanes) A1 in
  zip3_forall (fun i o n =>
    match ft with
    | Some t => if Nat.eqb i t then seqb n Error
                else (if memn i R then abort_map_ok o n else seqb o n)
                     && (if memn i R' then negb (seqb n Do || seqb n Doing || seqb n Done) else true)
                     (* a task of the failed task's lanes that the exemption does not spare is aborted *)
                     && (if lane_task g lanes i then (if spared_spec g beff lanes i then true else negb (live_st n))
                         else true)
                     (* no nested abortLanes call (every task reached has all its lanes in the kill list): exactly the
                        non-spared lane tasks and what transitively waits on them are touched; in particular a lane
                        task the exemption spares, and its healthy lane, keep their statuses *)
                     && (if nonnested && negb (memn i A1) then seqb o n else true)
    | None => abort_map_ok o n && (seqb o Wait || negb (seqb n Do || seqb n Doing || seqb n Done))
    end) 0 before after.

Definition is_err (o : outcome) : bool := match o with OErr => true | _ => false end.

Fixpoint abort_scan (g : list tdesc) (prev peff : list status) (evs : list (event * obs)) : bool :=
  match evs with
  | [] => true
  | (e, o) :: r =>
    (if o_panic o then true else
     match e with
     | Finish t OErr => abort_ok g (Some t) prev peff (o_st o)
     | UAbort => abort_ok g None prev peff (o_st o)
     | _ => true
     end) && abort_scan g (o_st o) (o_eff o) r
  end.

Definition last_obs (evs : list (event * obs)) : option obs :=
  match rev evs with [] => None | (_, o) :: _ => Some o end.

(* (c) settled (every task ready, nothing running) after at least one handler failure: the change is in Error and
   ready; every task with an undo handler in the lower closure of a failed task is not left Done; every task with an
   undo handler that shares a lane with a failed task and is still Done was spared by the healthy-lane exemption
   (spared_scan); and, when no
   user abort was issued, every task outside the upper closures of all failed tasks completed (Done). *)
Definition is_uabort (e : event) : bool := match e with UAbort => true | _ => false end.

(* handlers use Wait as snapd's do: a do handler waits to become Done, an undo handler to become Undone *)
Fixpoint waits_well_typed (prev : list status) (evs : list (event * obs)) : bool :=
  match evs with
  | [] => true
  | (e, o) :: r =>
    match e with
    | Finish t (OWait u) => match nth t prev Hold with
                            | Doing => negb u
                            | Undoing => u
                            | _ => true
                            end
    | _ => true
    end && waits_well_typed (o_st o) r
  end.

(* settled histories: a task with undo handler that is still Done although it shares a lane with a failed task must
   have been spared, legitimately, by the exemption at the abort that failure triggered *)
Fixpoint spared_scan (g : list tdesc) (final prev : list status) (evs : list (event * obs)) : bool :=
  match evs with
  | [] => true
  | (e, o) :: r =>
    match e with
    | Finish t OErr =>
      if o_panic o then true
      else forallb (fun u => if has_undo_g g u && lane_task g (lanes_g g t) u && seqb (nth u final Hold) Done
                                && negb (Nat.eqb u t)
                             then spared_spec g prev (lanes_g g t) u else true) (seq 0 (length g))
    | _ => true
    end && spared_scan g final (o_eff o) r
  end.

Definition settle_ok (g : list tdesc) (evs : list (event * obs)) : bool :=
  match last_obs evs with
  | None => true
  | Some o =>
    if existsb (fun eo => o_panic (snd eo)) evs then true else
    if negb (waits_well_typed (map (fun _ => Do) g) evs) then true else
    if negb (forallb ready (o_st o)) then true else       (* not settled: nothing to say *)
    match o_failed o with
    | [] => true
    | fl =>
      seqb (o_cst o) Error && o_ready o
      && forallb (fun t => forallb (fun u => negb (has_undo_g g u && seqb (nth u (o_st o) Hold) Done))
                                   (lower_closure g [] (lanes_g g t))) fl
      && spared_scan g (o_st o) (map (fun _ => Do) g) evs
      && (existsb (fun eo => is_uabort (fst eo)) evs
          || forallb (fun u => memn u (flat_map (fun t => upper_closure g [] (lanes_g g t)) fl)
                               || seqb (nth u (o_st o) Hold) Done) (seq 0 (length g)))
    end
  end.

Definition monitor_fail01 (c : case) : bool :=
  let 'Case g evs := c in
  negb (forallb (fun eo : event * obs =>
                   forallb (fun r : start_rec => if sr_undo r && sr_fresh r then forallb ready (sr_pre r) else true)
                           (o_starts (snd eo))) evs)
  || negb (abort_scan g (map (fun _ => Do) g) (map (fun _ => Do) g) evs)
  || negb (settle_ok g evs)
  (* a handler is only ever stopped (its tomb killed) when its task has been moved to Abort: handlers of tasks in
     healthy lanes never see a dying tomb and are left to complete *)
  || negb (forallb (fun eo : event * obs => forallb (fun t => seqb (nth t (o_st (snd eo)) Hold) Abort) (o_dying (snd eo))) evs).

(* C03: the reported change status is the documented aggregate of the task statuses (independent statement
   below), IsReady <-> ready time set, once ready never again unready and the status stays ready, the change is
   ready exactly when every task is ready, Err names exactly the failed tasks.  A panic in a user abort
   of an unready change (finding 11, repaired by d3068df) is a violation here and in the regression monitor f11_fail. *)
Definition waits_g (g : list tdesc) (t : nat) : list nat := snd (fst (nth t g ([], [], false))).

(* a pending (Do / Undo) task is blocked by waiting tasks: all its prerequisites (wait tasks for Do, halt tasks for
   Undo) are ready, in Wait, or themselves blocked pending tasks, and at least one is in Wait or blocked.
   Memo-free and without the early exits of isTaskWaiting. *)
Fixpoint waiting_spec (fuel : nat) (g : list tdesc) (sts : list status) (t : nat) : bool :=
  match fuel with
  | O => false
  | S f =>
    let deps := if seqb (nth t sts Hold) Do then waits_g g t else halts_of g t in
    (* written with if-then-else throughout: vm_compute is strict in the arguments of andb / orb *)
    let waitish := fun d => let sd := nth d sts Hold in
                            if seqb sd Wait then true
                            else if seqb sd Do || seqb sd Undo then waiting_spec f g sts d else false in
    if forallb (fun d => if ready (nth d sts Hold) then true else waitish d) deps then existsb waitish deps
    else false
  end.

Definition change_waiting_spec (g : list tdesc) (sts : list status) : bool :=
  if existsb (fun x => seqb x Wait) sts
  then forallb (fun t => let x := nth t sts Hold in
                         if ready x || seqb x Wait then true
                         else if seqb x Do || seqb x Undo then waiting_spec (S (length g)) g sts t else false)
               (seq 0 (length g))
  else false.

(* the documented aggregate: Wait when everything pending is blocked on waiting tasks, otherwise the first status of
   the priority list Abort Undoing Undo Doing Do Wait Error Undone Done Hold that some task has; no tasks: Hold *)
Definition occurs (sts : list status) (x : status) : bool := existsb (fun y => seqb y x) sts.
Definition agg_spec (g : list tdesc) (sts : list status) : status :=
  match sts with
  | [] => Hold
  | _ =>
    if change_waiting_spec g sts then Wait
    else if occurs sts Abort then Abort else if occurs sts Undoing then Undoing else if occurs sts Undo then Undo
    else if occurs sts Doing then Doing else if occurs sts Do then Do else if occurs sts Wait then Wait
    else if occurs sts Error then Error else if occurs sts Undone then Undone else if occurs sts Done then Done
    else Hold
  end.

Fixpoint ready_scan (g : list tdesc) (was : bool) (evs : list (event * obs)) : bool :=
  match evs with
  | [] => true
  | (e, o) :: r =>
    if o_panic o then true else
    (Bool.eqb (o_ready o) (o_rt o)
     && seqb (agg_spec g (o_st o)) (o_cst o)
     && Bool.eqb (o_ready o) (forallb ready (o_st o))
     && (if was then o_ready o && ready (o_cst o) else true)
     && list_eqb Nat.eqb (o_err o) (if seqb (o_cst o) Error then o_failed o else [])
     && forallb (fun t => seqb (nth t (o_st o) Hold) Error) (o_failed o))
    && ready_scan g (o_ready o) r
  end.

(* a panic anywhere except in a user abort of a READY change is a violation (the REST API refuses to abort a ready
   change; aborting an unready one must never panic: regression of finding 11, repaired by d3068df) *)
Fixpoint panic_scan (was : bool) (evs : list (event * obs)) : bool :=
  match evs with
  | [] => true
  | (e, o) :: r =>
    (if o_panic o then match e with UAbort => was | _ => false end else true) && panic_scan (o_ready o) r
  end.

Definition monitor_fail03 (c : case) : bool :=
  let 'Case g evs := c in negb (ready_scan g false evs) || negb (panic_scan false evs).

(* regression monitor for finding 11 (repaired): Change.Abort on an unready change panicked *)
Fixpoint f11_scan (was : bool) (evs : list (event * obs)) : bool :=
  match evs with
  | [] => false
  | (e, o) :: r =>
    (match e with UAbort => o_panic o && negb was | _ => false end) || f11_scan (o_ready o) r
  end.
Definition f11_fail (c : case) : bool := let 'Case _ evs := c in f11_scan false evs.
