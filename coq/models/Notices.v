(* C08 — notices: model of overlord/state/notices.go (AddNotice, NoticeFilter.matches, Notices) and of the
   user / filter logic of daemon/api_notices.go (getNotices), plus the polling-client protocol.
   Executable definitions only; the proofs are in proofs/NoticesProofs.v.

   Times are Z nanoseconds relative to an arbitrary base instant chosen by the driver. Go's zero time.Time
   (`IsZero`) is modelled by `None` where the code tests for it (lastNoticeTimestamp before the first notice,
   NoticeFilter.After unset, AddNoticeOptions.Time unset).
   Not modelled: expiry (Notice.expired uses the real wall clock, 7 days; the drivers stay inside the window),
   lastData, sync.Cond (the Broadcast condition is the boolean returned by add_notice). *)
From Coq Require Import List NArith ZArith Bool String.
Open Scope string_scope.
Import ListNotations.
Require Import V.lib.Bytes.
Require V.gen.NoticeTypes.
Open Scope Z_scope.

(* ------------------------------------------------------------------------------------------ data *)

(* state.Notice, the fields the property talks about *)
Record notice := mkN {
  n_id : N;                (* Notice.id (decimal counter) *)
  n_user : option N;       (* Notice.userID, None = public *)
  n_type : bytes;          (* Notice.noticeType *)
  n_key : bytes;           (* Notice.key *)
  n_first : Z;             (* firstOccurred *)
  n_last_occ : Z;          (* lastOccurred *)
  n_lr : Z;                (* lastRepeated *)
  n_occ : N;               (* occurrences *)
  n_ra : Z                 (* repeatAfter of the last occurrence *)
}.

(* the notice part of state.State: the map s.notices (as a list in first-occurrence order; the Go map has no order),
   s.lastNoticeTimestamp, s.lastNoticeId *)
Record state := mkS {
  s_notices : list notice;
  s_last_ts : option Z;
  s_last_id : N
}.

Definition empty_state : state := mkS [] None 0%N.

(* arguments of one State.AddNotice call together with the reading timeNow() gives during the call *)
Record addargs := mkA {
  a_clock : Z;             (* what timeNow() returns (any value: equal or decreasing readings included) *)
  a_user : option N;       (* userID *)
  a_type : bytes;          (* noticeType *)
  a_key : bytes;           (* key *)
  a_ra : Z;                (* options.RepeatAfter *)
  a_time : option Z        (* options.Time; None = zero value = use the server clock *)
}.

(* state.NoticeFilter *)
Record nfilter := mkF {
  f_user : option N;
  f_types : list bytes;
  f_keys : list bytes;
  f_after : option Z
}.

(* ------------------------------------------------------------------------------------------ AddNotice *)

(* NoticeType.Valid: the constants of its switch, regenerated from overlord/state/notices.go on every run *)
Definition valid_types : list bytes := NoticeTypes.valid_types.

(* abbreviations used by the drivers' case files (string literals are slow to parse): the i-th entry of a fixed table
   of type strings, and the i-th key of the generators' key alphabet *)
Definition ty (i : nat) : bytes :=
  nth i [bs "change-update"; bs "warning"; bs "refresh-inhibit"; bs "snap-run-inhibit";
         bs "interfaces-requests-prompt"; bs "interfaces-requests-rule-update"] [].
Definition ky (i : nat) : bytes := nth i [bs "a"; bs "b"; bs "-"; bs "c d"] [].

Definition mem_bytes (x : bytes) (l : list bytes) : bool := existsb (beq x) l.   (* sliceContains *)

Definition type_valid (t : bytes) : bool := mem_bytes t valid_types.

(* ValidateNotice (maxNoticeKeyLength from the generated file) *)
Definition validate (a : addargs) : bool :=
  type_valid (a_type a) &&
  negb (is_nil_b (a_key a)) &&
  Nat.leb (List.length (a_key a)) NoticeTypes.max_key_length &&
  (if beq (a_type a) (bs "refresh-inhibit") then beq (a_key a) (bs "-") else true).

(* the lastNoticeTimestamp bump: `if !now.After(last) { now = last.Add(time.Nanosecond) }` *)
Definition bump (clock : Z) (last : option Z) : Z :=
  match last with
  | None => clock
  | Some l => if clock >? l then clock else l + 1
  end.

Definition opt_n_eqb (a b : option N) : bool :=
  match a, b with
  | None, None => true
  | Some x, Some y => N.eqb x y
  | _, _ => false
  end.

(* noticeKey{hasUserID, userID, noticeType, key} equality *)
Definition same_key (u : option N) (t k : bytes) (n : notice) : bool :=
  opt_n_eqb u (n_user n) && beq t (n_type n) && beq k (n_key n).

(* replace the (unique) notice with the given key *)
Fixpoint replace_key (u : option N) (t k : bytes) (n' : notice) (l : list notice) : list notice :=
  match l with
  | [] => []
  | n :: r => if same_key u t k n then n' :: r else n :: replace_key u t k n' r
  end.

(* State.AddNotice. Result: None = validation error (nothing changes); otherwise the new state, the newOrRepeated
   flag (the condition under which noticeCond.Broadcast is called) and the notice id returned. *)
Definition add_notice (st : state) (a : addargs) : option (state * bool * N) :=
  if negb (validate a) then None else
  let '(now, last') :=
    match a_time a with
    | Some t => (t, s_last_ts st)
    | None => let n := bump (a_clock a) (s_last_ts st) in (n, Some n)
    end in
  match find (same_key (a_user a) (a_type a) (a_key a)) (s_notices st) with
  | None =>
      let id := (s_last_id st + 1)%N in
      Some (mkS (s_notices st ++ [mkN id (a_user a) (a_type a) (a_key a) now now now 1%N (a_ra a)]) last' id, true, id)
  | Some n =>
      let rep := (a_ra a =? 0) || (now >? n_lr n + a_ra a) in
      let n' := mkN (n_id n) (n_user n) (n_type n) (n_key n) (n_first n) now
                    (if rep then now else n_lr n) (n_occ n + 1)%N (a_ra a) in
      Some (mkS (replace_key (a_user a) (a_type a) (a_key a) n' (s_notices st)) last' (s_last_id st), rep, n_id n)
  end.

(* ------------------------------------------------------------------------------------------ restart
   State.MarshalJSON (the checkpoint payload) and state.ReadState / State.UnmarshalJSON, for the notice fields.
   Which fields are written and restored is read from the source on every run (gen/NoticeTypes.v). A field that is not
   restored comes back as Go's zero value. Expiry on reload (unflattenNotices drops expired notices) is not modelled. *)
Record persisted := mkP {
  p_notices : list notice;       (* marshalledState.Notices *)
  p_last_ts : option Z;          (* marshalledState.LastNoticeTimestamp *)
  p_last_id : N                  (* marshalledState.LastNoticeId *)
}.

Definition persist (st : state) : persisted :=
  mkP (if NoticeTypes.persist_notices then s_notices st else [])
      (if NoticeTypes.persist_last_ts then s_last_ts st else None)
      (if NoticeTypes.persist_last_id then s_last_id st else 0%N).

Definition reload (p : persisted) : state :=
  mkS (if NoticeTypes.restore_notices then p_notices p else [])
      (if NoticeTypes.restore_last_ts then p_last_ts p else None)
      (if NoticeTypes.restore_last_id then p_last_id p else 0%N).

(* snapd restarts: the last checkpoint is read back *)
Definition restart (st : state) : state := reload (persist st).

Definition persist_ok : bool :=
  NoticeTypes.persist_notices && NoticeTypes.persist_last_ts && NoticeTypes.persist_last_id &&
  NoticeTypes.restore_notices && NoticeTypes.restore_last_ts && NoticeTypes.restore_last_id.

(* ------------------------------------------------------------------------------------------ Notices *)

(* the user / type / key part of NoticeFilter.matches *)
Definition static_match (f : nfilter) (n : notice) : bool :=
  (match f_user f with
   | None => true
   | Some u => match n_user n with None => true | Some v => N.eqb u v end
   end) &&
  (is_nil_b (f_types f) || mem_bytes (n_type n) (f_types f)) &&
  (is_nil_b (f_keys f) || mem_bytes (n_key n) (f_keys f)).

Definition after_ok (c : option Z) (n : notice) : bool :=
  match c with None => true | Some a => n_lr n >? a end.

(* NoticeFilter.matches *)
Definition matches (f : nfilter) (n : notice) : bool := static_match f n && after_ok (f_after f) n.

(* sort.Slice by lastRepeated.Before: insertion sort (the order of equal timestamps is unspecified in Go; it is
   canonicalised by id before comparing with the implementation, and excluded by the theorems' hypotheses) *)
Fixpoint ins (n : notice) (l : list notice) : list notice :=
  match l with
  | [] => [n]
  | m :: r => if n_lr n <? n_lr m then n :: l else m :: ins n r
  end.

Definition sort_lr (l : list notice) : list notice := fold_right ins [] l.

(* State.Notices *)
Definition notices (st : state) (f : nfilter) : list notice :=
  sort_lr (List.filter (matches f) (s_notices st)).

(* ------------------------------------------------------------------------------------------ polling client *)

Definition with_after (f : nfilter) (c : option Z) : nfilter := mkF (f_user f) (f_types f) (f_keys f) c.

(* the cursor protocol described in AddNotice's comment: ask for the notices after the last one received *)
Definition max_lr (c : option Z) (l : list notice) : option Z :=
  fold_left (fun acc n => match acc with None => Some (n_lr n) | Some a => Some (Z.max a (n_lr n)) end) l c.

Definition poll (st : state) (f : nfilter) (c : option Z) : list notice * option Z :=
  let r := notices st (with_after f c) in (r, max_lr c r).

(* State.WaitNotices returns without blocking exactly when this is true (state predicate form of the wake-up) *)
Definition wait_enabled (st : state) (f : nfilter) : bool := negb (is_nil_b (notices st f)).

(* ------------------------------------------------------------------------------------------ histories *)

Inductive op :=
| OAdd (a : addargs)
| OPoll (client : nat)
| ORestart.                       (* checkpoint payload -> state.ReadState; clients keep their cursors *)

(* what the driver observes of a notice (Notice.MarshalJSON projected) *)
Record onotice := mkO {
  o_id : N; o_user : option N; o_type : bytes; o_key : bytes; o_lr : Z; o_last_occ : Z; o_occ : N
}.

Definition project (n : notice) : onotice :=
  mkO (n_id n) (n_user n) (n_type n) (n_key n) (n_lr n) (n_last_occ n) (n_occ n).

Inductive obs :=
| BAdd (r : option onotice)       (* None: AddNotice returned an error; else the notice as it is after the call *)
| BPoll (l : list onotice)        (* the list State.Notices returned, in order *)
| BRestart (n : N).               (* number of notices in the reloaded state *)

Fixpoint set_nth {A} (i : nat) (x : A) (l : list A) : list A :=
  match l, i with
  | [], _ => []
  | _ :: r, O => x :: r
  | y :: r, S j => y :: set_nth j x r
  end.

Definition no_filter : nfilter := mkF None [] [] None.

Fixpoint run (fs : list nfilter) (st : state) (cur : list (option Z)) (ops : list op) : list obs :=
  match ops with
  | [] => []
  | OAdd a :: rest =>
      match add_notice st a with
      | None => BAdd None :: run fs st cur rest
      | Some (st', _, id) =>
          BAdd (option_map project (find (fun n => N.eqb (n_id n) id) (s_notices st'))) :: run fs st' cur rest
      end
  | OPoll i :: rest =>
      let f := nth i fs no_filter in
      let '(r, c') := poll st f (nth i cur None) in
      BPoll (map project r) :: run fs st (set_nth i c' cur) rest
  | ORestart :: rest =>
      let st' := restart st in
      BRestart (N.of_nat (List.length (s_notices st'))) :: run fs st' cur rest
  end.

(* ------------------------------------------------------------------------------------------ comparison *)

Definition opt_z_eqb (a b : option Z) : bool :=
  match a, b with
  | None, None => true
  | Some x, Some y => Z.eqb x y
  | _, _ => false
  end.

Definition onotice_eqb (a b : onotice) : bool :=
  N.eqb (o_id a) (o_id b) && opt_n_eqb (o_user a) (o_user b) && beq (o_type a) (o_type b) && beq (o_key a) (o_key b) &&
  Z.eqb (o_lr a) (o_lr b) && Z.eqb (o_last_occ a) (o_last_occ b) && N.eqb (o_occ a) (o_occ b).

Fixpoint list_eqb {A} (e : A -> A -> bool) (a b : list A) : bool :=
  match a, b with
  | [], [] => true
  | x :: a', y :: b' => e x y && list_eqb e a' b'
  | _, _ => false
  end.

(* canonical order for comparison: by (last-repeated, id) *)
Fixpoint oins (n : onotice) (l : list onotice) : list onotice :=
  match l with
  | [] => [n]
  | m :: r => if (o_lr n <? o_lr m) || ((o_lr n =? o_lr m) && (o_id n <? o_id m)%N) then n :: l else m :: oins n r
  end.
Definition canon (l : list onotice) : list onotice := fold_right oins [] l.

Definition obs_eqb (a b : obs) : bool :=
  match a, b with
  | BAdd None, BAdd None => true
  | BAdd (Some x), BAdd (Some y) => onotice_eqb x y
  | BPoll x, BPoll y => list_eqb onotice_eqb (canon x) (canon y)
  | BRestart x, BRestart y => N.eqb x y
  | _, _ => false
  end.

(* a history driven through the real State: client filters (f_after = the client's initial cursor), operations,
   and what was observed after each operation *)
Inductive case :=
| Case (fs : list nfilter) (ops : list op) (observed : list obs).

Definition initial_cursors (fs : list nfilter) : list (option Z) := map f_after fs.

Definition mismatch (c : case) : bool :=
  match c with
  | Case fs ops observed => negb (list_eqb obs_eqb (run fs empty_state (initial_cursors fs) ops) observed)
  end.

(* ------------------------------------------------------------------------------------------ monitor
   The property's conclusion evaluated on the observed behaviour only. It does not use add_notice / notices / poll:
   it keeps (a) the last observed form of each notice id, (b) the greatest occurrence time handed out so far,
   (c) per client, whether it has polled before and which notice ids had a new-or-repeat occurrence since then. *)

Record mclient := mkMC { mc_polled : bool; mc_pending : list N }.

Record mstate := mkM {
  m_seen : list onotice;           (* last observed form per id *)
  m_maxts : option Z;              (* greatest last-occurred so far *)
  m_clients : list mclient
}.

Definition server_clock_only (ops : list op) : bool :=
  forallb (fun o => match o with OAdd a => match a_time a with None => true | Some _ => false end | _ => true end) ops.

Definition mem_n (x : N) (l : list N) : bool := existsb (N.eqb x) l.

Fixpoint replace_id (o : onotice) (l : list onotice) : list onotice :=
  match l with
  | [] => [o]
  | m :: r => if N.eqb (o_id m) (o_id o) then o :: r else m :: replace_id o r
  end.

Definition ostatic_match (f : nfilter) (o : onotice) : bool :=
  (match f_user f with
   | None => true
   | Some u => match o_user o with None => true | Some v => N.eqb u v end
   end) &&
  (is_nil_b (f_types f) || mem_bytes (o_type o) (f_types f)) &&
  (is_nil_b (f_keys f) || mem_bytes (o_key o) (f_keys f)).

Fixpoint strictly_increasing (l : list Z) : bool :=
  match l with
  | a :: ((b :: _) as r) => (a <? b) && strictly_increasing r
  | _ => true
  end.

(* returns None when the property is violated at this step *)
Definition mon_add (m : mstate) (a : addargs) (r : option onotice) : option mstate :=
  match r with
  | None => Some m
  | Some o =>
      let fresh_ts := match m_maxts m with None => true | Some t => t <? o_last_occ o end in
      let old := find (fun x => N.eqb (o_id x) (o_id o)) (m_seen m) in
      let key_ok := opt_n_eqb (o_user o) (a_user a) && beq (o_type o) (a_type a) && beq (o_key o) (a_key a) in
      let ok_flag :=
        match old with
        | None =>
            (* first occurrence: a new id, no other notice with this user+type+key, repeated = occurred, count 1 *)
            let uniq := negb (existsb (fun x => opt_n_eqb (o_user x) (a_user a) && beq (o_type x) (a_type a) &&
                                                beq (o_key x) (a_key a)) (m_seen m)) in
            (uniq && (o_lr o =? o_last_occ o) && (o_occ o =? 1)%N, true)
        | Some p =>
            let expect_rep := (a_ra a =? 0) || (o_last_occ o >? o_lr p + a_ra a) in
            let rep := negb (o_lr o =? o_lr p) in
            (Bool.eqb rep expect_rep && (if rep then o_lr o =? o_last_occ o else true) &&
             (o_occ o =? o_occ p + 1)%N, rep)
        end in
      if fresh_ts && key_ok && fst ok_flag then
        Some (mkM (replace_id o (m_seen m)) (Some (o_last_occ o))
                  (if snd ok_flag
                   then map (fun c => mkMC (mc_polled c) (o_id o :: mc_pending c)) (m_clients m)
                   else m_clients m))
      else None
  end.

Definition mon_poll (m : mstate) (fs : list nfilter) (i : nat) (l : list onotice) : option mstate :=
  let f := nth i fs no_filter in
  let c := nth i (m_clients m) (mkMC false []) in
  (* expected set: matching notices that had a new-or-repeat occurrence since this client's previous poll
     (before the first poll: every matching notice after the client's initial cursor) *)
  let expected :=
    List.filter (fun o => ostatic_match f o &&
                          (if mc_polled c then mem_n (o_id o) (mc_pending c)
                           else match f_after f with None => true | Some a => o_lr o >? a end)) (m_seen m) in
  let ids := map o_id l in
  let current := forallb (fun o => existsb (onotice_eqb o) (m_seen m)) l in
  let owner := forallb (fun o => match f_user f, o_user o with
                                 | Some u, Some v => N.eqb u v
                                 | _, _ => true end) l in
  let sorted := strictly_increasing (map o_lr l) in
  let complete := forallb (fun o => mem_n (o_id o) ids) expected in
  let sound := forallb (fun o => mem_n (o_id o) (map o_id expected)) l in
  if current && owner && sorted && complete && sound then
    Some (mkM (m_seen m) (m_maxts m) (set_nth i (mkMC true []) (m_clients m)))
  else None.

Fixpoint mon_run (fs : list nfilter) (m : mstate) (ops : list op) (observed : list obs) : bool :=
  match ops, observed with
  | [], [] => true
  | OAdd a :: ops', BAdd r :: obs' =>
      match mon_add m a r with Some m' => mon_run fs m' ops' obs' | None => false end
  | OPoll i :: ops', BPoll l :: obs' =>
      match mon_poll m fs i l with Some m' => mon_run fs m' ops' obs' | None => false end
  | ORestart :: ops', BRestart n :: obs' =>
      (* a restart loses nothing: same notices; occurrence times keep increasing and pending deliveries stay pending
         across it because the monitor state is simply carried over *)
      (N.eqb n (N.of_nat (List.length (m_seen m)))) && mon_run fs m ops' obs'
  | _, _ => false
  end.

(* the property is stated for adds that use the server clock (no production call site sets AddNoticeOptions.Time);
   histories with an explicit Time are only compared with the model *)
Definition monitor_fail (c : case) : bool :=
  match c with
  | Case fs ops observed =>
      server_clock_only ops &&
      negb (mon_run fs (mkM [] None (map (fun _ => mkMC false []) fs)) ops observed)
  end.

(* ------------------------------------------------------------------------------------------ daemon.getNotices
   The user / filter logic of getNotices for requests arriving on the main snapd socket (so every notice type is
   viewable). Query parameters are the raw values of the URL query. *)

Record api_query := mkQ {
  q_uid : option N;              (* uidFromRequest: None = RemoteAddr does not identify a user *)
  q_user_id : list bytes;        (* query["user-id"] *)
  q_users : list bytes;          (* query["users"] *)
  q_types : list bytes;          (* query["types"] *)
  q_keys : list bytes;           (* query["keys"] *)
  q_after : option (option Z)    (* None = absent/empty; Some None = unparsable; Some (Some t) *)
}.

Inductive api_result :=
| ApiForbidden
| ApiBadRequest
| ApiEmpty                       (* all requested types invalid: empty list, status 200 *)
| ApiFilter (f : nfilter).

(* strings.TrimSpace for ASCII white space *)
Definition is_space (c : N) : bool := ((c =? 32) || ((9 <=? c) && (c <=? 13)))%N.
Fixpoint trim_left (l : bytes) : bytes :=
  match l with
  | c :: r => if is_space c then trim_left r else l
  | [] => []
  end.
Definition trim (l : bytes) : bytes := rev (trim_left (rev (trim_left l))).

(* strings.FieldsFunc(str, r == ',') *)
Fixpoint split_commas (cur : bytes) (l : bytes) : list bytes :=
  match l with
  | [] => [rev cur]
  | c :: r => if (c =? 44)%N then rev cur :: split_commas [] r else split_commas (c :: cur) r
  end.

(* strutil.CommaSeparatedList / MultiCommaSeparatedList *)
Definition comma_list (s : bytes) : list bytes :=
  List.filter (fun x => negb (is_nil_b x)) (map trim (split_commas [] s)).
Definition multi_comma_list (l : list bytes) : list bytes := flat_map comma_list l.

(* strconv.ParseInt(s, 10, 64) followed by the uint32 range check of sanitizeNoticeUserIDFilter *)
Fixpoint digits_val (acc : N) (l : bytes) : option N :=
  match l with
  | [] => Some acc
  | c :: r => if is_digit c then digits_val (acc * 10 + (c - 48))%N r else None
  end.
Definition parse_uid (s : bytes) : option N :=
  let '(neg, d) := match s with
                   | 45%N :: r => (true, r)
                   | 43%N :: r => (false, r)
                   | _ => (false, s)
                   end in
  match d with
  | [] => None
  | _ => match digits_val 0%N d with
         | None => None
         | Some v => if neg then (if (v =? 0)%N then Some 0%N else None)
                     else if (v <=? 4294967295)%N then Some v else None
         end
  end.

(* sanitizeNoticeTypesFilter on the main socket: valid types, first occurrence of each; None = all invalid *)
Fixpoint dedup_valid (seen : list bytes) (l : list bytes) : list bytes :=
  match l with
  | [] => []
  | t :: r => if type_valid t && negb (mem_bytes t seen) then t :: dedup_valid (t :: seen) r else dedup_valid seen r
  end.

Definition api_filter (q : api_query) : api_result :=
  match q_uid q with
  | None => ApiForbidden
  | Some uid =>
      let has_uid := negb (is_nil_b (q_user_id q)) in
      let has_users := negb (is_nil_b (q_users q)) in
      if has_uid && negb (uid =? 0)%N then ApiForbidden else
      let user1 : option (option N) :=            (* None = bad request *)
        if has_uid then
          match multi_comma_list (q_user_id q) with
          | [s] => match parse_uid s with Some u => Some (Some u) | None => None end
          | _ => None
          end
        else Some (Some uid) in
      match user1 with
      | None => ApiBadRequest
      | Some u1 =>
          if has_users && negb (uid =? 0)%N then ApiForbidden else
          if has_users && has_uid then ApiBadRequest else
          if has_users && negb (beq (hd [] (q_users q)) (bs "all")) then ApiBadRequest else
          let user := if has_users then None else u1 in
          let tstrs := multi_comma_list (q_types q) in
          let types := dedup_valid [] tstrs in
          if is_nil_b types && negb (is_nil_b tstrs) then ApiEmpty else
          match q_after q with
          | Some None => ApiBadRequest
          | a => ApiFilter (mkF user types (multi_comma_list (q_keys q))
                                (match a with Some (Some t) => Some t | _ => None end))
          end
      end
  end.

(* one GET /v2/notices request against a state built by server-clock adds *)
Inductive acase :=
| ACase (adds : list addargs) (q : api_query) (status : N) (ids : list N).   (* observed: HTTP status, notice ids in order *)

Fixpoint add_all (st : state) (l : list addargs) : state :=
  match l with
  | [] => st
  | a :: r => match add_notice st a with
              | Some (st', _, _) => add_all st' r
              | None => add_all st r
              end
  end.

Definition api_get (st : state) (q : api_query) : N * list notice :=
  match api_filter q with
  | ApiForbidden => (403%N, [])
  | ApiBadRequest => (400%N, [])
  | ApiEmpty => (200%N, [])
  | ApiFilter f => (200%N, notices st f)
  end.

Definition amismatch (c : acase) : bool :=
  match c with
  | ACase adds q status ids =>
      let '(s, l) := api_get (add_all empty_state adds) q in
      negb ((s =? status)%N && list_eqb N.eqb (map n_id l) ids)
  end.

(* owner-only on the observed response: a request from a non-root uid gets an error if it names a user filter, and
   otherwise only notices that are public or its own (ownership read from the add arguments, ids being handed out
   in first-occurrence order; independent of api_filter / notices) *)
Fixpoint owners (seen : list (option N * bytes * bytes * N)) (next : N) (l : list addargs) : list (option N * bytes * bytes * N) :=
  match l with
  | [] => seen
  | a :: r =>
      if validate a then
        if existsb (fun x => match x with (u, t, k, _) => opt_n_eqb u (a_user a) && beq t (a_type a) && beq k (a_key a) end) seen
        then owners seen next r
        else owners (seen ++ [(a_user a, a_type a, a_key a, next)]) (next + 1)%N r
      else owners seen next r
  end.

Definition amonitor_fail (c : acase) : bool :=
  match c with
  | ACase adds q status ids =>
      match q_uid q with
      | None => negb (status =? 403)%N
      | Some uid =>
          if (uid =? 0)%N then false else
          let named := negb (is_nil_b (q_user_id q)) || negb (is_nil_b (q_users q)) in
          if named then negb (status =? 403)%N || negb (is_nil_b ids) else
          let own := owners [] 1%N adds in
          negb (forallb (fun id =>
                  existsb (fun x => match x with (u, _, _, i) =>
                                      N.eqb i id && match u with None => true | Some v => N.eqb v uid end end) own) ids)
      end
  end.

(* ------------------------------------------------------------------------------------------ one client, for the theorems
   A history as seen by one polling client with a fixed filter: additions (by anybody) interleaved with its polls.
   hrun returns, for every poll, the list the client received together with the ghost list `pend`: the keys
   (user, type, key) of the additions that were new-or-repeated (newOrRepeated = true) since its previous poll. *)

Inductive event :=
| EAdd (a : addargs)
| EPoll
| ERestart.

Definition nkey := (option N * bytes * bytes)%type.
Definition key_of (n : notice) : nkey := (n_user n, n_type n, n_key n).
Definition akey (a : addargs) : nkey := (a_user a, a_type a, a_key a).

(* static_match on a key *)
Definition key_static_match (f : nfilter) (k : nkey) : bool :=
  match k with
  | (u, t, s) =>
    (match f_user f with
     | None => true
     | Some x => match u with None => true | Some v => N.eqb x v end
     end) &&
    (is_nil_b (f_types f) || mem_bytes t (f_types f)) &&
    (is_nil_b (f_keys f) || mem_bytes s (f_keys f))
  end.

Fixpoint hrun (f : nfilter) (st : state) (c : option Z) (pend : list nkey) (evs : list event)
  : list (list notice * list nkey) :=
  match evs with
  | [] => []
  | EAdd a :: r =>
      match add_notice st a with
      | None => hrun f st c pend r
      | Some (st', flag, _) => hrun f st' c (if flag then akey a :: pend else pend) r
      end
  | EPoll :: r =>
      let '(out, c') := poll st f c in (out, pend) :: hrun f st c' [] r
  | ERestart :: r => hrun f (restart st) c pend r      (* the client keeps its cursor; nothing is delivered or lost *)
  end.

Definition ev_server_clock (e : event) : bool :=
  match e with EAdd a => match a_time a with None => true | Some _ => false end | _ => true end.

(* the occurrence times handed out to the new-or-repeated additions of a history, in order *)
Fixpoint flag_stamps (st : state) (l : list event) : list Z :=
  match l with
  | [] => []
  | EAdd a :: r =>
      match add_notice st a with
      | None => flag_stamps st r
      | Some (st', flag, _) =>
          match find (same_key (a_user a) (a_type a) (a_key a)) (s_notices st') with
          | Some n => if flag then n_lr n :: flag_stamps st' r else flag_stamps st' r
          | None => flag_stamps st' r
          end
      end
  | EPoll :: r => flag_stamps st r
  | ERestart :: r => flag_stamps (restart st) r
  end.

(* the state after a history *)
Fixpoint state_after (st : state) (l : list event) : state :=
  match l with
  | [] => st
  | EAdd a :: r => match add_notice st a with Some (st', _, _) => state_after st' r | None => state_after st r end
  | EPoll :: r => state_after st r
  | ERestart :: r => state_after (restart st) r
  end.

(* the state after a list of additions *)
Definition reach (l : list addargs) : state := add_all empty_state l.

(* ------------------------------------------------------------------------------------------ waiting clients
   State.WaitNotices, logical half. A call returns at once when Notices(filter) is not empty; otherwise it blocks on
   noticeCond. Every Broadcast (AddNotice with newOrRepeated = true; the context of some waiter being done) makes every
   blocked call re-evaluate Notices(filter) (after looking at its own ctx.Err()). That sync.Cond.Broadcast really wakes
   the goroutines is Go runtime behaviour: modelled by `recheck`, not verified. *)
Inductive wevent :=
| WAdd (a : addargs)                 (* State.AddNotice *)
| WWait (id : N) (f : nfilter)       (* call number id of State.WaitNotices with this filter (After included) *)
| WTimeout (id : N)                  (* the context of call id is done (timeout / cancellation) *)
| WRestart.                          (* snapd restarts: blocked requests die with the process *)

Inductive wout :=
| WReturned (id : N) (f : nfilter) (l : list notice)    (* call id returned this list *)
| WCancelled (id : N).                                  (* call id returned ctx.Err() *)

Record wsys := mkW { w_state : state; w_blocked : list (N * nfilter) }.

Definition empty_wsys : wsys := mkW empty_state [].

(* every blocked call re-evaluates its condition *)
Fixpoint recheck (st : state) (bl : list (N * nfilter)) : list wout * list (N * nfilter) :=
  match bl with
  | [] => ([], [])
  | (id, f) :: r =>
      let '(o, b) := recheck st r in
      if wait_enabled st f then (WReturned id f (notices st f) :: o, b) else (o, (id, f) :: b)
  end.

Definition is_blocked (id : N) (bl : list (N * nfilter)) : bool := existsb (fun w => N.eqb (fst w) id) bl.

Definition wstep (s : wsys) (e : wevent) : list wout * wsys :=
  match e with
  | WAdd a =>
      match add_notice (w_state s) a with
      | None => ([], s)
      | Some (st', flag, _) =>
          if flag then let '(o, b) := recheck st' (w_blocked s) in (o, mkW st' b)     (* noticeCond.Broadcast() *)
          else ([], mkW st' (w_blocked s))
      end
  | WWait id f =>
      if wait_enabled (w_state s) f then ([WReturned id f (notices (w_state s) f)], s)
      else ([], mkW (w_state s) (List.app (w_blocked s) [(id, f)]))
  | WTimeout id =>
      if is_blocked id (w_blocked s) then
        (* contextAfterFunc: Broadcast; the call whose context is done returns its error, the others re-check *)
        let rest := List.filter (fun w => negb (N.eqb (fst w) id)) (w_blocked s) in
        let '(o, b) := recheck (w_state s) rest in (WCancelled id :: o, mkW (w_state s) b)
      else ([], s)
  | WRestart => ([], mkW (restart (w_state s)) [])
  end.

Fixpoint wrun (s : wsys) (evs : list wevent) : list wout * wsys :=
  match evs with
  | [] => ([], s)
  | e :: r => let '(o1, s1) := wstep s e in let '(o2, s2) := wrun s1 r in (List.app o1 o2, s2)
  end.

Definition wev_server_clock (e : wevent) : bool :=
  match e with WAdd a => match a_time a with None => true | Some _ => false end | _ => true end.

(* ---- correspondence for the waiting clients (driver zzverif/c08/wait: real goroutines blocked in State.WaitNotices) *)

(* what was observed of one call during one step: kind 0 = returned the list, 1 = returned the context's error,
   2 = should have returned (the real Notices(filter) was non-empty after the step) but did not within the time limit *)
Inductive wobs := WO (id : N) (kind : N) (l : list onotice).

(* per step: the calls that returned during it, and the calls still blocked after it, each with the number of notices the
   real State.Notices(filter) reports for it at that moment *)
Inductive wcase := WCase (evs : list wevent) (steps : list (list wobs * list (N * N))).

Fixpoint wsteps (s : wsys) (evs : list wevent) : list (list wout * list (N * nfilter)) :=
  match evs with
  | [] => []
  | e :: r => let '(o, s') := wstep s e in (o, w_blocked s') :: wsteps s' r
  end.

Fixpoint wins (x : wobs) (l : list wobs) : list wobs :=
  match l with
  | [] => [x]
  | y :: r => if (match x, y with WO a _ _, WO b _ _ => a <=? b end)%N then x :: l else y :: wins x r
  end.
Definition wsort (l : list wobs) : list wobs := fold_right wins [] l.

Definition wout_obs (o : wout) : wobs :=
  match o with
  | WReturned id _ l => WO id 0%N (map project l)
  | WCancelled id => WO id 1%N []
  end.

Definition wobs_eqb (a b : wobs) : bool :=
  match a, b with WO i k l, WO j k' l' => N.eqb i j && N.eqb k k' && list_eqb onotice_eqb l l' end.

Fixpoint nins (x : N) (l : list N) : list N :=
  match l with [] => [x] | y :: r => if (x <=? y)%N then x :: l else y :: nins x r end.
Definition nsort (l : list N) : list N := fold_right nins [] l.

Fixpoint list_eqb2 {A B} (e : A -> B -> bool) (a : list A) (b : list B) : bool :=
  match a, b with
  | [], [] => true
  | x :: a', y :: b' => e x y && list_eqb2 e a' b'
  | _, _ => false
  end.

Definition wmismatch (c : wcase) : bool :=
  match c with
  | WCase evs steps =>
      negb (list_eqb2 (fun m o =>
                        list_eqb wobs_eqb (wsort (map wout_obs (fst m))) (wsort (fst o)) &&
                        list_eqb N.eqb (nsort (map fst (snd m))) (nsort (map fst (snd o))))
                     (wsteps empty_wsys evs) steps)
  end.

(* the waiter clause on the observed behaviour: nobody stuck; what is returned is non-empty, matches the call's filter and
   is ordered; nobody stays blocked while the real Notices(filter) is non-empty *)
Definition omatches (f : nfilter) (o : onotice) : bool :=
  ostatic_match f o && match f_after f with None => true | Some a => o_lr o >? a end.

Definition wfilter_of (evs : list wevent) (id : N) : nfilter :=
  match find (fun e => match e with WWait i _ => N.eqb i id | _ => false end) evs with
  | Some (WWait _ f) => f
  | _ => no_filter
  end.

Definition wmonitor_fail (c : wcase) : bool :=
  match c with
  | WCase evs steps =>
      forallb wev_server_clock evs &&
      negb (forallb (fun st =>
              forallb (fun o => match o with
                                | WO id 0%N l => negb (is_nil_b l) && forallb (omatches (wfilter_of evs id)) l &&
                                                 strictly_increasing (map o_lr l)
                                | WO _ 1%N _ => true
                                | WO _ _ _ => false
                                end) (fst st) &&
              forallb (fun b => N.eqb (snd b) 0%N) (snd st)) steps)
  end.
