(* C16, string level — model of timeutil's ParseSchedule (parseEventSet, parseWeekSpan, parseWeekday, parseClockSpan,
   parseCount, parseClockRange, ParseClock with its validTime regexp) and of Schedule.String (Week.String,
   WeekSpan.String, Clock.String, ClockSpan.String) over byte lists. No proofs in this file. *)
From Coq Require Import List NArith ZArith Bool String.
Import ListNotations.
Require Import V.lib.Bytes V.lib.Dec V.models.Timer.
Open Scope N_scope.

(* ------------------------------------------------------------------ strings helpers *)
Definition contains (c : N) (l : bytes) : bool := existsb (N.eqb c) l.

Definition cons_head (x : N) (l : list bytes) : list bytes :=
  match l with h :: t => (x :: h) :: t | [] => [[x]] end.

(* strings.Split(s, sep) for a one-byte separator *)
Fixpoint split_on (c : N) (l : bytes) : list bytes :=
  match l with
  | [] => [[]]
  | x :: r => if x =? c then [] :: split_on c r else cons_head x (split_on c r)
  end.

(* strings.Split(s, ",,"): non-overlapping, leftmost *)
Fixpoint split_cc (l : bytes) : list bytes :=
  match l with
  | [] => [[]]
  | x :: r =>
      match r with
      | y :: r' => if (x =? 44) && (y =? 44) then [] :: split_cc r' else cons_head x (split_cc r)
      | [] => [[x]]
      end
  end.

(* strings.SplitN(s, sep, 2) when sep occurs: (before, after) the first occurrence *)
Fixpoint cut_first (c : N) (l : bytes) : option (bytes * bytes) :=
  match l with
  | [] => None
  | x :: r => if x =? c then Some ([], r)
              else match cut_first c r with Some (a, b) => Some (x :: a, b) | None => None end
  end.

(* strings.Replace(s, old, new, 1) for one-byte old/new *)
Fixpoint replace_first (o n : N) (l : bytes) : bytes :=
  match l with
  | [] => []
  | x :: r => if x =? o then n :: r else x :: replace_first o n r
  end.

Fixpoint join (c : N) (l : list bytes) : bytes :=
  match l with
  | [] => []
  | [f] => f
  | f :: r => f ++ c :: join c r
  end.

(* strconv.ParseUint(s, 10, 32): one or more digits, value below 2^32 *)
Definition parse_uint32 (s : bytes) : option Z :=
  match undec s with
  | Some n => if n <? 4294967296 then Some (Z.of_N n) else None
  | None => None
  end.

Definition dig (c : N) : Z := Z.of_N (c - 48).

(* ------------------------------------------------------------------ ParseClock: ^([0-9]|0[0-9]|1[0-9]|2[0-3]):([0-5][0-9])$|^24:00$ *)
Definition is_d05 (c : N) : bool := (48 <=? c) && (c <=? 53).
Definition parse_clock (s : bytes) : option clock :=
  match s with
  | [h; c; m1; m2] =>
      if is_digit h && (c =? 58) && is_d05 m1 && is_digit m2
      then Some (mkClock (dig h) (dig m1 * 10 + dig m2)) else None
  | [h1; h2; c; m1; m2] =>
      if (h1 =? 50) && (h2 =? 52) && (c =? 58) && (m1 =? 48) && (m2 =? 48) then Some (mkClock 24 0)
      else if ((((h1 =? 48) || (h1 =? 49)) && is_digit h2) || ((h1 =? 50) && (48 <=? h2) && (h2 <=? 51)))
              && (c =? 58) && is_d05 m1 && is_digit m2
      then Some (mkClock (dig h1 * 10 + dig h2) (dig m1 * 10 + dig m2)) else None
  | _ => None
  end.

(* ------------------------------------------------------------------ parseWeekday / parseWeekSpan *)
Definition weekday_of_name (a b c : N) : option Z :=
  if beq [a; b; c] (bs "sun") then Some 0%Z else if beq [a; b; c] (bs "mon") then Some 1%Z
  else if beq [a; b; c] (bs "tue") then Some 2%Z else if beq [a; b; c] (bs "wed") then Some 3%Z
  else if beq [a; b; c] (bs "thu") then Some 4%Z else if beq [a; b; c] (bs "fri") then Some 5%Z
  else if beq [a; b; c] (bs "sat") then Some 6%Z else None.

Definition parse_weekday (s : bytes) : option week :=
  match s with
  | [a; b; c] => option_map (fun d => mkWeek d 0) (weekday_of_name a b c)
  | [a; b; c; n] =>
      (* ParseUint of one character: a digit; 1 <= v <= 5 *)
      if (49 <=? n) && (n <=? 53) then option_map (fun d => mkWeek d (dig n)) (weekday_of_name a b c) else None
  | _ => None
  end.

Definition parse_week_span (s : bytes) : option weekspan :=
  let fin (st en : week) : option weekspan :=
    if negb (pos st =? 0)%Z && negb (pos en =? 0)%Z then
      if (pos en <? pos st)%Z then None
      else if negb (week_eqb st en) then Some (mkWS st (mkWeek (wday en) 0)) else Some (mkWS st en)
    else Some (mkWS st en) in
  match split_on 45 s with
  | [a] => match parse_weekday a with Some st => fin st st | None => None end
  | [a; b] => match parse_weekday a, parse_weekday b with Some st, Some en => fin st en | _, _ => None end
  | _ => None
  end.

(* ------------------------------------------------------------------ parseCount / parseClockRange / parseClockSpan *)
Definition parse_count (s : bytes) : option (Z * bytes) :=
  if negb (contains 47 s) then Some (0%Z, s)
  else match split_on 47 s with
       | [rest; cstr] =>
           match parse_uint32 cstr with
           | Some c => if (c =? 0)%Z then None else Some (c, rest)
           | None => None
           end
       | _ => None
       end.

Definition parse_clock_range (s : bytes) : option (clock * clock) :=
  match cut_first 45 s with
  | Some (a, b) => match parse_clock a, parse_clock b with Some x, Some y => Some (x, y) | _, _ => None end
  | None => None
  end.

Definition parse_clock_span (s : bytes) : option clockspan :=
  match parse_count s with
  | None => None
  | Some (cnt, rest) =>
      let spr := contains 126 rest in
      let rest' := if spr then replace_first 126 45 rest else rest in
      let se := if beq rest' [45] then Some (mkClock 0 0, mkClock 24 0)
                else if contains 45 rest' then parse_clock_range rest'
                else match parse_clock rest' with Some c => Some (c, c) | None => None end in
      match se with
      | Some (st, en) => Some (mkCS st en cnt spr)
      | None => None
      end
  end.

(* ------------------------------------------------------------------ parseEventSet / ParseSchedule *)
(* the loop over the fragments; `expect` = a clock span has been seen, only clock spans may follow *)
Fixpoint parse_frags (frs : list bytes) (expect : bool) : option (list weekspan * list clockspan) :=
  match frs with
  | [] => Some ([], [])
  | f :: r =>
      if is_nil_b f then None
      else if contains 58 f then
        match parse_clock_span f, parse_frags r true with
        | Some cs, Some (w, c) => Some (w, cs :: c)
        | _, _ => None
        end
      else if expect then None
      else match parse_week_span f, parse_frags r false with
           | Some ws, Some (w, c) => Some (ws :: w, c)
           | _, _ => None
           end
  end.

Definition parse_event_set (s : bytes) : option schedule :=
  match parse_frags (split_on 44 s) false with
  | Some (w, c) => Some (mkSched w c)
  | None => None
  end.

Fixpoint all_some {A : Type} (l : list (option A)) : option (list A) :=
  match l with
  | [] => Some []
  | Some x :: r => match all_some r with Some t => Some (x :: t) | None => None end
  | None :: _ => None
  end.

Definition parse_schedule (s : bytes) : option (list schedule) := all_some (map parse_event_set (split_cc s)).

(* ------------------------------------------------------------------ String() *)
(* %02d for a non-negative number *)
Definition fmt02 (z : Z) : bytes := match dec (Z.to_N z) with [x] => [48; x] | d => d end.
Definition fmt_clock (c : clock) : bytes := fmt02 (hour c) ++ 58 :: fmt02 (minute c).

Definition day_name (d : Z) : bytes :=
  if (d =? 0)%Z then bs "sun" else if (d =? 1)%Z then bs "mon" else if (d =? 2)%Z then bs "tue"
  else if (d =? 3)%Z then bs "wed" else if (d =? 4)%Z then bs "thu" else if (d =? 5)%Z then bs "fri" else bs "sat".
Definition fmt_week (w : week) : bytes :=
  if (pos w =? 0)%Z then day_name (wday w) else day_name (wday w) ++ dec (Z.to_N (pos w)).
Definition fmt_ws (ws : weekspan) : bytes :=
  if week_eqb (ws_end ws) (ws_start ws) then fmt_week (ws_start ws)
  else fmt_week (ws_start ws) ++ 45 :: fmt_week (ws_end ws).

Definition fmt_cs (cs : clockspan) : bytes :=
  if clock_eqb (cs_end cs) (cs_start cs) then fmt_clock (cs_start cs)
  else fmt_clock (cs_start cs) ++ (if spread cs then 126 else 45) :: fmt_clock (cs_end cs) ++
       (if (0 <? split cs)%Z then 47 :: dec (Z.to_N (split cs)) else []).

(* Schedule.String: week spans, then clock spans, all separated by commas (Go writes two loops with a comma between
   the two groups when both are non-empty: the same bytes) *)
Definition fmt_sched (s : schedule) : bytes := join 44 (map fmt_ws (weekspans s) ++ map fmt_cs (clockspans s)).

(* a span whose end equals its start is printed as the bare time: Spread and Split are not printed (they have no
   effect on such a span: ClockSpans returns it unsplit, the random spread of an empty window is 0) *)
Definition norm_cs (cs : clockspan) : clockspan :=
  if clock_eqb (cs_end cs) (cs_start cs) then mkCS (cs_start cs) (cs_end cs) 0 false else cs.
Definition norm_sched (s : schedule) : schedule := mkSched (weekspans s) (map norm_cs (clockspans s)).

(* ------------------------------------------------------------------ correspondence interface *)
(* ParseSchedule(text): observed result (None = error) and, when accepted, String() of each schedule *)
Inductive tcase := TParse (text : bytes) (r : option (list schedule)) (strs : list bytes).

Definition clock_eq (a b : clock) : bool := clock_eqb a b.
Definition cs_eqb (a b : clockspan) : bool :=
  clock_eqb (cs_start a) (cs_start b) && clock_eqb (cs_end a) (cs_end b) && (split a =? split b)%Z && Bool.eqb (spread a) (spread b).
Definition ws_eqb (a b : weekspan) : bool := week_eqb (ws_start a) (ws_start b) && week_eqb (ws_end a) (ws_end b).
Fixpoint list_eqb2 {A : Type} (e : A -> A -> bool) (a b : list A) : bool :=
  match a, b with
  | [], [] => true
  | x :: a', y :: b' => e x y && list_eqb2 e a' b'
  | _, _ => false
  end.
Definition sched_eqb (a b : schedule) : bool :=
  list_eqb2 ws_eqb (weekspans a) (weekspans b) && list_eqb2 cs_eqb (clockspans a) (clockspans b).
Definition oscheds_eqb (a b : option (list schedule)) : bool :=
  match a, b with
  | None, None => true
  | Some x, Some y => list_eqb2 sched_eqb x y
  | _, _ => false
  end.

Definition tmismatch (c : tcase) : bool :=
  let 'TParse text r strs := c in
  negb (oscheds_eqb (parse_schedule text) r) ||
  match r with
  | Some l => negb (list_eqb2 beq (map fmt_sched l) strs)
  | None => false
  end.

(* well-formedness of what the parser returned, stated on the observed AST (independent of the model parser), and the
   round trip through the OBSERVED String() output is checked by the driver's own CParse cases in Timer.case *)
Definition split_ok (cs : clockspan) : bool := (0 <=? split cs)%Z && (split cs <? 4294967296)%Z.
Definition tmonitor_fail (c : tcase) : bool :=
  let 'TParse _ r _ := c in
  match r with
  | Some l => negb (forallb (fun s => sched_wf s && forallb split_ok (clockspans s) &&
                                      negb (is_nil_b (weekspans s) && is_nil_b (clockspans s))) l) || is_nil_b l
  | None => false
  end.
