(* C29 — model of overlord/configstate/config: transaction.go (Transaction.Set/Get/Commit, getFromConfig, applyChanges,
   commitChange) and helpers.go (PatchConfig, purgeNulls, Save/Restore/DiscardRevisionConfig), written function by
   function, plus a plain nested-map reference semantics (write log replayed on a tree) that the theorems relate it to.
   JSON values are V.lib.JsonTree trees (scalars opaque). External (virtual) configuration is not modelled.
   No proofs in this file. *)
From Coq Require Import List NArith ZArith Bool.
Import ListNotations.
Require Import V.lib.JsonTree.
Open Scope N_scope.

(* ------------------------------------------------------------------ the write cache (Transaction.changes)
   A cached entry is either a *json.RawMessage (Raw: replaces the committed value on commit) or a
   map[string]interface{} (Patch: merged into the committed map on commit). *)
Inductive change :=
| Raw (t : tree)
| Patch (m : list (key * change)).

(* jsonRaw(change): marshal a cache entry *)
Fixpoint tree_of_change (c : change) : tree :=
  match c with
  | Raw t => t
  | Patch m => Obj (map (fun kc => (fst kc, tree_of_change (snd kc))) m)
  end.

(* PatchConfig on a map obtained by DECODING a raw message (case *json.RawMessage: unpack, update, repack): members
   are plain decoded values; a missing or null member takes the nil case (fresh nested maps), an object member the map
   case, a scalar member ends in the `unexpected configuration type` error. The result is repacked, so only the
   resulting tree matters. *)
Fixpoint dpatch (ks : path) (l : list (key * tree)) (v : tree) {struct ks} : option (list (key * tree)) :=
  match ks with
  | [] => None
  | k :: r =>
      match r with
      | [] => Some (aset k v l)
      | _ :: _ =>
          match lookup k l with
          | None | Some Null => Some (aset k (nest r v) l)
          | Some (Obj l') => match dpatch r l' v with Some x => Some (aset k (Obj x) l) | None => None end
          | Some (Atom _) => None
          end
      end
  end.

(* PatchConfig(snapName, subkeys, pos, config, value); ks = subkeys[pos:], None = error.
   config nil -> fresh map; *json.RawMessage -> decode (a scalar `is not a map`; null decodes to a nil map, which
   is again the nil case), patch, repack; map -> assign at the last key, else recurse into config[k]. *)
Fixpoint patch_config (ks : path) (c : option change) (v : tree) {struct ks} : option change :=
  match ks with
  | [] => None
  | k :: r =>
      let inmap (m : list (key * change)) : option (list (key * change)) :=
        match r with
        | [] => Some (aset k (Raw v) m)
        | _ :: _ => match patch_config r (lookup k m) v with Some c' => Some (aset k c' m) | None => None end
        end in
      match c with
      | None => option_map Patch (inmap [])
      | Some (Patch m) => option_map Patch (inmap m)
      | Some (Raw (Obj l)) => option_map (fun x => Raw (Obj x)) (dpatch ks l v)
      | Some (Raw Null) => option_map (fun m => Raw (tree_of_change (Patch m))) (inmap [])
      | Some (Raw (Atom _)) => None
      end
  end.

(* commitChange(pristine, change): a raw entry replaces; a map entry is merged member by member into a pristine
   object and replaces anything else (missing, null, scalar) *)
Fixpoint commit_change (c : change) (p : option tree) : tree :=
  match c with
  | Raw t => t
  | Patch m =>
      match p with
      | Some (Obj l) =>
          Obj (fold_left (fun acc kc => aset (fst kc) (commit_change (snd kc) (lookup (fst kc) acc)) acc) m l)
      | _ => tree_of_change c
      end
  end.

(* applyChanges(config, changes) *)
Definition apply_changes (l : list (key * tree)) (m : list (key * change)) : list (key * tree) :=
  fold_left (fun acc kc => aset (fst kc) (commit_change (snd kc) (lookup (fst kc) acc)) acc) m l.

(* purgeNulls(config) on the top-level map[string]*json.RawMessage is JsonTree.purge_list *)

(* getFromConfig *)
Inductive gres :=
| GOk (t : tree)
| GNoOption
| GNotMap
| GOther.                                   (* any other error: never produced by the model *)

Fixpoint get_from (ks : path) (l : list (key * tree)) : gres :=
  match ks with
  | [] => match l with [] => GNoOption | _ => GOk (Obj l) end
  | k :: r =>
      match lookup k l with
      | None => GNoOption
      | Some t =>
          match r with
          | [] => GOk t
          | _ :: _ => match t with
                      | Obj l' => get_from r l'
                      | Null => GNoOption          (* null decodes to a nil map: the next lookup finds nothing *)
                      | Atom _ => GNotMap
                      end
          end
      end
  end.

(* ------------------------------------------------------------------ transactions *)
Definition config := list (key * tree).              (* snap -> Obj (option -> value) : the state's `config` entry *)
Definition revconfig := list (key * list (key * tree)).  (* snap -> revision -> saved snap config *)

Record tx := mkTx { tx_pristine : config; tx_changes : list (key * list (key * change)) }.

(* NewTransaction *)
Definition new_tx (c : config) : tx := mkTx c [].

(* t.pristine[snap] as a map (missing snap: empty/nil map) *)
Definition snap_map (c : config) (s : key) : list (key * tree) :=
  match lookup s c with Some (Obj l) => l | _ => [] end.

Definition snap_changes (t : tx) (s : key) : list (key * change) :=
  match lookup s (tx_changes t) with Some m => m | None => [] end.

Definition is_notmap (g : gres) : bool := match g with GNotMap => true | _ => false end.

(* Transaction.Set (key non-empty, valid): None = error, nothing changed *)
Definition tx_set (t : tx) (s : key) (ks : path) (v : tree) : option tx :=
  match ks with
  | [] => None                                        (* the Go code would index out of range; never sent *)
  | _ :: r =>
      if (match r with [] => false | _ => is_notmap (get_from ks (snap_map (tx_pristine t) s)) end) then None
      else match patch_config ks (Some (Patch (snap_changes t s))) v with
           | Some (Patch m) => Some (mkTx (tx_pristine t) (aset s m (tx_changes t)))
           | _ => None
           end
  end.

(* the configuration of one snap as the transaction sees it: copyPristine, applyChanges, purgeNulls *)
Definition tx_view (t : tx) (s : key) : list (key * tree) :=
  purge_list (apply_changes (snap_map (tx_pristine t) s) (snap_changes t s)).

(* Transaction.Get *)
Definition tx_get (t : tx) (s : key) (ks : path) : gres := get_from ks (tx_view t s).

(* Transaction.Commit against the latest committed configuration: (new committed config, transaction afterwards) *)
Definition commit_snaps (latest : config) (chs : list (key * list (key * change))) : config :=
  fold_left (fun cfg sm => aset (fst sm) (Obj (purge_list (apply_changes (snap_map cfg (fst sm)) (snd sm)))) cfg)
            chs latest.

Definition tx_commit (t : tx) (latest : config) : config * tx :=
  match tx_changes t with
  | [] => (latest, t)
  | chs => let c := commit_snaps latest chs in (c, mkTx c [])
  end.

(* SaveRevisionConfig / RestoreRevisionConfig / DiscardRevisionConfig *)
Definition save_rev (c : config) (rc : revconfig) (s rev : key) : revconfig :=
  match lookup s c with
  | None => rc
  | Some sc => aset s (aset rev sc (match lookup s rc with Some m => m | None => [] end)) rc
  end.

Definition restore_rev (c : config) (rc : revconfig) (s rev : key) : config :=
  match lookup s rc with
  | Some m => match lookup rev m with Some sc => aset s sc c | None => c end
  | None => c
  end.

Definition discard_rev (rc : revconfig) (s rev : key) : revconfig :=
  match lookup s rc with
  | Some m => match aremove rev m with [] => aremove s rc | m' => aset s m' rc end
  | None => rc
  end.

(* ------------------------------------------------------------------ several live transactions on one state *)
Record state := mkState { st_cfg : config; st_rev : revconfig; st_txs : list tx }.

Inductive op :=
| ONew
| OSet (i : nat) (s : key) (ks : path) (v : tree)
| OGet (i : nat) (s : key) (ks : path)
| OCommit (i : nat)
| OSave (s rev : key)
| ORestore (s rev : key)
| ODiscard (s rev : key).

Inductive obs :=
| BSet (ok : bool)
| BGet (g : gres)
| BCfg (c : config) (rc : revconfig)       (* committed configuration and revision snapshots after the operation *)
| BSkip.                                    (* operation on a transaction index that does not exist *)

Fixpoint set_nth {A : Type} (n : nat) (x : A) (l : list A) : list A :=
  match l, n with
  | [], _ => []
  | _ :: r, O => x :: r
  | y :: r, S n' => y :: set_nth n' x r
  end.

Definition step (st : state) (o : op) : state * obs :=
  match o with
  | ONew => (mkState (st_cfg st) (st_rev st) (st_txs st ++ [new_tx (st_cfg st)]), BCfg (st_cfg st) (st_rev st))
  | OSet i s ks v =>
      match nth_error (st_txs st) i with
      | None => (st, BSkip)
      | Some t => match tx_set t s ks v with
                  | Some t' => (mkState (st_cfg st) (st_rev st) (set_nth i t' (st_txs st)), BSet true)
                  | None => (st, BSet false)
                  end
      end
  | OGet i s ks =>
      match nth_error (st_txs st) i with
      | None => (st, BSkip)
      | Some t => (st, BGet (tx_get t s ks))
      end
  | OCommit i =>
      match nth_error (st_txs st) i with
      | None => (st, BSkip)
      | Some t => let (c, t') := tx_commit t (st_cfg st) in
                  (mkState c (st_rev st) (set_nth i t' (st_txs st)), BCfg c (st_rev st))
      end
  | OSave s r => let rc := save_rev (st_cfg st) (st_rev st) s r in
                 (mkState (st_cfg st) rc (st_txs st), BCfg (st_cfg st) rc)
  | ORestore s r => let c := restore_rev (st_cfg st) (st_rev st) s r in
                    (mkState c (st_rev st) (st_txs st), BCfg c (st_rev st))
  | ODiscard s r => let rc := discard_rev (st_rev st) s r in
                    (mkState (st_cfg st) rc (st_txs st), BCfg (st_cfg st) rc)
  end.

Fixpoint run (st : state) (ops : list op) : list obs :=
  match ops with
  | [] => []
  | o :: r => let (st', b) := step st o in b :: run st' r
  end.

(* ------------------------------------------------------------------ reference semantics: plain nested maps.
   A reference transaction is the configuration at its start plus the LOG of its successful writes; its view is the
   log replayed on that configuration; committing replays the log on the latest committed configuration. *)
Definition wlog := list (key * path * tree).          (* snap, option path, value; oldest first *)

Definition replay (lg : wlog) (c : config) : config :=
  fold_left (fun cfg w => match w with (s, ks, v) => aset s (tset ks v (lookup s cfg)) cfg end) lg c.

Definition purge_snap (c : config) (s : key) : list (key * tree) := purge_list (snap_map c s).

Record rtx := mkRtx { r_pristine : config; r_log : wlog }.

Definition r_view (t : rtx) (s : key) : list (key * tree) := purge_snap (replay (r_log t) (r_pristine t)) s.

(* a scalar met while keys remain: walking ks from node o *)
Fixpoint blocked (ks : path) (o : option tree) : bool :=
  match ks with
  | [] => false
  | k :: r => match o with
              | Some (Atom _) => true
              | Some (Obj l) => blocked r (lookup k l)
              | _ => false
              end
  end.

(* reading a path from a node (specification form of getFromConfig below the top level) *)
Fixpoint get_node (ks : path) (o : option tree) : gres :=
  match ks with
  | [] => match o with Some t => GOk t | None => GNoOption end
  | k :: r => match o with
              | Some (Obj l) => get_node r (lookup k l)
              | Some (Atom _) => GNotMap
              | _ => GNoOption
              end
  end.

(* reference Set: rejected when the path runs through a scalar of the configuration at transaction start or of the
   replayed (unpurged) view *)
Definition r_set (t : rtx) (s : key) (ks : path) (v : tree) : option rtx :=
  match ks with
  | [] => None
  | _ :: _ =>
      if blocked ks (Some (Obj (snap_map (r_pristine t) s)))
         || blocked ks (Some (Obj (snap_map (replay (r_log t) (r_pristine t)) s)))
      then None else Some (mkRtx (r_pristine t) (r_log t ++ [(s, ks, v)]))
  end.

Definition r_get (t : rtx) (s : key) (ks : path) : gres := get_from ks (r_view t s).

Definition log_snaps (lg : wlog) : list key := map (fun w => fst (fst w)) lg.

(* reference Commit: replay the log on the latest configuration and purge the snaps written to *)
Definition content (t : tree) : list (key * tree) := match t with Obj l => l | _ => [] end.

Definition purge_written (snaps : list key) (c : config) : config :=
  map (fun sv => (fst sv, if existsb (N.eqb (fst sv)) snaps then Obj (purge_list (content (snd sv))) else snd sv)) c.

Definition r_commit (t : rtx) (latest : config) : config * rtx :=
  match r_log t with
  | [] => (latest, t)
  | lg => let c := purge_written (log_snaps lg) (replay lg latest) in (c, mkRtx c [])
  end.

(* ------------------------------------------------------------------ well-formedness (Go maps have unique keys) *)
Fixpoint wf_change (c : change) : bool :=
  match c with
  | Raw t => wf_tree t
  | Patch m => sorted (map fst m) && forallb (fun kc => wf_change (snd kc)) m
  end.

Definition wf_op (o : op) : bool := match o with OSet _ _ _ v => wf_tree v | _ => true end.

(* ------------------------------------------------------------------ correspondence / monitor interface *)
Definition list_eqb {A : Type} (eq : A -> A -> bool) :=
  fix go (a b : list A) : bool :=
    match a, b with
    | [], [] => true
    | x :: a', y :: b' => eq x y && go a' b'
    | _, _ => false
    end.

Definition cfg_eqb (a b : config) : bool := tree_eqb (Obj a) (Obj b).
Definition rev_eqb (a b : revconfig) : bool :=
  list_eqb (fun x y => (fst x =? fst y) && tree_eqb (Obj (snd x)) (Obj (snd y))) a b.

Definition gres_eqb (a b : gres) : bool :=
  match a, b with
  | GOk x, GOk y => tree_eqb x y
  | GNoOption, GNoOption => true
  | GNotMap, GNotMap => true
  | _, _ => false
  end.

Definition obs_eqb (a b : obs) : bool :=
  match a, b with
  | BSet x, BSet y => Bool.eqb x y
  | BGet x, BGet y => gres_eqb x y
  | BCfg c rc, BCfg c' rc' => cfg_eqb c c' && rev_eqb rc rc'
  | BSkip, BSkip => true
  | _, _ => false
  end.

(* a history: initial committed configuration (snap -> object), operations with what the implementation showed *)
Inductive case :=
| CHist (init : config) (steps : list (op * obs)).

Definition canon_cfg (c : config) : config := match canon (Obj c) with Obj l => l | _ => [] end.
Definition canon_obs (b : obs) : obs :=
  match b with
  | BGet (GOk t) => BGet (GOk (canon t))
  | BCfg c rc => BCfg (canon_cfg c) (map (fun x => (fst x, canon_cfg (snd x))) rc)
  | _ => b
  end.
Definition canon_op (o : op) : op :=
  match o with OSet i s ks v => OSet i s ks (canon v) | _ => o end.

Definition mismatch (c : case) : bool :=
  match c with
  | CHist init steps =>
      let ops := map (fun x => canon_op (fst x)) steps in
      let seen := map (fun x => canon_obs (snd x)) steps in
      negb (list_eqb obs_eqb (run (mkState (canon_cfg init) [] []) ops) seen)
  end.

(* the property on the implementation's observed behaviour: the observations are those of the plain nested-map
   reference (reference transactions, snapshots as plain copies) *)
Record rstate := mkRstate { rs_cfg : config; rs_rev : revconfig; rs_txs : list rtx }.

Definition rstep (st : rstate) (o : op) : rstate * obs :=
  match o with
  | ONew => (mkRstate (rs_cfg st) (rs_rev st) (rs_txs st ++ [mkRtx (rs_cfg st) []]), BCfg (rs_cfg st) (rs_rev st))
  | OSet i s ks v =>
      match nth_error (rs_txs st) i with
      | None => (st, BSkip)
      | Some t => match r_set t s ks v with
                  | Some t' => (mkRstate (rs_cfg st) (rs_rev st) (set_nth i t' (rs_txs st)), BSet true)
                  | None => (st, BSet false)
                  end
      end
  | OGet i s ks =>
      match nth_error (rs_txs st) i with
      | None => (st, BSkip)
      | Some t => (st, BGet (r_get t s ks))
      end
  | OCommit i =>
      match nth_error (rs_txs st) i with
      | None => (st, BSkip)
      | Some t => let (c, t') := r_commit t (rs_cfg st) in
                  (mkRstate c (rs_rev st) (set_nth i t' (rs_txs st)), BCfg c (rs_rev st))
      end
  | OSave s r => let rc := save_rev (rs_cfg st) (rs_rev st) s r in
                 (mkRstate (rs_cfg st) rc (rs_txs st), BCfg (rs_cfg st) rc)
  | ORestore s r => let c := restore_rev (rs_cfg st) (rs_rev st) s r in
                    (mkRstate c (rs_rev st) (rs_txs st), BCfg c (rs_rev st))
  | ODiscard s r => let rc := discard_rev (rs_rev st) s r in
                    (mkRstate (rs_cfg st) rc (rs_txs st), BCfg (rs_cfg st) rc)
  end.

Fixpoint rrun (st : rstate) (ops : list op) : list obs :=
  match ops with
  | [] => []
  | o :: r => let (st', b) := rstep st o in b :: rrun st' r
  end.

Definition monitor_fail (c : case) : bool :=
  match c with
  | CHist init steps =>
      let ops := map (fun x => canon_op (fst x)) steps in
      let seen := map (fun x => canon_obs (snd x)) steps in
      negb (list_eqb obs_eqb (rrun (mkRstate (canon_cfg init) [] []) ops) seen)
  end.
