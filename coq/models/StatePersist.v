(* C05 — model of the persisted part of overlord/state: the State/Task/Change/Notice/Warning structs, the operations
   that create objects and hand out identifiers (state.go NewChange/NewTask/NewLane, notices.go AddNotice,
   warning.go AddWarning/OkayWarnings, task.go/change.go setters), and the JSON codec
   (State/Task/Change/Notice/Warning MarshalJSON and UnmarshalJSON, ReadState). No proofs in this file.

   Conventions.
   * identifiers are the integers behind strconv.Itoa(counter); 0 stands for the empty string (no change).
   * a time.Time is [option Z]: None is Go's zero time, [Some ns] an instant given as its offset in nanoseconds from
     the base instant chosen by the driver; the wall clock (time.Now in flatten and unflatten) is an explicit argument.
   * Go maps are association lists without duplicate keys; comparisons are order-insensitive where Go has a map.
   * encoding/json and time.Duration.String/ParseDuration are NOT modelled: a marshalled struct is a record of the same
     abstract values (nil slice = empty slice, omitempty of an empty value = that empty value).
   * the engine-driven side effects of a status change (ready time of the change, change-update notices,
     lastRecordedNoticeStatus) are the subject of C01-C03; here they are taken from the observed run ([effects]) and
     replayed through the same [add_notice] function, so that identifier allocation is still the model's. *)
From Coq Require Import String List NArith ZArith Bool.
Import ListNotations.
Require Import V.lib.Bytes V.lib.Dec.
Open Scope N_scope.

Definition time := option Z.
Definition kv := list (bytes * bytes).

(* change.go: Status constants *)
Definition st_default := 0. Definition st_hold := 1. Definition st_do := 2. Definition st_doing := 3.
Definition st_done := 4. Definition st_abort := 5. Definition st_undo := 6. Definition st_undoing := 7.
Definition st_undone := 8. Definition st_error := 9. Definition st_wait := 10.

(* change.go: Status.Ready *)
Definition status_ready (s : N) : bool := (s =? st_done) || (s =? st_undone) || (s =? st_hold) || (s =? st_error).

(* ------------------------------------------------------------------ in-memory structs (persisted fields only) *)
Record task := mkTask {
  t_id : N; t_kind : bytes; t_summary : bytes; t_status : N; t_waited : N; t_clean : bool;
  t_progress : option (bytes * Z * Z); t_data : kv; t_waits : list N; t_halts : list N; t_lanes : list Z;
  t_log : list bytes; t_change : N; t_spawn : time; t_ready : time; t_doing : Z; t_undoing : Z; t_at : time }.

Record change := mkChange {
  c_id : N; c_kind : bytes; c_summary : bytes; c_status : N; c_clean : bool; c_data : kv; c_tasks : list N;
  c_spawn : time; c_ready : time; c_lrns : N }.

Record notice := mkNotice {
  n_id : N; n_uid : option N; n_type : bytes; n_key : bytes; n_first : Z; n_lastocc : Z; n_lastrep : Z;
  n_occ : N; n_data : kv; n_repeat : Z; n_expire : Z }.

Record warning := mkWarning {
  w_msg : bytes; w_first : Z; w_lastadded : Z; w_lastshown : time; w_expire : Z; w_repeat : Z }.

Record state := mkState {
  s_data : kv; s_changes : list change; s_tasks : list task; s_warnings : list warning; s_notices : list notice;
  s_last_change : N; s_last_task : N; s_last_lane : N; s_last_notice : N; s_lnts : time }.

(* the fields of the Go structs that the records above stand for, in declaration order, and the ones that are
   runtime-only by design; proofs/StatePersistProofs.v checks them against gen/PersistFields.v *)
Definition task_persisted : list bytes := map bs
  ["id"; "kind"; "summary"; "status"; "waitedStatus"; "clean"; "progress"; "data"; "waitTasks"; "haltTasks"; "lanes";
   "log"; "change"; "spawnTime"; "readyTime"; "doingTime"; "undoingTime"; "atTime"]%string.
Definition task_runtime : list bytes := map bs ["state"]%string.
Definition change_persisted : list bytes := map bs
  ["id"; "kind"; "summary"; "status"; "clean"; "data"; "taskIDs"; "lastRecordedNoticeStatus"; "spawnTime"; "readyTime"]%string.
Definition change_runtime : list bytes := map bs ["state"; "ready"; "lastObservedStatus"; "aborting"]%string.
Definition notice_persisted : list bytes := map bs
  ["id"; "userID"; "noticeType"; "key"; "firstOccurred"; "lastOccurred"; "lastRepeated"; "occurrences"; "lastData";
   "repeatAfter"; "expireAfter"]%string.
Definition warning_persisted : list bytes := map bs
  ["message"; "firstAdded"; "lastAdded"; "lastShown"; "expireAfter"; "repeatAfter"]%string.
Definition state_persisted : list bytes := map bs
  ["lastTaskId"; "lastChangeId"; "lastLaneId"; "lastNoticeId"; "lastNoticeTimestamp"; "data"; "changes"; "tasks";
   "warnings"; "notices"]%string.
Definition state_runtime : list bytes := map bs
  ["mu"; "muC"; "lastHandlerId"; "backend"; "noticeCond"; "modified"; "cache"; "pendingChangeByAttr"; "taskHandlers";
   "changeHandlers"]%string.

Definition empty_state : state := mkState [] [] [] [] [] 0 0 0 0 None.

(* ------------------------------------------------------------------ small helpers *)
Fixpoint kv_set (k v : bytes) (m : kv) : kv :=
  match m with
  | [] => [(k, v)]
  | (k', v') :: r => if beq k k' then (k, v) :: r else (k', v') :: kv_set k v r
  end.
Definition kv_del (k : bytes) (m : kv) : kv := filter (fun e => negb (beq k (fst e))) m.
Definition kv_has (k : bytes) (m : kv) : bool := existsb (fun e => beq k (fst e)) m.

(* task.go: addOnce *)
Definition add_once (l : list N) (x : N) : list N := if existsb (N.eqb x) l then l else l ++ [x].

Definition upd_task (id : N) (f : task -> task) (s : state) : state :=
  mkState (s_data s) (s_changes s) (map (fun t => if t_id t =? id then f t else t) (s_tasks s)) (s_warnings s)
    (s_notices s) (s_last_change s) (s_last_task s) (s_last_lane s) (s_last_notice s) (s_lnts s).
Definition upd_change (id : N) (f : change -> change) (s : state) : state :=
  mkState (s_data s) (map (fun c => if c_id c =? id then f c else c) (s_changes s)) (s_tasks s) (s_warnings s)
    (s_notices s) (s_last_change s) (s_last_task s) (s_last_lane s) (s_last_notice s) (s_lnts s).
Definition find_task (id : N) (s : state) : option task := find (fun t => t_id t =? id) (s_tasks s).
Definition find_change (id : N) (s : state) : option change := find (fun c => c_id c =? id) (s_changes s).

Definition set_t_status (st : N) (t : task) := mkTask (t_id t) (t_kind t) (t_summary t) st (t_waited t) (t_clean t)
  (t_progress t) (t_data t) (t_waits t) (t_halts t) (t_lanes t) (t_log t) (t_change t) (t_spawn t) (t_ready t)
  (t_doing t) (t_undoing t) (t_at t).
Definition set_t_waited (w : N) (t : task) := mkTask (t_id t) (t_kind t) (t_summary t) (t_status t) w (t_clean t)
  (t_progress t) (t_data t) (t_waits t) (t_halts t) (t_lanes t) (t_log t) (t_change t) (t_spawn t) (t_ready t)
  (t_doing t) (t_undoing t) (t_at t).
Definition set_t_progress (p : option (bytes * Z * Z)) (t : task) := mkTask (t_id t) (t_kind t) (t_summary t)
  (t_status t) (t_waited t) (t_clean t) p (t_data t) (t_waits t) (t_halts t) (t_lanes t) (t_log t) (t_change t)
  (t_spawn t) (t_ready t) (t_doing t) (t_undoing t) (t_at t).
Definition set_t_data (d : kv) (t : task) := mkTask (t_id t) (t_kind t) (t_summary t) (t_status t) (t_waited t)
  (t_clean t) (t_progress t) d (t_waits t) (t_halts t) (t_lanes t) (t_log t) (t_change t) (t_spawn t) (t_ready t)
  (t_doing t) (t_undoing t) (t_at t).
Definition set_t_waits (l : list N) (t : task) := mkTask (t_id t) (t_kind t) (t_summary t) (t_status t) (t_waited t)
  (t_clean t) (t_progress t) (t_data t) l (t_halts t) (t_lanes t) (t_log t) (t_change t) (t_spawn t) (t_ready t)
  (t_doing t) (t_undoing t) (t_at t).
Definition set_t_halts (l : list N) (t : task) := mkTask (t_id t) (t_kind t) (t_summary t) (t_status t) (t_waited t)
  (t_clean t) (t_progress t) (t_data t) (t_waits t) l (t_lanes t) (t_log t) (t_change t) (t_spawn t) (t_ready t)
  (t_doing t) (t_undoing t) (t_at t).
Definition set_t_lanes (l : list Z) (t : task) := mkTask (t_id t) (t_kind t) (t_summary t) (t_status t) (t_waited t)
  (t_clean t) (t_progress t) (t_data t) (t_waits t) (t_halts t) l (t_log t) (t_change t) (t_spawn t) (t_ready t)
  (t_doing t) (t_undoing t) (t_at t).
Definition set_t_log (l : list bytes) (t : task) := mkTask (t_id t) (t_kind t) (t_summary t) (t_status t) (t_waited t)
  (t_clean t) (t_progress t) (t_data t) (t_waits t) (t_halts t) (t_lanes t) l (t_change t) (t_spawn t) (t_ready t)
  (t_doing t) (t_undoing t) (t_at t).
Definition set_t_change (c : N) (t : task) := mkTask (t_id t) (t_kind t) (t_summary t) (t_status t) (t_waited t)
  (t_clean t) (t_progress t) (t_data t) (t_waits t) (t_halts t) (t_lanes t) (t_log t) c (t_spawn t) (t_ready t)
  (t_doing t) (t_undoing t) (t_at t).
Definition set_t_ready (r : time) (t : task) := mkTask (t_id t) (t_kind t) (t_summary t) (t_status t) (t_waited t)
  (t_clean t) (t_progress t) (t_data t) (t_waits t) (t_halts t) (t_lanes t) (t_log t) (t_change t) (t_spawn t) r
  (t_doing t) (t_undoing t) (t_at t).
Definition set_t_doing (d u : Z) (t : task) := mkTask (t_id t) (t_kind t) (t_summary t) (t_status t) (t_waited t)
  (t_clean t) (t_progress t) (t_data t) (t_waits t) (t_halts t) (t_lanes t) (t_log t) (t_change t) (t_spawn t)
  (t_ready t) d u (t_at t).
Definition set_t_at (a : time) (t : task) := mkTask (t_id t) (t_kind t) (t_summary t) (t_status t) (t_waited t)
  (t_clean t) (t_progress t) (t_data t) (t_waits t) (t_halts t) (t_lanes t) (t_log t) (t_change t) (t_spawn t)
  (t_ready t) (t_doing t) (t_undoing t) a.

Definition set_c_status (st : N) (c : change) := mkChange (c_id c) (c_kind c) (c_summary c) st (c_clean c) (c_data c)
  (c_tasks c) (c_spawn c) (c_ready c) (c_lrns c).
Definition set_c_data (d : kv) (c : change) := mkChange (c_id c) (c_kind c) (c_summary c) (c_status c) (c_clean c) d
  (c_tasks c) (c_spawn c) (c_ready c) (c_lrns c).
Definition set_c_tasks (l : list N) (c : change) := mkChange (c_id c) (c_kind c) (c_summary c) (c_status c) (c_clean c)
  (c_data c) l (c_spawn c) (c_ready c) (c_lrns c).
Definition set_c_ready (r : time) (c : change) := mkChange (c_id c) (c_kind c) (c_summary c) (c_status c) (c_clean c)
  (c_data c) (c_tasks c) (c_spawn c) r (c_lrns c).
Definition set_c_lrns (l : N) (c : change) := mkChange (c_id c) (c_kind c) (c_summary c) (c_status c) (c_clean c)
  (c_data c) (c_tasks c) (c_spawn c) (c_ready c) l.

Definition set_s_data (d : kv) (s : state) := mkState d (s_changes s) (s_tasks s) (s_warnings s) (s_notices s)
  (s_last_change s) (s_last_task s) (s_last_lane s) (s_last_notice s) (s_lnts s).
Definition set_s_warnings (w : list warning) (s : state) := mkState (s_data s) (s_changes s) (s_tasks s) w (s_notices s)
  (s_last_change s) (s_last_task s) (s_last_lane s) (s_last_notice s) (s_lnts s).

(* ------------------------------------------------------------------ notices.go *)
Definition change_update_b : bytes := bs "change-update".
Definition notice_types : list bytes := map bs
  ["change-update"; "warning"; "refresh-inhibit"; "snap-run-inhibit"; "interfaces-requests-prompt";
   "interfaces-requests-rule-update"]%string.

(* short names used by the generated case files (a string literal is expensive to elaborate) *)
Definition nt (i : N) : bytes := nth (N.to_nat i) notice_types [].
Definition kind_b : bytes := bs "kind".
Definition str_table : list bytes := map bs ["i"; "r"; "a"; "b c"; "<&"; "rm"; "k"; "s-s"; "z"; "y"; "INFO"; "ERROR"; "1"; "2"; "3"; "-"; "key"; "x y"; "true"]%string.
Definition sx (i : N) : bytes := nth (N.to_nat i) str_table [].
(* an instant or duration given as minutes and nanoseconds *)
Definition tm (m ns : Z) : Z := (m * 60000000000 + ns)%Z.

(* ValidateNotice *)
Definition validate_notice (ty key : bytes) : bool :=
  existsb (beq ty) notice_types && negb (is_nil_b key) && (N.of_nat (length key) <=? 256)
  && (negb (beq ty (bs "refresh-inhibit")) || beq key (bs "-")).

Definition default_notice_expire : Z := (7 * 24 * 3600 * 1000000000)%Z.

Definition opt_N_eqb (a b : option N) : bool :=
  match a, b with Some x, Some y => x =? y | None, None => true | _, _ => false end.
(* noticeKey equality: (hasUserID, userID, type, key) *)
Definition same_nkey (uid : option N) (ty key : bytes) (n : notice) : bool :=
  opt_N_eqb uid (n_uid n) && beq ty (n_type n) && beq key (n_key n).

(* time.Time.After against a possibly zero time *)
Definition after_t (a : Z) (b : time) : bool := match b with None => true | Some b' => (b' <? a)%Z end.

(* AddNotice: result state, returned id, whether a new notice (hence a new identifier) was created.
   [explicit] is options.Time (None = unset), [now] the reading of timeNow. *)
Definition add_notice (uid : option N) (ty key : bytes) (data : kv) (repeat : Z) (explicit : time) (now : Z)
    (s : state) : state * N * bool :=
  if negb (validate_notice ty key) then (s, 0, false) else
  let '(now', lnts') :=
    match explicit with
    | Some t => (t, s_lnts s)
    | None => let n' := if after_t now (s_lnts s) then now
                        else match s_lnts s with Some l => (l + 1)%Z | None => now end in
              (n', Some n')
    end in
  match find (same_nkey uid ty key) (s_notices s) with
  | None =>
      let id := s_last_notice s + 1 in
      let n := mkNotice id uid ty key now' now' now' 1 data repeat default_notice_expire in
      (mkState (s_data s) (s_changes s) (s_tasks s) (s_warnings s) (s_notices s ++ [n]) (s_last_change s) (s_last_task s)
         (s_last_lane s) id lnts', id, true)
  | Some old =>
      let rep := if (repeat =? 0)%Z || (n_lastrep old + repeat <? now')%Z then now' else n_lastrep old in
      let n := mkNotice (n_id old) (n_uid old) (n_type old) (n_key old) (n_first old) now' rep (n_occ old + 1) data
                 repeat (n_expire old) in
      (mkState (s_data s) (s_changes s) (s_tasks s) (s_warnings s)
         (map (fun x => if same_nkey uid ty key x then n else x) (s_notices s))
         (s_last_change s) (s_last_task s) (s_last_lane s) (s_last_notice s) lnts', n_id old, false)
  end.

(* Notice.expired(now) *)
Definition notice_expired (now : Z) (n : notice) : bool := (n_lastocc n + n_expire n <? now)%Z.

(* ------------------------------------------------------------------ warning.go *)
Definition default_warning_expire : Z := (28 * 24 * 3600 * 1000000000)%Z.

(* AddWarning *)
Definition add_warning (msg : bytes) (repeat : Z) (explicit : time) (now : Z) (s : state) : state :=
  let now' := match explicit with Some t => t | None => now end in
  if existsb (fun w => beq msg (w_msg w)) (s_warnings s) then
    set_s_warnings (map (fun w => if beq msg (w_msg w)
                                  then mkWarning (w_msg w) (w_first w) now' (w_lastshown w) (w_expire w) repeat
                                  else w) (s_warnings s)) s
  else set_s_warnings (s_warnings s ++ [mkWarning msg now' now' None default_warning_expire repeat]) s.

(* Warning.ExpiredBefore(now) *)
Definition warning_expired (now : Z) (w : warning) : bool := (w_lastadded w + w_expire w <? now)%Z.
(* Warning.ShowAfter(t) *)
Definition show_after (t : Z) (w : warning) : bool :=
  match w_lastshown w with
  | None => negb (t <? w_first w)%Z
  | Some ls => (ls + w_repeat w <? t)%Z
  end.
(* OkayWarnings(t) *)
Definition okay_warnings (t : Z) (s : state) : state :=
  set_s_warnings (map (fun w => if show_after t w
                                then mkWarning (w_msg w) (w_first w) (w_lastadded w) (Some t) (w_expire w) (w_repeat w)
                                else w) (s_warnings s)) s.

(* ------------------------------------------------------------------ state.go / task.go / change.go operations *)
(* NewChange: counter, newChange, change-update notice with data kind=<kind> *)
Definition new_change (kind summary : bytes) (now : Z) (s : state) : state * N * option N :=
  let id := s_last_change s + 1 in
  let c := mkChange id kind summary st_default false [] [] (Some now) None st_default in
  let s1 := mkState (s_data s) (s_changes s ++ [c]) (s_tasks s) (s_warnings s) (s_notices s) id (s_last_task s)
              (s_last_lane s) (s_last_notice s) (s_lnts s) in
  let '(s2, nid, fresh) := add_notice None change_update_b (dec id) [(bs "kind", kind)] 0 None now s1 in
  (s2, id, if fresh then Some nid else None).

(* NewTask *)
Definition new_task (kind summary : bytes) (now : Z) (s : state) : state * N :=
  let id := s_last_task s + 1 in
  let t := mkTask id kind summary st_default st_default false None [] [] [] [] [] 0 (Some now) None 0%Z 0%Z None in
  (mkState (s_data s) (s_changes s) (s_tasks s ++ [t]) (s_warnings s) (s_notices s) (s_last_change s) id (s_last_lane s)
     (s_last_notice s) (s_lnts s), id).

(* NewLane *)
Definition new_lane (s : state) : state * N :=
  let id := s_last_lane s + 1 in
  (mkState (s_data s) (s_changes s) (s_tasks s) (s_warnings s) (s_notices s) (s_last_change s) (s_last_task s) id
     (s_last_notice s) (s_lnts s), id).

(* Change.AddTask (the driver never adds a task that already has a change: the Go code panics) *)
Definition add_task (c t : N) (s : state) : state :=
  match find_task t s with
  | Some tk => if t_change tk =? 0
               then upd_change c (fun ch => set_c_tasks (add_once (c_tasks ch) t) ch) (upd_task t (set_t_change c) s)
               else s
  | None => s
  end.

(* Task.WaitFor *)
Definition wait_for (t another : N) (s : state) : state :=
  upd_task another (fun a => set_t_halts (add_once (t_halts a) t) a)
    (upd_task t (fun x => set_t_waits (add_once (t_waits x) another) x) s).

(* Task.JoinLane *)
Definition join_lane (t : N) (lane : Z) (s : state) : state := upd_task t (fun x => set_t_lanes (t_lanes x ++ [lane]) x) s.

(* customData.set with a non-nil value whose JSON is [v]; Clear / Set(key, nil) *)
Definition set_data (target id : N) (k v : bytes) (s : state) : state :=
  if target =? 0 then set_s_data (kv_set k v (s_data s)) s
  else if target =? 1 then upd_change id (fun c => set_c_data (kv_set k v (c_data c)) c) s
  else upd_task id (fun t => set_t_data (kv_set k v (t_data t)) t) s.
Definition del_data (target id : N) (k : bytes) (s : state) : state :=
  if target =? 0 then set_s_data (kv_del k (s_data s)) s
  else if target =? 1 then upd_change id (fun c => set_c_data (kv_del k (c_data c)) c) s
  else upd_task id (fun t => set_t_data (kv_del k (t_data t)) t) s.

(* Task.At *)
Definition task_at (t : N) (w : time) (s : state) : state :=
  upd_task t (fun x => match w with
                       | Some _ => if status_ready (t_status x) then x else set_t_at w x
                       | None => set_t_at None x
                       end) s.

(* Task.addLog: at most 10 entries are kept *)
Definition add_log (l : list bytes) (m : bytes) : list bytes :=
  (if (9 <? length l)%nat then skipn (length l - 9) l else l) ++ [m].
Definition task_log (t : N) (m : bytes) (s : state) : state := upd_task t (fun x => set_t_log (add_log (t_log x) m) x) s.

(* Task.SetProgress *)
Definition set_progress (t : N) (label : bytes) (done total : Z) (s : state) : state :=
  upd_task t (set_t_progress (if (total <=? 0)%Z || (total <? done)%Z then None else Some (label, done, total))) s.

(* accumulateDoingTime / accumulateUndoingTime *)
Definition acc_doing (t : N) (d u : Z) (s : state) : state :=
  upd_task t (fun x => set_t_doing (t_doing x + d)%Z (t_undoing x + u)%Z x) s.

(* what the engine did as a consequence of a status change, as observed by the driver (see the header) *)
Record effects := mkEff { e_chg_ready : bool; e_notices : N; e_lrns : N }.

Fixpoint repeat_notice (n : nat) (key kind : bytes) (now : Z) (s : state) : state * list N :=
  match n with
  | O => (s, [])
  | S m => let '(s1, nid, fresh) := add_notice None change_update_b key [(bs "kind", kind)] 0 None now s in
           let '(s2, ids) := repeat_notice m key kind now s1 in
           (s2, if fresh then nid :: ids else ids)
  end.

Definition apply_effects (c : N) (e : effects) (now : Z) (s : state) : state * list N :=
  match find_change c s with
  | None => (s, [])
  | Some ch =>
      let s1 := if e_chg_ready e
                then upd_change c (fun x => match c_ready x with None => set_c_ready (Some now) x | Some _ => x end) s
                else s in
      let '(s2, ids) := repeat_notice (N.to_nat (e_notices e)) (dec c) (c_kind ch) now s1 in
      (upd_change c (set_c_lrns (e_lrns e)) s2, ids)
  end.

(* Task.changeStatus: status, ready time *)
Definition change_status (old new : N) (now : Z) (x : task) : task :=
  if old =? new then x
  else let x1 := set_t_status new x in
       if negb (status_ready old) && status_ready new then set_t_ready (Some now) x1 else x1.

(* Task.SetStatus (Abort -> Done is ignored) *)
Definition task_set_status (t new : N) (now : Z) (e : effects) (s : state) : state * list N :=
  match find_task t s with
  | None => (s, [])
  | Some x =>
      if (new =? st_done) && (t_status x =? st_abort) then (s, [])
      else if t_status x =? new then (s, [])
      else apply_effects (t_change x) e now (upd_task t (change_status (t_status x) new now) s)
  end.

(* Task.SetToWait *)
Definition task_set_to_wait (t waited : N) (now : Z) (e : effects) (s : state) : state * list N :=
  match find_task t s with
  | None => (s, [])
  | Some x =>
      if t_status x =? st_abort then (s, [])
      else let s1 := upd_task t (set_t_waited waited) s in
           if t_status x =? st_wait then (s1, [])
           else apply_effects (t_change x) e now (upd_task t (change_status (t_status x) st_wait now) s1)
  end.

(* Change.SetStatus: explicit status, markReady, then the observed notification effects *)
Definition change_set_status (c new : N) (now : Z) (e : effects) (s : state) : state * list N :=
  let s1 := upd_change c (fun x => let x1 := set_c_status new x in
                                   if status_ready new
                                   then match c_ready x1 with None => set_c_ready (Some now) x1 | Some _ => x1 end
                                   else x1) s in
  apply_effects c (mkEff false (e_notices e) (e_lrns e)) now s1.

(* what State.Prune removed (observed; the decision itself is C09): changes, tasks, notices by id, warnings by message *)
Definition prune_removed (rc rt rn : list N) (rw : list bytes) (s : state) : state :=
  mkState (s_data s)
    (filter (fun c => negb (existsb (N.eqb (c_id c)) rc)) (s_changes s))
    (filter (fun t => negb (existsb (N.eqb (t_id t)) rt)) (s_tasks s))
    (filter (fun w => negb (existsb (beq (w_msg w)) rw)) (s_warnings s))
    (filter (fun n => negb (existsb (N.eqb (n_id n)) rn)) (s_notices s))
    (s_last_change s) (s_last_task s) (s_last_lane s) (s_last_notice s) (s_lnts s).

(* ------------------------------------------------------------------ the JSON codec *)
(* marshalledTask / marshalledChange / jsonNotice / jsonWarning / marshalledState *)
Record mtask := mkMTask {
  mt_id : N; mt_kind : bytes; mt_summary : bytes; mt_status : N; mt_waited : N; mt_clean : bool;
  mt_progress : option (bytes * Z * Z); mt_data : kv; mt_waits : list N; mt_halts : list N; mt_lanes : list Z;
  mt_log : list bytes; mt_change : N; mt_spawn : time; mt_ready : option Z; mt_doing : Z; mt_undoing : Z;
  mt_at : option Z }.
Record mchange := mkMChange {
  mc_id : N; mc_kind : bytes; mc_summary : bytes; mc_status : N; mc_clean : bool; mc_data : kv; mc_tasks : list N;
  mc_spawn : time; mc_ready : option Z; mc_lrns : N }.
Record jnotice := mkJNotice {
  jn_id : N; jn_uid : option N; jn_type : bytes; jn_key : bytes; jn_first : Z; jn_lastocc : Z; jn_lastrep : Z;
  jn_occ : N; jn_data : kv; jn_repeat : option Z; jn_expire : option Z }.
Record jwarning := mkJWarning {
  jw_msg : bytes; jw_first : Z; jw_lastadded : Z; jw_lastshown : option Z; jw_expire : Z; jw_repeat : Z }.
Record mstate := mkMState {
  ms_data : kv; ms_changes : list mchange; ms_tasks : list mtask; ms_warnings : list jwarning;
  ms_notices : list jnotice; ms_last_change : N; ms_last_task : N; ms_last_lane : N; ms_last_notice : N;
  ms_lnts : time }.

(* Task.MarshalJSON: ready-time and at-time become nil pointers when zero *)
Definition marshal_task (t : task) : mtask :=
  mkMTask (t_id t) (t_kind t) (t_summary t) (t_status t) (t_waited t) (t_clean t) (t_progress t) (t_data t) (t_waits t)
    (t_halts t) (t_lanes t) (t_log t) (t_change t) (t_spawn t) (t_ready t) (t_doing t) (t_undoing t) (t_at t).
(* a data entry whose JSON value is the literal null decodes to a nil *json.RawMessage: customData.has/get treat it
   as absent *)
Definition null_b : bytes := bs "null".
Definition decode_data (d : kv) : kv := filter (fun e => negb (beq (snd e) null_b)) d.
(* Task.UnmarshalJSON into a fresh Task: waited-status defaults to Done *)
Definition unmarshal_task (m : mtask) : task :=
  mkTask (mt_id m) (mt_kind m) (mt_summary m) (mt_status m)
    (if mt_waited m =? st_default then st_done else mt_waited m)
    (mt_clean m) (mt_progress m) (decode_data (mt_data m)) (mt_waits m) (mt_halts m) (mt_lanes m) (mt_log m)
    (mt_change m) (mt_spawn m) (mt_ready m) (mt_doing m) (mt_undoing m) (mt_at m).

Definition marshal_change (c : change) : mchange :=
  mkMChange (c_id c) (c_kind c) (c_summary c) (c_status c) (c_clean c) (c_data c) (c_tasks c) (c_spawn c) (c_ready c)
    (c_lrns c).
Definition unmarshal_change (m : mchange) : change :=
  mkChange (mc_id m) (mc_kind m) (mc_summary m) (mc_status m) (mc_clean m) (decode_data (mc_data m)) (mc_tasks m)
    (mc_spawn m) (mc_ready m) (mc_lrns m).

(* Notice.MarshalJSON: repeat-after / expire-after are written only when non-zero *)
Definition marshal_notice (n : notice) : jnotice :=
  mkJNotice (n_id n) (n_uid n) (n_type n) (n_key n) (n_first n) (n_lastocc n) (n_lastrep n) (n_occ n) (n_data n)
    (if (n_repeat n =? 0)%Z then None else Some (n_repeat n))
    (if (n_expire n =? 0)%Z then None else Some (n_expire n)).
Definition unmarshal_notice (j : jnotice) : notice :=
  mkNotice (jn_id j) (jn_uid j) (jn_type j) (jn_key j) (jn_first j) (jn_lastocc j) (jn_lastrep j) (jn_occ j) (jn_data j)
    (match jn_repeat j with Some d => d | None => 0%Z end) (match jn_expire j with Some d => d | None => 0%Z end).

Definition marshal_warning (w : warning) : jwarning :=
  mkJWarning (w_msg w) (w_first w) (w_lastadded w) (w_lastshown w) (w_expire w) (w_repeat w).
Definition unmarshal_warning (j : jwarning) : warning :=
  mkWarning (jw_msg j) (jw_first j) (jw_lastadded j) (jw_lastshown j) (jw_expire j) (jw_repeat j).

(* State.MarshalJSON at wall-clock [now]: flattenWarnings / flattenNotices drop what has expired *)
Definition persist (now : Z) (s : state) : mstate :=
  mkMState (s_data s) (map marshal_change (s_changes s)) (map marshal_task (s_tasks s))
    (map marshal_warning (filter (fun w => negb (warning_expired now w)) (s_warnings s)))
    (map marshal_notice (filter (fun n => negb (notice_expired now n)) (s_notices s)))
    (s_last_change s) (s_last_task s) (s_last_lane s) (s_last_notice s) (s_lnts s).

(* ReadState / State.UnmarshalJSON at wall-clock [now]: unflattenWarnings / unflattenNotices drop what has expired *)
Definition reload (now : Z) (m : mstate) : state :=
  mkState (decode_data (ms_data m)) (map unmarshal_change (ms_changes m)) (map unmarshal_task (ms_tasks m))
    (filter (fun w => negb (warning_expired now w)) (map unmarshal_warning (ms_warnings m)))
    (filter (fun n => negb (notice_expired now n)) (map unmarshal_notice (ms_notices m)))
    (ms_last_change m) (ms_last_task m) (ms_last_lane m) (ms_last_notice m) (ms_lnts m).

(* ------------------------------------------------------------------ operation sequences *)
Inductive op :=
| ONewChange (kind summary : bytes) (now : Z)
| ONewTask (kind summary : bytes) (now : Z)
| ONewLane
| OAddTask (c t : N)
| OWaitFor (t another : N)
| OJoinLane (t : N) (lane : Z)
| OSetData (target id : N) (k v : bytes)
| ODelData (target id : N) (k : bytes)
| OAt (t : N) (w : time)
| OLog (t : N) (m : bytes)
| OProgress (t : N) (label : bytes) (done total : Z)
| OAccTime (t : N) (d u : Z)
| OSetStatus (t new : N) (now : Z) (e : effects)
| OSetToWait (t waited : N) (now : Z) (e : effects)
| OChgSetStatus (c new : N) (now : Z) (e : effects)
| OAddNotice (uid : option N) (ty key : bytes) (data : kv) (repeat : Z) (explicit : time) (now : Z)
| OAddWarning (msg : bytes) (repeat : Z) (explicit : time) (now : Z)
| OOkayWarnings (t : Z)
| OPrune (rc rt rn : list N) (rw : list bytes)
| OReload (now_save now_load : Z).

(* identifiers handed out: kind 0 = change, 1 = task, 2 = lane, 3 = notice *)
Definition issued := list (N * N).
Definition notice_ids (l : list N) : issued := map (fun i => (3, i)) l.

Definition step (s : state) (o : op) : state * issued :=
  match o with
  | ONewChange k su now => let '(s', id, nid) := new_change k su now s in
                           (s', (0, id) :: match nid with Some n => [(3, n)] | None => [] end)
  | ONewTask k su now => let '(s', id) := new_task k su now s in (s', [(1, id)])
  | ONewLane => let '(s', id) := new_lane s in (s', [(2, id)])
  | OAddTask c t => (add_task c t s, [])
  | OWaitFor t a => (wait_for t a s, [])
  | OJoinLane t l => (join_lane t l s, [])
  | OSetData tg id k v => (set_data tg id k v s, [])
  | ODelData tg id k => (del_data tg id k s, [])
  | OAt t w => (task_at t w s, [])
  | OLog t m => (task_log t m s, [])
  | OProgress t l d tot => (set_progress t l d tot s, [])
  | OAccTime t d u => (acc_doing t d u s, [])
  | OSetStatus t new now e => let '(s', ids) := task_set_status t new now e s in (s', notice_ids ids)
  | OSetToWait t w now e => let '(s', ids) := task_set_to_wait t w now e s in (s', notice_ids ids)
  | OChgSetStatus c new now e => let '(s', ids) := change_set_status c new now e s in (s', notice_ids ids)
  | OAddNotice uid ty key data rep ex now =>
      let '(s', id, fresh) := add_notice uid ty key data rep ex now s in (s', if fresh then [(3, id)] else [])
  | OAddWarning m rep ex now => (add_warning m rep ex now s, [])
  | OOkayWarnings t => (okay_warnings t s, [])
  | OPrune rc rt rn rw => (prune_removed rc rt rn rw s, [])
  | OReload n1 n2 => (reload n2 (persist n1 s), [])
  end.

(* run: final state, identifiers handed out in order, and the state just before each reload *)
Fixpoint run (s : state) (ops : list op) : state * issued * list state :=
  match ops with
  | [] => (s, [], [])
  | o :: r => let '(s1, i1) := step s o in
              let '(s2, i2, b2) := run s1 r in
              (s2, i1 ++ i2, match o with OReload _ _ => s :: b2 | _ => b2 end)
  end.

(* ------------------------------------------------------------------ comparison of states (order-insensitive where Go has a map) *)
Definition time_eqb (a b : time) : bool :=
  match a, b with Some x, Some y => (x =? y)%Z | None, None => true | _, _ => false end.
Definition kv1_eqb (a b : bytes * bytes) : bool := beq (fst a) (fst b) && beq (snd a) (snd b).
Fixpoint list_eqb {A} (e : A -> A -> bool) (a b : list A) : bool :=
  match a, b with
  | [], [] => true
  | x :: a', y :: b' => e x y && list_eqb e a' b'
  | _, _ => false
  end.
(* equal as sets of entries (keys are unique in both) *)
Definition set_eqb {A} (e : A -> A -> bool) (a b : list A) : bool :=
  (length a =? length b)%nat && forallb (fun x => existsb (e x) b) a && forallb (fun y => existsb (fun x => e x y) a) b.
Definition kv_eqb (a b : kv) : bool := set_eqb kv1_eqb a b.
Definition progress_eqb (a b : option (bytes * Z * Z)) : bool :=
  match a, b with
  | Some (l1, d1, t1), Some (l2, d2, t2) => beq l1 l2 && (d1 =? d2)%Z && (t1 =? t2)%Z
  | None, None => true
  | _, _ => false
  end.

(* [wn] normalises the waited status for the comparison: Task.UnmarshalJSON turns Default into Done *)
Definition task_eqb (wn : N -> N) (a b : task) : bool :=
  (t_id a =? t_id b) && beq (t_kind a) (t_kind b) && beq (t_summary a) (t_summary b) && (t_status a =? t_status b)
  && (wn (t_waited a) =? wn (t_waited b)) && Bool.eqb (t_clean a) (t_clean b) && progress_eqb (t_progress a) (t_progress b)
  && kv_eqb (t_data a) (t_data b) && list_eqb N.eqb (t_waits a) (t_waits b) && list_eqb N.eqb (t_halts a) (t_halts b)
  && list_eqb Z.eqb (t_lanes a) (t_lanes b) && list_eqb beq (t_log a) (t_log b) && (t_change a =? t_change b)
  && time_eqb (t_spawn a) (t_spawn b) && time_eqb (t_ready a) (t_ready b) && (t_doing a =? t_doing b)%Z
  && (t_undoing a =? t_undoing b)%Z && time_eqb (t_at a) (t_at b).
Definition change_eqb (a b : change) : bool :=
  (c_id a =? c_id b) && beq (c_kind a) (c_kind b) && beq (c_summary a) (c_summary b) && (c_status a =? c_status b)
  && Bool.eqb (c_clean a) (c_clean b) && kv_eqb (c_data a) (c_data b) && list_eqb N.eqb (c_tasks a) (c_tasks b)
  && time_eqb (c_spawn a) (c_spawn b) && time_eqb (c_ready a) (c_ready b) && (c_lrns a =? c_lrns b).
Definition notice_eqb (a b : notice) : bool :=
  (n_id a =? n_id b) && opt_N_eqb (n_uid a) (n_uid b) && beq (n_type a) (n_type b) && beq (n_key a) (n_key b)
  && (n_first a =? n_first b)%Z && (n_lastocc a =? n_lastocc b)%Z && (n_lastrep a =? n_lastrep b)%Z
  && (n_occ a =? n_occ b) && kv_eqb (n_data a) (n_data b) && (n_repeat a =? n_repeat b)%Z && (n_expire a =? n_expire b)%Z.
Definition warning_eqb (a b : warning) : bool :=
  beq (w_msg a) (w_msg b) && (w_first a =? w_first b)%Z && (w_lastadded a =? w_lastadded b)%Z
  && time_eqb (w_lastshown a) (w_lastshown b) && (w_expire a =? w_expire b)%Z && (w_repeat a =? w_repeat b)%Z.
Definition state_eqb (wn : N -> N) (a b : state) : bool :=
  kv_eqb (s_data a) (s_data b) && set_eqb change_eqb (s_changes a) (s_changes b)
  && set_eqb (task_eqb wn) (s_tasks a) (s_tasks b) && set_eqb warning_eqb (s_warnings a) (s_warnings b)
  && set_eqb notice_eqb (s_notices a) (s_notices b) && (s_last_change a =? s_last_change b)
  && (s_last_task a =? s_last_task b) && (s_last_lane a =? s_last_lane b) && (s_last_notice a =? s_last_notice b)
  && time_eqb (s_lnts a) (s_lnts b).

Definition issued_eqb (a b : issued) : bool := list_eqb (fun x y => (fst x =? fst y) && (snd x =? snd y)) a b.

(* ------------------------------------------------------------------ correspondence interface *)
(* input: the operations (with the observed engine effects and prune removals); observed: the identifiers the
   implementation handed out, for every reload the projection of the State before saving and of the State returned by
   ReadState, and the projection of the final State *)
(* [cache_gone]: for every reload, whether a value put into State.Cache (not persisted, by design) before the save is absent from
   the checkpoint payload and from the State returned by ReadState *)
Inductive case := Case (ops : list op) (ids : issued) (reloads : list (state * state)) (final : state) (cache_gone : list bool).

Definition id_fn (x : N) : N := x.
Definition mismatch (c : case) : bool :=
  match c with
  | Case ops ids reloads final cache_gone =>
      let '(sf, iss, befores) := run empty_state ops in
      negb (issued_eqb iss ids && state_eqb id_fn sf final && list_eqb (state_eqb id_fn) befores (map fst reloads))
  end.

(* the property on the implementation's observed behaviour, written without the model's transition functions:
   (1) per kind, every identifier handed out is strictly greater than all handed out before it (across reloads and prunes);
   (2) every reload gives back the saved state: same counters and last-notice timestamp, same changes, tasks, state data,
       and exactly the warnings and notices that had not expired at the (driver's) wall clock 0, with a task's
       waited status compared up to Default = Done and data compared on the entries Has() reports *)
Fixpoint strictly_increasing_from (lo : N) (l : list N) : bool :=
  match l with
  | [] => true
  | x :: r => (lo <? x) && strictly_increasing_from x r
  end.
Definition ids_of_kind (k : N) (l : issued) : list N := map snd (filter (fun p => fst p =? k) l).
Definition ids_ok (l : issued) : bool :=
  forallb (fun k => strictly_increasing_from 0 (ids_of_kind k l)) [0; 1; 2; 3].

Definition waited_norm (w : N) : N := if w =? 0 then 4 else w.
Definition live_warnings (s : state) := filter (fun w => negb (w_lastadded w + w_expire w <? 0)%Z) (s_warnings s).
Definition live_notices (s : state) := filter (fun n => negb (n_lastocc n + n_expire n <? 0)%Z) (s_notices s).
Definition reload_ok (p : state * state) : bool :=
  let (b, a) := p in
  state_eqb waited_norm
    (mkState (s_data b) (s_changes b) (s_tasks b) (live_warnings b) (live_notices b) (s_last_change b) (s_last_task b)
       (s_last_lane b) (s_last_notice b) (s_lnts b)) a.

(* (3) the notices of a state are a map keyed by (user id present?, user id, type, key): in every observed state no two
       notices have the same key (a recurrence after a reload must bump the existing notice, not create a second one) *)
Fixpoint notices_unique (l : list notice) : bool :=
  match l with
  | [] => true
  | n :: r => negb (existsb (fun m => opt_N_eqb (n_uid n) (n_uid m) && beq (n_type n) (n_type m) && beq (n_key n) (n_key m)) r)
              && notices_unique r
  end.

Definition monitor_fail (c : case) : bool :=
  match c with
  | Case ops ids reloads final cache_gone =>
      negb (ids_ok ids && forallb reload_ok reloads
            && forallb (fun p => notices_unique (s_notices (fst p)) && notices_unique (s_notices (snd p))) reloads
            && notices_unique (s_notices final)
            && forallb (fun b => b) cache_gone)      (* (4) the cache is runtime-only: never saved, empty after a load *)
  end.
