(* C34 - model of snap/channel/channel.go, function by function. Executable definitions only; proofs are in
   proofs/ChannelProofs.v. Strings are byte lists (V.lib.Bytes). The risk list and the two defaults Clean
   hard-codes come from gen/ChannelRisks.v (regenerated from the Go source on every run).

   Architecture: carried as an opaque byte string. ParseVerbatim replaces an empty architecture argument by
   arch.DpkgArchitecture(); the model takes that value as the parameter `sys` (the driver observes it). Nothing
   else in the package looks at the architecture except Match, which is outside the property. *)
From Coq Require Import List NArith Bool.
Import ListNotations.
Require Import V.lib.Bytes V.gen.ChannelRisks.
Open Scope N_scope.

Definition slash : N := 47.
Definition is_slash (c : N) : bool := c =? slash.

(* strings.Split(s, "/"): keeps empty components, never returns an empty list *)
Fixpoint split_slash (s : bytes) : list bytes :=
  match s with
  | [] => [[]]
  | c :: r =>
      if is_slash c then [] :: split_slash r
      else match split_slash r with
           | h :: t => (c :: h) :: t
           | [] => [[c]]            (* unreachable *)
           end
  end.

(* strings.FieldsFunc(s, isSlash): drops empty components. '/' is ASCII, so it never occurs inside a multi-byte
   rune and invalid UTF-8 decodes one byte at a time: splitting on the byte is what the rune loop does. *)
Definition fields_slash (s : bytes) : list bytes := filter (fun x => negb (is_nil_b x)) (split_slash s).

(* strings.Join(l, "/") *)
Fixpoint join_slash (l : list bytes) : bytes :=
  match l with
  | [] => []
  | [x] => x
  | x :: r => x ++ slash :: join_slash r
  end.

(* strutil.ListContains(channelRisks, x) *)
Definition is_risk (x : bytes) : bool := existsb (beq x) risks.

Record chan := mkChan { c_arch : bytes; c_name : bytes; c_track : bytes; c_risk : bytes; c_branch : bytes }.

(* ParseVerbatim, second half: the three `if x != nil` blocks. None = error. *)
Definition build (a : bytes) (track risk branch : option bytes) : option chan :=
  let bad_risk := match risk with Some r => negb (is_risk r) | None => false end in
  let bad_track := match track with Some t => is_nil_b t | None => false end in
  let bad_branch := match branch with Some b => is_nil_b b | None => false end in
  if bad_risk || bad_track || bad_branch then None
  else Some (mkChan a []
               (match track with Some t => t | None => [] end)
               (match risk with Some r => r | None => [] end)
               (match branch with Some b => b | None => [] end)).

(* ParseVerbatim(s, architecture) *)
Definition parse_verbatim (sys s a : bytes) : option chan :=
  if is_nil_b s then None
  else
    let a' := if is_nil_b a then sys else a in
    match split_slash s with
    | [t; r; b] => build a' (Some t) (Some r) (Some b)
    | [x; y] => if is_risk x then build a' None (Some x) (Some y) else build a' (Some x) (Some y) None
    | [x] => if is_risk x then build a' None (Some x) None else build a' (Some x) None None
    | _ => None
    end.

(* Channel.Clean *)
Definition clean (c : chan) : chan :=
  let track := if beq (c_track c) default_track then [] else c_track c in
  let risk := if is_nil_b (c_risk c) then default_risk else c_risk c in
  let name := risk in
  let name := if is_nil_b track then name else track ++ slash :: name in
  let name := if is_nil_b (c_branch c) then name else name ++ slash :: c_branch c in
  mkChan (c_arch c) name track risk (c_branch c).

(* Parse(s, architecture) *)
Definition parse (sys s a : bytes) : option chan :=
  match parse_verbatim sys s a with
  | Some c => Some (clean c)
  | None => None
  end.

(* top-level Full(s). None = error *)
Definition full_of_string (s : bytes) : option bytes :=
  if is_nil_b s then Some []
  else match fields_slash s with
       | [] => Some []
       | [a] => if is_risk a then Some (default_track ++ slash :: a) else Some (a ++ slash :: default_risk)
       | [a; b] => if is_risk a then Some (default_track ++ slash :: join_slash [a; b]) else Some (join_slash [a; b])
       | [a; b; c] => Some (join_slash [a; b; c])
       | _ => None
       end.

(* Channel.String and Channel.Full (None = the panic) *)
Definition chan_string (c : chan) : bytes := c_name c.
Definition chan_full (c : chan) : option bytes := full_of_string (c_name c).

Definition verbatim_track_only (c : chan) : bool :=
  negb (is_nil_b (c_track c)) && is_nil_b (c_risk c) && is_nil_b (c_branch c).
Definition verbatim_risk_only (c : chan) : bool :=
  is_nil_b (c_track c) && negb (is_nil_b (c_risk c)) && is_nil_b (c_branch c).

Definition dash : bytes := [45].
Definition hd_comp (s : bytes) : bytes := match split_slash s with h :: _ => h | [] => [] end.

(* Resolve(channel, newChannel). None = error *)
Definition resolve (cur new : bytes) : option bytes :=
  if is_nil_b new then Some cur
  else if is_nil_b cur then Some new
  else match parse_verbatim [] cur dash with
       | None => None
       | Some ch =>
           if is_risk (hd_comp new) && negb (is_nil_b (c_track ch)) then Some (c_track ch ++ slash :: new)
           else Some new
       end.

Inductive pres := POk (r : bytes) | PInvalid | PSwitch.

(* ResolvePinned(track, newChannel) *)
Definition resolve_pinned (track new : bytes) : pres :=
  if is_nil_b track then POk new
  else match parse_verbatim [] track dash with
       | None => PInvalid
       | Some ch =>
           if negb (verbatim_track_only ch) then PInvalid
           else if is_nil_b new then POk track
           else
             let prefix := c_track ch ++ [slash] in
             if is_risk (hd_comp new) && negb (is_nil_b (c_track ch)) then POk (prefix ++ new)
             else if negb (beq new track) && negb (has_prefix prefix new) then PSwitch
             else POk new
       end.

(* overlord/snapstate/snapstate.go: resolveChannel(snapName, oldChannel, newChannel, deviceCtx). What it reads from the
   device model is abstracted to: is the snap the model's kernel / gadget, and the two tracks (empty = not pinned).
   None = error. *)
Definition pinned_for (is_kernel is_gadget : bool) (ktrack gtrack : bytes) : bytes :=
  let p := if is_kernel && negb (is_nil_b ktrack) then ktrack else [] in
  if is_gadget && negb (is_nil_b gtrack) then gtrack else p.

Definition resolve_channel (is_kernel is_gadget : bool) (ktrack gtrack old new : bytes) : option bytes :=
  if is_nil_b new then Some old
  else
    let pinned := pinned_for is_kernel is_gadget ktrack gtrack in
    if is_nil_b pinned then resolve old new
    else match resolve_pinned pinned new with
         | POk r => Some r
         | PInvalid | PSwitch => None
         end.

(* ------------------------------------------------------------------------------------------------------------
   Correspondence interface. Each case is an input with the projected results the real package returned. *)

Definition chan_eqb (x y : chan) : bool :=
  beq (c_arch x) (c_arch y) && beq (c_name x) (c_name y) && beq (c_track x) (c_track y) &&
  beq (c_risk x) (c_risk y) && beq (c_branch x) (c_branch y).

Definition opt_eqb {A} (eq : A -> A -> bool) (x y : option A) : bool :=
  match x, y with
  | Some a, Some b => eq a b
  | None, None => true
  | _, _ => false
  end.

Definition pres_eqb (x y : pres) : bool :=
  match x, y with
  | POk a, POk b => beq a b
  | PInvalid, PInvalid => true
  | PSwitch, PSwitch => true
  | _, _ => false
  end.

Inductive case :=
  (* one string through every unary entry point:
     ParseVerbatim(s,arch); Parse(s,arch); for the parsed channel c: c.Full() (None = panicked), c.Clean(),
     Parse(c.String(),arch); top-level Full(s); and Full applied to the result of Full(s) (None if either call failed) *)
  | CParse (sys s arch : bytes) (o_verbatim o_parse : option chan) (o_full : option bytes)
           (o_clean : option chan) (o_reparse : option chan) (o_fullstr o_fullstr2 : option bytes)
  (* Clean on an arbitrary Channel value: c.Clean(), c.Clean().Clean() *)
  | CClean (c : chan) (o_clean o_clean2 : chan)
  (* Resolve(cur,new) and, as seen by the real parser with architecture `-`: ParseVerbatim(cur), ParseVerbatim(new),
     ParseVerbatim(result) *)
  | CResolve (cur new : bytes) (o_res : option bytes) (o_cur o_new o_resparsed : option chan)
             (o_res2 : option bytes)   (* Resolve(cur, result) when Resolve(cur,new) succeeded, else None *)
  (* ResolvePinned(track,new); ParseVerbatim(result) *)
  | CPinned (track new : bytes) (o_res : pres) (o_resparsed : option chan)
            (o_res2 : pres)   (* ResolvePinned(track, result) when the first call succeeded, else PInvalid *)
  (* snapstate.resolveChannel for a snap that is / is not the model's kernel / gadget, with the model's tracks *)
  | CSnap (is_kernel is_gadget : bool) (ktrack gtrack old new : bytes) (o_res : option bytes).

Definition mismatch (c : case) : bool :=
  match c with
  | CParse sys s a ov op of_ oc orp ofs ofs2 =>
      negb (opt_eqb beq ofs2 (match full_of_string s with Some r => full_of_string r | None => None end)) ||
      negb (opt_eqb chan_eqb (parse_verbatim sys s a) ov) ||
      negb (opt_eqb chan_eqb (parse sys s a) op) ||
      negb (opt_eqb beq ofs (full_of_string s)) ||
      match parse sys s a with
      | None => match of_, oc, orp with None, None, None => false | _, _, _ => true end
      | Some ch =>
          negb (opt_eqb beq (chan_full ch) of_) ||
          negb (opt_eqb chan_eqb (Some (clean ch)) oc) ||
          negb (opt_eqb chan_eqb (parse sys (chan_string ch) a) orp)
      end
  | CClean ch oc oc2 => negb (chan_eqb (clean ch) oc) || negb (chan_eqb (clean (clean ch)) oc2)
  | CResolve cur new ores ocur onew orp ores2 =>
      negb (opt_eqb beq (match resolve cur new with Some r => resolve cur r | None => None end) ores2) ||
      negb (opt_eqb beq (resolve cur new) ores) ||
      negb (opt_eqb chan_eqb (parse_verbatim [] cur dash) ocur) ||
      negb (opt_eqb chan_eqb (parse_verbatim [] new dash) onew) ||
      negb (opt_eqb chan_eqb (match ores with Some r => parse_verbatim [] r dash | None => None end) orp)
  | CPinned track new ores orp ores2 =>
      negb (pres_eqb (match resolve_pinned track new with POk r => resolve_pinned track r | _ => PInvalid end) ores2) ||
      negb (pres_eqb (resolve_pinned track new) ores) ||
      negb (opt_eqb chan_eqb (match ores with POk r => parse_verbatim [] r dash | _ => None end) orp)
  | CSnap ik ig kt gt old new ores => negb (opt_eqb beq (resolve_channel ik ig kt gt old new) ores)
  end.

(* The property's conclusions evaluated on what the implementation returned. Only list membership in the risk
   table and byte-string helpers are used, none of the model functions above. *)
Definition norm_track (t : bytes) : bytes := if beq t default_track then [] else t.

(* The string-level Full on its observed result r for input s: normalising twice equals once; a non-empty result is
   track/risk or track/risk/branch without an empty component; and where Full itself fills in or places the risk (the
   input has a single component, or two components starting with a risk name) the risk position holds a name from the
   table. Full does not validate a risk the input supplies after a track (Full of foo/bar is foo/bar, Full of a/b/c is
   a/b/c), so nothing is demanded there. *)
Definition full_string_bad (s : bytes) (ofs ofs2 : option bytes) : bool :=
  match ofs with
  | None => false
  | Some r =>
      negb (opt_eqb beq ofs2 (Some r)) ||
      (if is_nil_b r then false
       else
         let cs := split_slash r in
         let ics := filter (fun x => negb (is_nil_b x)) (split_slash s) in
         negb (Nat.leb 2 (length cs) && Nat.leb (length cs) 3) ||
         existsb is_nil_b cs ||
         ((Nat.eqb (length ics) 1 || (Nat.eqb (length ics) 2 && existsb (beq (hd [] ics)) risks)) &&
          negb (existsb (beq (nth 1 cs [])) risks)))
  end.

Definition monitor_fail (c : case) : bool :=
  match c with
  | CParse sys s a ov op of_ oc orp ofs ofs2 =>
      full_string_bad s ofs ofs2 ||
      match op with
      | None => false
      | Some ch =>
          (* normalising twice = once; printing and parsing again is stable *)
          negb (opt_eqb chan_eqb oc (Some ch)) ||
          negb (opt_eqb chan_eqb orp (Some ch)) ||
          (* the full form names track and risk: track/risk[/branch], track never empty, latest iff no track *)
          negb (existsb (beq (c_risk ch)) risks) ||
          let t := if is_nil_b (c_track ch) then default_track else c_track ch in
          is_nil_b t ||
          beq (c_track ch) default_track ||
          let want := t ++ slash :: c_risk ch ++ (if is_nil_b (c_branch ch) then [] else slash :: c_branch ch) in
          negb (opt_eqb beq of_ (Some want))
      end
  | CClean ch oc oc2 => negb (chan_eqb oc oc2)
  | CResolve cur new ores ocur onew orp ores2 =>
      (* resolving twice equals resolving once, when the current channel parses and its track is not spelled like a risk *)
      (match ocur, ores with
       | Some cc, Some r => negb (existsb (beq (c_track cc)) risks) && negb (opt_eqb beq ores2 (Some r))
       | _, _ => false
       end) ||
      (* a request that names a risk (optionally a branch) but no track keeps the current track *)
      match ocur, onew with
      | Some cc, Some nc =>
          if is_nil_b (c_track nc) && negb (is_nil_b (c_risk nc)) then
            match orp with
            | Some rc => negb (beq (norm_track (c_track rc)) (norm_track (c_track cc))) ||
                         negb (beq (c_risk rc) (c_risk nc)) || negb (beq (c_branch rc) (c_branch nc))
            | None => true
            end
          else false
      | _, _ => false
      end
  | CPinned track new ores orp ores2 =>
      (* resolving twice under a pinned track equals resolving once *)
      (match ores with POk r => negb (pres_eqb ores2 (POk r)) | _ => false end) ||
      if is_nil_b track then false
      else match ores with
           | POk r =>
               negb (beq r track || has_prefix (track ++ [slash]) r) ||
               match orp with Some rc => negb (beq (c_track rc) track) | None => false end
           | _ => false
           end
  | CSnap ik ig kt gt old new ores =>
      (* the system-level sentence: for the snap a model pins to a track, a request is resolved within that track or
         refused - for every current channel, also when the request spells the current channel; no request changes nothing *)
      if is_nil_b new then negb (opt_eqb beq ores (Some old))
      else
        let t := if ig && negb (is_nil_b gt) then gt else if ik && negb (is_nil_b kt) then kt else [] in
        if is_nil_b t then false
        else match ores with
             | Some r => negb (beq r t || has_prefix (t ++ [slash]) r)
             | None => false
             end
  end.
