(* C35 — model of snap/revision.go (Revision.String, ParseRevision, JSON/YAML forms) and snap/epoch.go
   (IsZero, Equal, Validate, simplify/String, MarshalJSON, fromString, CanRead). No proofs in this file. *)
From Coq Require Import List NArith ZArith Bool.
Import ListNotations.
Require Import V.lib.Bytes V.lib.Dec.
Open Scope N_scope.

(* ------------------------------------------------------------------ revisions: N is a Go int (64 bit) *)
Definition min64 : Z := (-9223372036854775808)%Z.
Definition max64 : Z := 9223372036854775807%Z.
Definition wrap64 (z : Z) : Z := (((z + 9223372036854775808) mod 18446744073709551616) - 9223372036854775808)%Z.

(* fmt %d / strconv.Itoa *)
Definition fmt_int (z : Z) : bytes := if (z <? 0)%Z then 45 :: dec (Z.to_N (- z)) else dec (Z.to_N z).

Definition unset_b : bytes := [117; 110; 115; 101; 116].

(* Revision.String: unset, x<-N> (the negation is the wrapping negation of Go), decimal *)
Definition rev_string (n : Z) : bytes :=
  if (n =? 0)%Z then unset_b
  else if (n <? 0)%Z then 120 :: fmt_int (wrap64 (- n))
  else fmt_int n.

(* strconv.Atoi / ParseInt(s, 10, 64): optional sign, one or more digits, int64 range *)
Definition atoi (s : bytes) : option Z :=
  let '(neg, ds) := match s with
                    | c :: r => if c =? 43 then (false, r) else if c =? 45 then (true, r) else (false, s)
                    | [] => (false, s)
                    end in
  match undec ds with
  | None => None
  | Some v => let z := if neg then (- Z.of_N v)%Z else Z.of_N v in
              if (min64 <=? z)%Z && (z <=? max64)%Z then Some z else None
  end.

Definition positive_only (o : option Z) : option Z :=
  match o with Some i => if (0 <? i)%Z then Some i else None | None => None end.

Definition parse_revision (s : bytes) : option Z :=
  if beq s unset_b then Some 0%Z
  else
    let via_x := match s with
                 | c :: t => if c =? 120 then option_map Z.opp (positive_only (atoi t)) else None
                 | [] => None
                 end in
    match via_x with
    | Some r => Some r
    | None => positive_only (atoi s)
    end.

Definition rev_marshal_json (n : Z) : bytes := 34 :: rev_string n ++ [34].

(* data starts and ends with a double quote -> data[1:len-1]   (len >= 2; the one-byte input consisting of a single
   double quote makes the Go slice expression panic; encoding/json never produces it and the driver does not send it) *)
Definition unquote (d : bytes) : option bytes :=
  match d with
  | c :: r => if c =? 34 then match rev r with
                              | l :: m => if l =? 34 then Some (rev m) else None
                              | [] => None
                              end
              else None
  | [] => None
  end.

Definition rev_unmarshal_json (d : bytes) : option Z :=
  match unquote d with
  | Some mid => parse_revision mid
  | None => atoi d
  end.

(* UnmarshalYAML: the YAML library hands over a string s; it is wrapped in quotes and sent to UnmarshalJSON *)
Definition rev_unmarshal_yaml (s : bytes) : option Z := rev_unmarshal_json (34 :: s ++ [34]).

(* ------------------------------------------------------------------ epochs: None is a nil slice *)
Record epoch := mkEpoch { e_read : option (list N); e_write : option (list N) }.

Definition lst (o : option (list N)) : list N := match o with Some l => l | None => [] end.
Definition explicit_empty (o : option (list N)) : bool := match o with Some [] => true | _ => false end.

Definition is_zero_list (l : list N) : bool :=
  match l with [] => true | [x] => x =? 0 | _ => false end.
Definition is_zero (e : epoch) : bool := is_zero_list (lst (e_read e)) && is_zero_list (lst (e_write e)).

Fixpoint list_eqb (a b : list N) : bool :=
  match a, b with
  | [], [] => true
  | x :: a', y :: b' => (x =? y) && list_eqb a' b'
  | _, _ => false
  end.

Definition epoch_equal (e o : epoch) : bool :=
  if is_zero e then is_zero o
  else list_eqb (lst (e_read e)) (lst (e_read o)) && list_eqb (lst (e_write e)) (lst (e_write o)).

Fixpoint is_increasing (l : list N) : bool :=
  match l with
  | x :: r => match r with y :: _ => (x <? y) && is_increasing r | [] => true end
  | [] => true
  end.

Definition intersect (rs ws : list N) : bool := existsb (fun r => existsb (fun w => r =? w) ws) rs.

(* Validate: 0 ok, 1 explicitly empty list, 2 more than 10 entries, 3 not strictly increasing, 4 no intersection *)
Definition validate (e : epoch) : N :=
  if explicit_empty (e_read e) || explicit_empty (e_write e) then 1
  else if is_zero e then 0
  else if (10 <? length (lst (e_read e)))%nat || (10 <? length (lst (e_write e)))%nat then 2
  else if negb (is_increasing (lst (e_read e))) || negb (is_increasing (lst (e_write e))) then 3
  else if intersect (lst (e_read e)) (lst (e_write e)) then 0 else 4.

Definition norm0 (l : list N) : list N := match l with [] => [0] | _ => l end.

(* (e *Epoch).CanRead(other), e non-nil *)
Definition can_read (e o : epoch) : bool := intersect (norm0 (lst (e_read e))) (norm0 (lst (e_write o))).

Definition two32 : N := 4294967296.

Fixpoint join_dec (l : list N) : bytes :=
  match l with
  | [] => []
  | [x] => dec x
  | x :: r => dec x ++ 44 :: join_dec r
  end.

Definition json_list (o : option (list N)) : bytes :=
  match o with
  | None => [110; 117; 108; 108]                       (* null *)
  | Some l => 91 :: join_dec l ++ [93]
  end.

(* {read:<r>,write:<w>} with the keys double-quoted *)
Definition json_struct (r w : option (list N)) : bytes :=
  [123; 34; 114; 101; 97; 100; 34; 58] ++ json_list r ++ [44; 34; 119; 114; 105; 116; 101; 34; 58] ++ json_list w ++ [125].

(* Epoch.String via simplify; the uint32 addition wraps *)
Definition epoch_string (e : epoch) : bytes :=
  if is_zero e then [48]
  else match lst (e_read e), lst (e_write e) with
       | [r0], [w0] => if r0 =? w0 then dec r0 else json_struct (e_read e) (e_write e)
       | [r0; r1], [w0] => if (((r0 + 1) mod two32) =? r1) && (r1 =? w0) then dec r1 ++ [42]
                           else json_struct (e_read e) (e_write e)
       | _, _ => json_struct (e_read e) (e_write e)
       end.

Definition is_short (s : bytes) : bool := match s with 123 :: _ => false | _ => true end.

Definition epoch_marshal_json (e : epoch) : bytes :=
  json_struct (Some (norm0 (lst (e_read e)))) (Some (norm0 (lst (e_write e)))).

(* parseInt: base 10, no zero padding, < 2^32 *)
Definition parse_u32 (s : bytes) : option N :=
  match s with
  | c :: _ :: _ => if c =? 48 then None else match undec s with Some v => if v <? two32 then Some v else None | None => None end
  | _ => match undec s with Some v => if v <? two32 then Some v else None | None => None end
  end.

Definition strip_star (s : bytes) : bool * bytes :=
  match rev s with
  | c :: m => if c =? 42 then (true, rev m) else (false, s)
  | [] => (false, s)
  end.

(* Epoch.fromString *)
Definition from_string (s : bytes) : option epoch :=
  if is_nil_b s || beq s [48] then Some (mkEpoch (Some [0]) (Some [0]))
  else
    let (star, t) := strip_star s in
    match parse_u32 t with
    | None => None
    | Some n => if star then (if n =? 0 then None else Some (mkEpoch (Some [n - 1; n]) (Some [n])))
                else Some (mkEpoch (Some [n]) (Some [n]))
    end.

(* ------------------------------------------------------------------ the structured (JSON object) form
   encoding/json itself is not modelled; this is a reader for exactly the byte language that json.Marshal produces for
   structuredEpoch ({"read":<list>,"write":<list>} with <list> = null | [n,n,...], no white space), followed by
   Epoch.fromStructured line by line. Inputs outside that language are answered None and are NOT compared with Go. *)
Fixpoint strip_prefix (p s : bytes) : option bytes :=
  match p with
  | [] => Some s
  | x :: p' => match s with y :: s' => if x =? y then strip_prefix p' s' else None | [] => None end
  end.

Fixpoint split_on (c : N) (s : bytes) : list bytes :=
  match s with
  | [] => [[]]
  | x :: r => if x =? c then [] :: split_on c r
              else match split_on c r with h :: t => (x :: h) :: t | [] => [[x]] end
  end.

Fixpoint map_opt {A B : Type} (f : A -> option B) (l : list A) : option (list B) :=
  match l with
  | [] => Some []
  | x :: r => match f x, map_opt f r with Some y, Some ys => Some (y :: ys) | _, _ => None end
  end.

Definition null_b : bytes := [110; 117; 108; 108].
Definition read_key : bytes := [123; 34; 114; 101; 97; 100; 34; 58].                 (* {"read": *)
Definition write_key : bytes := [44; 34; 119; 114; 105; 116; 101; 34; 58].          (* ,"write": *)

(* one <list> token and what follows it *)
Definition parse_json_list (s : bytes) : option (option (list N) * bytes) :=
  match strip_prefix null_b s with
  | Some rest => Some (None, rest)
  | None =>
      match s with
      | 91 :: t =>
          let (inner, rest) := span (fun c => negb (c =? 93)) t in
          match rest with
          | 93 :: rest' =>
              match (if is_nil_b inner then Some [] else map_opt parse_u32 (split_on 44 inner)) with
              | Some l => Some (Some l, rest')
              | None => None
              end
          | _ => None
          end
      | _ => None
      end
  end.

Definition parse_struct (s : bytes) : option (option (list N) * option (list N)) :=
  match strip_prefix read_key s with
  | None => None
  | Some s1 =>
      match parse_json_list s1 with
      | None => None
      | Some (r, s2) =>
          match strip_prefix write_key s2 with
          | None => None
          | Some s3 =>
              match parse_json_list s3 with
              | None => None
              | Some (w, s4) => if beq s4 [125] then Some (r, w) else None
              end
          end
      end
  end.

Definition last1 (l : list N) : list N := match rev l with x :: _ => [x] | [] => [] end.

(* Epoch.fromStructured: defaults for missing lists, explicitly empty lists are an error, then Validate *)
Definition from_structured (r w : option (list N)) : option epoch :=
  let w1 := match r, w with None, None => Some [0] | _, _ => w end in
  match (match r with None => Some w1 | Some [] => None | Some _ => Some r end) with
  | None => None
  | Some r1 =>
      match (match w1 with None => Some (Some (last1 (lst r1))) | Some [] => None | Some _ => Some w1 end) with
      | None => None
      | Some w2 => let p := mkEpoch r1 w2 in if validate p =? 0 then Some p else None
      end
  end.

(* Epoch.UnmarshalJSON restricted to what MarshalJSON / String print: a JSON string goes through fromString, an object
   through fromStructured *)
Definition epoch_unmarshal_json (d : bytes) : option epoch :=
  match d with
  | 34 :: _ => match unquote d with Some mid => from_string mid | None => None end
  | 123 :: _ => match parse_struct d with Some (r, w) => from_structured r w | None => None end
  | _ => None
  end.

(* ------------------------------------------------------------------ correspondence / monitor interface *)
Definition oz_eqb (a b : option Z) : bool :=
  match a, b with Some x, Some y => (x =? y)%Z | None, None => true | _, _ => false end.
Definition olist_eqb (a b : option (list N)) : bool :=
  match a, b with Some x, Some y => list_eqb x y | None, None => true | _, _ => false end.
Definition ep_eqb (a b : epoch) : bool := olist_eqb (e_read a) (e_read b) && olist_eqb (e_write a) (e_write b).
Definition oep_eqb (a b : option epoch) : bool :=
  match a, b with Some x, Some y => ep_eqb x y | None, None => true | _, _ => false end.

Inductive case :=
| CRev (n : Z) (str : bytes) (parsed : option Z) (js : bytes) (js_back yaml_back : option Z)
| CRevStr (s : bytes) (parsed json_parsed : option Z)
| CEpoch (e o : epoch) (valid : bool) (str : bytes) (str_back : option epoch) (js : bytes) (js_back : option epoch)
         (reads_o reads_self : bool)
| CEpochStr (s : bytes) (res : option epoch).

Definition mismatch (c : case) : bool :=
  match c with
  | CRev n str parsed js js_back yaml_back =>
      negb (beq (rev_string n) str) || negb (oz_eqb (parse_revision str) parsed)
      || negb (beq (rev_marshal_json n) js) || negb (oz_eqb (rev_unmarshal_json js) js_back)
      || negb (oz_eqb (rev_unmarshal_yaml str) yaml_back)
  | CRevStr s parsed json_parsed =>
      negb (oz_eqb (parse_revision s) parsed) || negb (oz_eqb (rev_unmarshal_json s) json_parsed)
  | CEpoch e o valid str _ js js_back ro rs =>
      negb (Bool.eqb (validate e =? 0) valid) || negb (beq (epoch_string e) str)
      || negb (beq (epoch_marshal_json e) js) || negb (Bool.eqb (can_read e o) ro) || negb (Bool.eqb (can_read e e) rs)
      || (valid && negb (oep_eqb (epoch_unmarshal_json js) js_back))
  | CEpochStr s res => negb (oep_eqb (from_string s) res)
  end.

(* independent statement of a well-formed revision string, used by the monitor *)
Definition all_digits (s : bytes) : bool := negb (is_nil_b s) && forallb is_digit s.
Definition signed_digits (s : bytes) : bool :=
  match s with c :: r => if (c =? 43) || (c =? 45) then all_digits r else all_digits s | [] => false end.
Definition rev_shape (s : bytes) : bool :=
  beq s unset_b || signed_digits s || match s with c :: t => (c =? 120) && signed_digits t | [] => false end.

(* set-theoretic CanRead: some element of the read set is in the write set, empty meaning {0} *)
Definition mem (x : N) (l : list N) : bool := existsb (N.eqb x) l.
Definition reads_spec (e o : epoch) : bool :=
  let rs := norm0 (lst (e_read e)) in let ws := norm0 (lst (e_write o)) in
  negb (is_nil_b (filter (fun x => mem x ws) rs)).

(* which epochs are valid, stated independently of `validate`: the zero epoch, or no explicitly empty list, at most 10
   entries per list, both strictly increasing, and a common element *)
Definition valid_spec (e : epoch) : bool :=
  negb (explicit_empty (e_read e)) && negb (explicit_empty (e_write e)) &&
  (is_zero e ||
   ((length (lst (e_read e)) <=? 10)%nat && (length (lst (e_write e)) <=? 10)%nat &&
    is_increasing (lst (e_read e)) && is_increasing (lst (e_write e)) &&
    negb (is_nil_b (filter (fun x => mem x (lst (e_write e))) (lst (e_read e)))))).

(* the property on the implementation's observed behaviour *)
Definition monitor_fail (c : case) : bool :=
  match c with
  | CRev n _ parsed _ js_back yaml_back =>
      negb (oz_eqb parsed (Some n)) || negb (oz_eqb js_back (Some n)) || negb (oz_eqb yaml_back (Some n))
  | CRevStr s parsed _ =>
      match parsed with
      | Some n => negb (rev_shape s) || negb (Bool.eqb (n =? 0)%Z (beq s unset_b)) || negb ((min64 <? n)%Z && (n <=? max64)%Z)
      | None => false
      end
  | CEpoch e o valid _ str_back _ js_back ro rs =>
      negb (Bool.eqb ro (reads_spec e o))
      || negb (Bool.eqb valid (valid_spec e))
      || (valid_spec e && (negb rs
                    || match str_back with Some e' => negb (epoch_equal e e') | None => true end
                    || match js_back with Some e' => negb (epoch_equal e e') | None => true end))
  | CEpochStr s res =>
      match res with Some e => negb (validate e =? 0) | None => false end
  end.
