(* C16 — calendar facts for the termination proof (proofs/TimerFuelProofs.v).
   Route: general proof over the model, resting on a handful of calendar facts about coq/lib/Civil.v that are
   established by a finite sweep over one full 400-year cycle of the civil calendar (146097 days, vm_compute) and lifted to
   every day number by the 400-year periodicity of civil_from_days. The sweep is over DAYS only, not over week spans. *)
From Coq Require Import List ZArith Bool Lia ZifyBool.
Import ListNotations.
Require Import V.lib.Civil V.models.Timer.
Open Scope Z_scope.

(* ------------------------------------------------------------------ checking a predicate on 2^d consecutive integers *)
Fixpoint range_all (d : nat) (lo : Z) (Q : Z -> bool) : bool :=
  match d with
  | O => Q lo
  | S d' => range_all d' lo Q && range_all d' (lo + 2 ^ Z.of_nat d') Q
  end.

Lemma range_all_spec : forall d lo Q, range_all d lo Q = true ->
  forall x, lo <= x < lo + 2 ^ Z.of_nat d -> Q x = true.
Proof.
  induction d as [|d IH]; intros lo Q H x Hx.
  - cbn in Hx. assert (x = lo) by lia. subst; exact H.
  - cbn [range_all] in H. apply andb_true_iff in H as [H1 H2].
    assert (E : 2 ^ Z.of_nat (S d) = 2 ^ Z.of_nat d + 2 ^ Z.of_nat d).
    { rewrite Nat2Z.inj_succ, Z.pow_succ_r by lia. lia. }
    rewrite E in Hx. destruct (Z_lt_ge_dec x (lo + 2 ^ Z.of_nat d)).
    + apply (IH lo Q H1); lia.
    + apply (IH _ Q H2); lia.
Qed.

(* ------------------------------------------------------------------ 400-year periodicity *)
Definition period : Z := 146097.

Lemma civil_shift : forall z q,
  civil_from_days (z + q * period) =
  let '(y, m, d) := civil_from_days z in (y + 400 * q, m, d).
Proof.
  intros z q. unfold civil_from_days, period.
  replace (z + q * 146097 + 719468) with (z + 719468 + q * 146097) by ring.
  set (z' := z + 719468).
  rewrite Z.div_add by lia.
  replace (z' + q * 146097 - (z' / 146097 + q) * 146097) with (z' - z' / 146097 * 146097) by ring.
  set (doe := z' - z' / 146097 * 146097).
  set (yoe := (doe - doe / 1460 + doe / 36524 - doe / 146096) / 365).
  set (doy := doe - (365 * yoe + yoe / 4 - yoe / 100)).
  set (mp := (5 * doy + 2) / 153).
  cbv zeta. destruct (mp <? 10); destruct (_ <=? 2); f_equal; f_equal; ring.
Qed.

Lemma dom_shift : forall z q, dom_of (z + q * period) = dom_of z.
Proof. intros; unfold dom_of; rewrite civil_shift. destruct (civil_from_days z) as [[y m] d]; reflexivity. Qed.
Lemma month_shift : forall z q, month_of (z + q * period) = month_of z.
Proof. intros; unfold month_of; rewrite civil_shift. destruct (civil_from_days z) as [[y m] d]; reflexivity. Qed.

Lemma month_next_loop_shift : forall fuel n m q,
  month_next_loop fuel (n + q * period) m = month_next_loop fuel n m + q * period.
Proof.
  induction fuel as [|f IH]; intros n m q; cbn [month_next_loop]; [reflexivity|].
  rewrite month_shift. destruct (month_of n =? m); [|reflexivity].
  replace (n + q * period + 1) with (n + 1 + q * period) by ring. apply IH.
Qed.

Lemma month_next_shift : forall D q, month_next (D + q * period) = month_next D + q * period.
Proof.
  intros D q. unfold month_next. rewrite month_shift.
  replace (D + q * period + 28) with (D + 28 + q * period) by ring.
  rewrite month_next_loop_shift, dom_shift.
  destruct (dom_of _ =? 1); ring.
Qed.

(* ------------------------------------------------------------------ the calendar facts, per day *)
Definition ks28 : list Z := [0;1;2;3;4;5;6;7;8;9;10;11;12;13;14;15;16;17;18;19;20;21;22;23;24;25;26;27].
Definition js7 : list Z := [1;2;3;4;5;6;7].

Definition day_fact (X : Z) : bool :=
  let d := dom_of X in
  (1 <=? d) && (d <=? 31) && (dom_of (X - d + 1) =? 1) &&
  (if d =? 1 then
     let N := month_next X in
     forallb (fun k => dom_of (X + k) =? k + 1) ks28 &&
     ((dom_of N =? 1) && (X + 28 <=? N) && (N <=? X + 31)) &&
     forallb (fun j => month_next (X - j) =? X) js7
   else true).

Lemma forallb_ext' : forall (A : Type) (f g : A -> bool) l, (forall x, f x = g x) -> forallb f l = forallb g l.
Proof. intros A f g l H; induction l as [|x l IH]; cbn; [reflexivity | rewrite H, IH; reflexivity]. Qed.

Lemma eqb_shift : forall a b c, (a + c =? b + c) = (a =? b).
Proof. intros; destruct (a =? b) eqn:E; lia. Qed.

Lemma day_fact_shift : forall X q, day_fact (X + q * period) = day_fact X.
Proof.
  intros X q. unfold day_fact. cbv zeta. rewrite dom_shift.
  replace (X + q * period - dom_of X + 1) with (X - dom_of X + 1 + q * period) by ring. rewrite dom_shift.
  destruct (dom_of X =? 1); [|reflexivity].
  rewrite month_next_shift, dom_shift.
  rewrite (forallb_ext' _ (fun k => dom_of (X + q * period + k) =? k + 1) (fun k => dom_of (X + k) =? k + 1)).
  2:{ intros k. replace (X + q * period + k) with (X + k + q * period) by ring. rewrite dom_shift; reflexivity. }
  rewrite (forallb_ext' _ (fun j => month_next (X + q * period - j) =? X + q * period) (fun j => month_next (X - j) =? X)).
  2:{ intros j. replace (X + q * period - j) with (X - j + q * period) by ring. rewrite month_next_shift. apply eqb_shift. }
  f_equal. f_equal. f_equal.
  destruct (X + 28 <=? month_next X) eqn:E1, (X + q * period + 28 <=? month_next X + q * period) eqn:E2; try lia;
  destruct (month_next X <=? X + 31) eqn:E3, (month_next X + q * period <=? X + q * period + 31) eqn:E4; try lia; reflexivity.
Qed.

(* the sweep: all days 0 .. 147455 (one cycle is 146097 days) *)
Lemma day_fact_cycle : range_all 17 0 day_fact && range_all 14 131072 day_fact = true.
Proof. vm_cast_no_check (eq_refl true). Qed.   (* evaluated once, by the kernel's VM, at Qed *)

Lemma day_fact_all : forall X, day_fact X = true.
Proof.
  intros X. pose proof day_fact_cycle as H. apply andb_true_iff in H as [H1 H2].
  pose proof (Z.mod_pos_bound X period ltac:(unfold period; lia)) as B.
  pose proof (Z.div_mod X period ltac:(unfold period; lia)) as E.
  replace X with (X mod period + (X / period) * period) by lia.
  rewrite day_fact_shift. unfold period in B.
  destruct (Z_lt_ge_dec (X mod period) 131072).
  - apply (range_all_spec 17 0 day_fact H1). cbn; unfold period in *; lia.
  - apply (range_all_spec 14 131072 day_fact H2). cbn; unfold period in *; lia.
Qed.

Lemma dom_pos : forall X, 1 <= dom_of X <= 31.
Proof. intros X. pose proof (day_fact_all X) as H. unfold day_fact in H. cbv zeta in H. lia. Qed.

Lemma dom_first : forall X, dom_of (X - dom_of X + 1) = 1.
Proof. intros X. pose proof (day_fact_all X) as H. unfold day_fact in H. cbv zeta in H. lia. Qed.

Lemma month_start_facts : forall X, dom_of X = 1 ->
  (forall k, 0 <= k <= 27 -> dom_of (X + k) = k + 1) /\
  dom_of (month_next X) = 1 /\ X + 28 <= month_next X <= X + 31 /\
  (forall j, 1 <= j <= 7 -> month_next (X - j) = X).
Proof.
  intros X HX. pose proof (day_fact_all X) as H. unfold day_fact in H. cbv zeta in H. rewrite HX in H. cbn [Z.eqb Pos.eqb] in H.
  apply andb_true_iff in H as [_ H]. apply andb_true_iff in H as [H H3]. apply andb_true_iff in H as [H1 H2].
  rewrite forallb_forall in H1, H3. split; [|split; [lia | split; [lia|]]].
  - intros k Hk. assert (I : In k ks28) by (unfold ks28; cbn; lia). specialize (H1 k I). lia.
  - intros j Hj. assert (I : In j js7) by (unfold js7; cbn; lia). specialize (H3 j I). lia.
Qed.

