(* C23, tree variant — proofs about models/SyncTree.v (EnsureTreeState): reduction of the tree call to the per-directory
   call, and fail-closed across directories. For every tree, content, glob predicate, visiting orders and failure point. *)
From Coq Require Import List NArith Bool Lia Permutation Sorted.
Import ListNotations.
Require Import V.lib.Bytes V.models.SyncDir V.proofs.SyncDirProofs V.models.SyncTree.
Open Scope N_scope.

Lemma path_eqb_true_iff : forall a b, path_eqb a b = true <-> a = b.
Proof.
  induction a as [|x a IH]; destruct b as [|y b]; cbn; split; intro H; try congruence; try discriminate.
  - apply andb_true_iff in H. destruct H as [H1 H2]. apply beq_true_iff in H1. apply IH in H2. congruence.
  - inversion H; subst. rewrite beq_refl. cbn. apply IH. reflexivity.
Qed.
Lemma path_eqb_refl : forall a, path_eqb a a = true.
Proof. intro a. apply path_eqb_true_iff. reflexivity. Qed.
Lemma path_eqb_spec : forall a b, reflect (a = b) (path_eqb a b).
Proof. intros a b. destruct (path_eqb a b) eqn:E; constructor; [apply path_eqb_true_iff; assumption|]. intro H. apply path_eqb_true_iff in H. congruence. Qed.

Lemma tlookup_tset : forall t p v q, tlookup (tset t p v) q = if path_eqb p q then Some v else tlookup t q.
Proof.
  induction t as [|[k w] r IH]; intros p v q; cbn; [reflexivity|].
  destruct (path_eqb_spec k p); cbn.
  - subst. destruct (path_eqb p q); reflexivity.
  - rewrite IH. destruct (path_eqb_spec k q); [|reflexivity]. subst. destruct (path_eqb_spec p q); [congruence | reflexivity].
Qed.
Lemma foe_tset : forall t p v q, foe (tset t p v) q = if path_eqb p q then v else foe t q.
Proof. intros. unfold foe. rewrite tlookup_tset. destruct (path_eqb p q); reflexivity. Qed.

Lemma tlookup_app_one : forall (t : tree) q' q,
  tlookup (t ++ [(q', [])]) q = match tlookup t q with Some v => Some v | None => if path_eqb q' q then Some [] else None end.
Proof. induction t as [|[k w] r IH]; intros q' q; cbn; [reflexivity|]. destruct (path_eqb k q); [reflexivity | apply IH]. Qed.
Lemma foe_mkdir : forall t q' q, foe (mkdir t q') q = foe t q.
Proof.
  intros t q' q. unfold mkdir. destruct (tlookup t q') eqn:E; [reflexivity|]. unfold foe. rewrite tlookup_app_one.
  destruct (tlookup t q); [reflexivity|]. destruct (path_eqb q' q); reflexivity.
Qed.
Lemma foe_mkdir_all : forall p t q, foe (mkdir_all t p) q = foe t q.
Proof.
  intros p t q. unfold mkdir_all. generalize (prefixes p) as l. intro l. revert t.
  induction l as [|x l IH]; intro t; cbn; [reflexivity|]. rewrite IH. apply foe_mkdir.
Qed.

Lemma tlookup_tdel : forall (t : tree) p q, tlookup (tdel t p) q = if path_eqb p q then None else tlookup t q.
Proof.
  unfold tdel. induction t as [|[k w] r IH]; intros p q; cbn.
  - destruct (path_eqb p q); reflexivity.
  - destruct (path_eqb_spec k p); cbn.
    + subst. rewrite IH. destruct (path_eqb p q); reflexivity.
    + rewrite IH. destruct (path_eqb_spec k q); [|reflexivity]. subst. destruct (path_eqb_spec p q); [congruence | reflexivity].
Qed.
Lemma foe_remove_empty : forall fuel t p q, foe (remove_empty_dirs fuel t p) q = foe t q.
Proof.
  induction fuel as [|f IH]; intros t p q; cbn; [reflexivity|].
  destruct p as [|c p']; [reflexivity|].
  destruct (tlookup t (c :: p')) as [fs|] eqn:L; [|reflexivity].
  destruct (is_nil_b fs && negb (has_child t (c :: p'))) eqn:C; [|reflexivity].
  rewrite IH. unfold foe. rewrite tlookup_tdel. destruct (path_eqb_spec (c :: p') q); [|reflexivity].
  subst. rewrite L. apply andb_true_iff in C. destruct C as [C _]. destruct fs; [reflexivity | discriminate].
Qed.
Lemma foe_remove_all : forall l t q, foe (fold_left (fun t p => remove_empty_dirs (S (length p)) t p) l t) q = foe t q.
Proof. induction l as [|p l IH]; intros t q; cbn [fold_left]; [reflexivity|]. rewrite IH. apply foe_remove_empty. Qed.

(* per-directory facts that hold whatever the outcome *)
Lemma nonmatching_untouched : forall mt um out d c, NoDup (names d) -> NoDup (names c) ->
  forall n, mt n = false -> lookup (r_dir (eds mt um out d c)) n = lookup d n.
Proof.
  intros mt um out d c NDd NDc n M.
  destruct (valid_input mt c) eqn:V; [|rewrite bad_input_no_effect by assumption; reflexivity].
  destruct (wl_fail um out d c) eqn:WF.
  - assert (W : r_wfail (eds mt um out d c) = true) by (apply eds_wfail_iff; auto).
    destruct (fail_closed mt um out d c NDd NDc W) as [_ [_ [A3 _]]]. rewrite A3, M. reflexivity.
  - destruct (eds_ok_form mt um out d c NDd NDc V WF) as [d1 [AW [ND1 E]]]. rewrite E. cbn [r_dir].
    destruct (erase_loop_spec mt (names c) d1 ND1) as [S1 _]. rewrite S1, M. cbn. rewrite AW. unfold after_write.
    destruct (lookup c n) eqn:L; [|reflexivity]. apply lookup_Some_names in L. rewrite (valid_input_mt mt c n V L) in M. discriminate.
Qed.

(* synchronising against no content: non-matching entries stay, matching entries that stay are not removable *)
Lemma erase_all_lookup : forall mt d n,
  let d' := fst3 (erase_loop mt [] d) in
  (mt n = false -> lookup d' n = lookup d n) /\ (mt n = true -> forall v, lookup d' n = Some v -> removable v = false).
Proof.
  intros mt d n. induction d as [|[k v] r IH]; cbn; [split; [reflexivity | intros _ w H; discriminate]|].
  destruct (erase_loop mt [] r) as [[r' rm] e] eqn:E. unfold fst3 in *. cbn in IH. cbn [mem_name existsb negb]. rewrite andb_true_r.
  destruct IH as [I1 I2]. destruct (mt k) eqn:Mk.
  - destruct (removable v) eqn:R; cbn.
    + split; [|exact I2]. intro M. rewrite (I1 M). destruct (beq k n) eqn:B; [|reflexivity]. apply beq_true_iff in B. congruence.
    + destruct (beq k n) eqn:B.
      * apply beq_true_iff in B. subst. split; [congruence|]. intros _ w H. inversion H. subst. assumption.
      * split; assumption.
  - cbn. destruct (beq k n) eqn:B.
    + apply beq_true_iff in B. subst. split; [reflexivity | congruence].
    + split; assumption.
Qed.
Lemma eds_nil_dir : forall mt um out d, r_dir (eds mt um out d []) = fst3 (erase_loop mt [] d).
Proof. intros. unfold eds, ensure_dir_state. cbn. destruct (erase_loop mt [] d) as [[a b] c]. reflexivity. Qed.

Lemma flat_map_ext_in : forall (A B : Type) (f g : A -> list B) (l : list A),
  (forall x, In x l -> f x = g x) -> flat_map f l = flat_map g l.
Proof.
  induction l as [|x r IH]; intro H; cbn; [reflexivity|]. rewrite (H x (or_introl eq_refl)), IH; [reflexivity|].
  intros y Hy. apply H. right. assumption.
Qed.

Section Tree.
Variables (mt : bytes -> bool) (um : N) (out : list (bytes * onode)) (content : list (path * list (bytes * dstate))).

(* the per-directory call EnsureTreeState makes for directory q, on the files q has in tree t *)
Definition R (t : tree) (q : path) : result := ensure_dir_state mt um out (foe t q) (content_of content q).

Definition WfC : Prop := forall q, NoDup (names (content_of content q)).

Lemma loop1_spec : forall ord a, NoDup ord -> WfC -> (forall q, In q ord -> NoDup (names (foe (a_t a) q))) -> a_failed a = false ->
  let a' := loop1 mt um out content ord a in
  (forall q, ~ In q ord -> foe (a_t a') q = foe (a_t a) q)
  /\ (forall q n, mt n = false -> lookup (foe (a_t a') q) n = lookup (foe (a_t a) q) n)
  /\ (existsb (fun q => r_err (R (a_t a) q)) ord = true -> a_failed a' = true)
  /\ (existsb (fun q => r_err (R (a_t a) q)) ord = false ->
        a_failed a' = false
        /\ (forall q, In q ord -> foe (a_t a') q = r_dir (R (a_t a) q))
        /\ a_changed a' = a_changed a ++ flat_map (fun q => map (join q) (r_changed (R (a_t a) q))) ord
        /\ a_removed a' = a_removed a ++ flat_map (fun q => map (join q) (r_removed (R (a_t a) q))) ord).
Proof.
  induction ord as [|p r IH]; intros a ND WC WF AF.
  - cbn. split; [auto|]. split; [auto|]. split; [discriminate|]. intros _. split; [assumption|]. split; [intros q []|].
    rewrite !app_nil_r. split; reflexivity.
  - inversion ND as [|? ? Hp ND']; subst. cbn [loop1].
    assert (F1 : foe (mkdir_all (a_t a) p) p = foe (a_t a) p) by apply foe_mkdir_all.
    rewrite F1. fold (R (a_t a) p).
    set (res := R (a_t a) p). set (t2 := tset (mkdir_all (a_t a) p) p (r_dir res)).
    assert (F2 : forall q, foe t2 q = if path_eqb p q then r_dir res else foe (a_t a) q).
    { intro q. unfold t2. rewrite foe_tset, foe_mkdir_all. reflexivity. }
    assert (NM : forall q n, mt n = false -> lookup (foe t2 q) n = lookup (foe (a_t a) q) n).
    { intros q n M. rewrite F2. destruct (path_eqb_spec p q); [|reflexivity]. subst q.
      apply (nonmatching_untouched mt um out _ _ (WF p (or_introl eq_refl)) (WC p) n M). }
    destruct (r_err res) eqn:ER; cbn [existsb]; change (R (a_t a) p) with res; rewrite ER; cbn [orb].
    + cbn [a_t a_failed a_changed a_removed]. split; [|split; [|split]].
      * intros q Hq. rewrite F2. destruct (path_eqb_spec p q); [|reflexivity]. subst. exfalso. apply Hq. left. reflexivity.
      * exact NM.
      * reflexivity.
      * discriminate.
    + set (a1 := mkAcc t2 (a_changed a ++ map (join p) (r_changed res)) (a_removed a ++ map (join p) (r_removed res))
                       (if is_nil_b (a_removed a ++ map (join p) (r_removed res)) then a_maybe a else a_maybe a ++ [p]) false).
      assert (FE : forall q, In q r -> foe (a_t a1) q = foe (a_t a) q).
      { intros q Hq. cbn [a_t a1]. rewrite F2. destruct (path_eqb_spec p q); [subst; contradiction | reflexivity]. }
      assert (RE : forall q, In q r -> R (a_t a1) q = R (a_t a) q) by (intros q Hq; unfold R; rewrite (FE q Hq); reflexivity).
      assert (WF1 : forall q, In q r -> NoDup (names (foe (a_t a1) q))).
      { intros q Hq. rewrite (FE q Hq). apply WF. right. assumption. }
      destruct (IH a1 ND' WC WF1 eq_refl) as [P1 [P2 [P3 P4]]].
      assert (EX : existsb (fun q => r_err (R (a_t a1) q)) r = existsb (fun q => r_err (R (a_t a) q)) r).
      { apply existsb_ext_in. intros q Hq. rewrite (RE q Hq). reflexivity. }
      split; [|split; [|split]].
      * intros q Hq. rewrite P1 by (intro H; apply Hq; right; assumption). cbn [a_t a1]. rewrite F2.
        destruct (path_eqb_spec p q); [|reflexivity]. subst. exfalso. apply Hq. left. reflexivity.
      * intros q n M. rewrite (P2 q n M). apply NM. assumption.
      * intro H. apply P3. rewrite EX. assumption.
      * intro H. rewrite <- EX in H. destruct (P4 H) as [Q1 [Q2 [Q3 Q4]]]. split; [|split; [|split]].
        -- exact Q1.
        -- intros q [Hq | Hq].
           ++ subst q. rewrite P1 by assumption. cbn [a_t a1]. rewrite F2, path_eqb_refl. reflexivity.
           ++ rewrite (Q2 q Hq). rewrite (RE q Hq). reflexivity.
        -- rewrite Q3. cbn [a_changed a1 flat_map]. rewrite <- app_assoc. f_equal. f_equal.
           apply flat_map_ext_in. intros q Hq. rewrite (RE q Hq). reflexivity.
        -- rewrite Q4. cbn [a_removed a1 flat_map]. rewrite <- app_assoc. f_equal. f_equal.
           apply flat_map_ext_in. intros q Hq. rewrite (RE q Hq). reflexivity.
Qed.

(* the erase pass *)
Lemma loop2_spec : forall ord a,
  let a' := loop2 mt um out ord a in
  a_changed a' = a_changed a /\ a_failed a' = a_failed a
  /\ (forall q, ~ In q ord -> foe (a_t a') q = foe (a_t a) q)
  /\ (forall q n, mt n = false -> lookup (foe (a_t a') q) n = lookup (foe (a_t a) q) n)
  /\ (forall q n v, (In q ord \/ (forall w, lookup (foe (a_t a) q) n = Some w -> removable w = false)) ->
        mt n = true -> lookup (foe (a_t a') q) n = Some v -> removable v = false).
Proof.
  induction ord as [|p r IH]; intro a.
  - cbn. repeat split; auto. intros q n v [[] | H] _ L. apply (H v L).
  - cbn [loop2]. destruct (tlookup (a_t a) p) as [fs|] eqn:L.
    + set (res := ensure_dir_state mt um out fs []).
      set (a1 := mkAcc (tset (a_t a) p (r_dir res)) (a_changed a) (a_removed a ++ map (join p) (r_removed res))
                       (if is_nil_b (a_removed a ++ map (join p) (r_removed res)) then a_maybe a else a_maybe a ++ [p]) (a_failed a)).
      assert (FS : foe (a_t a) p = fs) by (unfold foe; rewrite L; reflexivity).
      assert (F2 : forall q, foe (a_t a1) q = if path_eqb p q then r_dir res else foe (a_t a) q) by (intro q; apply foe_tset).
      assert (RD : r_dir res = fst3 (erase_loop mt [] fs)) by apply (eds_nil_dir mt um out fs).
      destruct (IH a1) as [Q1 [Q2 [Q3 [Q4 Q5]]]]. split; [exact Q1|]. split; [exact Q2|]. split; [|split].
      * intros q Hq. rewrite Q3 by (intro H; apply Hq; right; assumption). rewrite F2.
        destruct (path_eqb_spec p q); [|reflexivity]. subst. exfalso. apply Hq. left. reflexivity.
      * intros q n M. rewrite (Q4 q n M), F2. destruct (path_eqb_spec p q); [|reflexivity]. subst q.
        rewrite RD, FS. apply (proj1 (erase_all_lookup mt fs n) M).
      * intros q n v H M Lk. apply (Q5 q n v); [|assumption|assumption].
        destruct (path_eqb_spec p q).
        -- subst q. right. intros w Hw. rewrite F2, path_eqb_refl, RD in Hw. apply (proj2 (erase_all_lookup mt fs n) M w Hw).
        -- destruct H as [[H | H] | H]; [congruence | left; assumption |]. right. intros w Hw. rewrite F2 in Hw.
           destruct (path_eqb_spec p q); [congruence|]. apply (H w Hw).
    + destruct (IH a) as [Q1 [Q2 [Q3 [Q4 Q5]]]]. split; [exact Q1|]. split; [exact Q2|]. split; [|split].
      * intros q Hq. apply Q3. intro H. apply Hq. right. assumption.
      * exact Q4.
      * intros q n v H M Lk. apply (Q5 q n v); [|assumption|assumption].
        destruct H as [[H | H] | H]; [|left; assumption|right; assumption].
        subst q. right. intros w Hw. unfold foe in Hw. rewrite L in Hw. discriminate.
Qed.

Definition ets := ensure_tree_state mt um out content.

(* SUCCESS: the tree call is exactly the per-directory call (EnsureDirStateGlobs, theorems C23_success_exact etc.) on every
   directory visited, each against the files that directory had initially; directories not visited keep their files;
   changed / removed are the sorted unions of the per-directory lists prefixed with the directory. (foe = files of a
   directory, none if it does not exist: emptied directories may have been removed.) *)
Theorem tree_success : forall t ord1 ord2, NoDup ord1 -> WfC -> (forall q, NoDup (names (foe t q))) ->
  t_err (ets t ord1 ord2) = false ->
  (forall q, In q ord1 -> foe (t_tree (ets t ord1 ord2)) q = r_dir (R t q) /\ r_err (R t q) = false)
  /\ (forall q, ~ In q ord1 -> foe (t_tree (ets t ord1 ord2)) q = foe t q)
  /\ t_changed (ets t ord1 ord2) = sort (flat_map (fun q => map (join q) (r_changed (R t q))) ord1)
  /\ t_removed (ets t ord1 ord2) = sort (flat_map (fun q => map (join q) (r_removed (R t q))) ord1).
Proof.
  intros t ord1 ord2 ND WC WF. unfold ets, ensure_tree_state.
  destruct (valid_tree_input mt content); cbn [negb]; [|cbn; discriminate].
  set (a0 := mkAcc t [] [] [] false).
  destruct (loop1_spec ord1 a0 ND WC (fun q _ => WF q) eq_refl) as [P1 [P2 [P3 P4]]]. cbn [a_t a0] in *.
  destruct (existsb (fun q => r_err (R t q)) ord1) eqn:EX.
  - rewrite (P3 eq_refl). destruct (loop2_spec ord2 (mkAcc (a_t (loop1 mt um out content ord1 a0)) [] (a_removed (loop1 mt um out content ord1 a0)) (a_maybe (loop1 mt um out content ord1 a0)) true)) as [_ [Q2 _]].
    cbn [t_err]. rewrite Q2. cbn. discriminate.
  - destruct (P4 eq_refl) as [Q1 [Q2 [Q3 Q4]]]. rewrite Q1. cbn [a_failed a0 t_err t_tree t_changed t_removed]. intros _.
    split; [|split; [|split]].
    + intros q Hq. rewrite foe_remove_all. split; [apply Q2; assumption|].
      destruct (r_err (R t q)) eqn:E; [|reflexivity]. assert (X : existsb (fun q => r_err (R t q)) ord1 = true) by (apply existsb_exists; exists q; tauto). congruence.
    + intros q Hq. rewrite foe_remove_all. apply P1. assumption.
    + rewrite Q3. reflexivity.
    + rewrite Q4. reflexivity.
Qed.

(* the call fails exactly when the per-directory call of SOME visited directory fails, wherever it is in the order *)
Theorem tree_failure_points : forall t ord1 ord2, NoDup ord1 -> WfC -> (forall q, NoDup (names (foe t q))) ->
  valid_tree_input mt content = true ->
  (t_err (ets t ord1 ord2) = true <-> exists q, In q ord1 /\ r_err (R t q) = true).
Proof.
  intros t ord1 ord2 ND WC WF V. unfold ets, ensure_tree_state. rewrite V. cbn [negb].
  set (a0 := mkAcc t [] [] [] false).
  destruct (loop1_spec ord1 a0 ND WC (fun q _ => WF q) eq_refl) as [P1 [P2 [P3 P4]]]. cbn [a_t a0] in *.
  assert (EQV : (exists q, In q ord1 /\ r_err (R t q) = true) <-> existsb (fun q => r_err (R t q)) ord1 = true)
    by (symmetry; apply existsb_exists).
  rewrite EQV. clear EQV. destruct (existsb (fun q => r_err (R t q)) ord1) eqn:EX.
  - rewrite (P3 eq_refl). destruct (loop2_spec ord2 (mkAcc (a_t (loop1 mt um out content ord1 a0)) [] (a_removed (loop1 mt um out content ord1 a0)) (a_maybe (loop1 mt um out content ord1 a0)) true)) as [_ [Q2 _]].
    cbn [t_err]. rewrite Q2. cbn. tauto.
  - destruct (P4 eq_refl) as [Q1 _]. rewrite Q1. cbn. rewrite Q1. tauto.
Qed.

(* FAIL CLOSED across directories: if any directory fails, nothing is reported changed, non-matching files are untouched
   everywhere, and in EVERY directory the erase pass visits — also those synchronised successfully before the failure and
   those not reached — no matching entry is left unless os.Remove cannot remove it; directories visited by neither loop
   keep their files *)
Theorem tree_fail_closed : forall t ord1 ord2, NoDup ord1 -> WfC -> (forall q, NoDup (names (foe t q))) ->
  valid_tree_input mt content = true -> t_err (ets t ord1 ord2) = true ->
  t_changed (ets t ord1 ord2) = []
  /\ (forall q n, mt n = false -> file_at (t_tree (ets t ord1 ord2)) q n = file_at t q n)
  /\ (forall q n v, In q ord2 -> mt n = true -> file_at (t_tree (ets t ord1 ord2)) q n = Some v -> removable v = false)
  /\ (forall q, ~ In q ord1 -> ~ In q ord2 -> foe (t_tree (ets t ord1 ord2)) q = foe t q).
Proof.
  intros t ord1 ord2 ND WC WF V. unfold ets, ensure_tree_state. rewrite V. cbn [negb].
  set (a0 := mkAcc t [] [] [] false).
  destruct (loop1_spec ord1 a0 ND WC (fun q _ => WF q) eq_refl) as [P1 [P2 [P3 P4]]]. cbn [a_t a0] in *.
  destruct (existsb (fun q => r_err (R t q)) ord1) eqn:EX.
  2:{ destruct (P4 eq_refl) as [Q1 _]. rewrite Q1. cbn. rewrite Q1. discriminate. }
  rewrite (P3 eq_refl). intros _.
  set (a1 := loop1 mt um out content ord1 a0) in *.
  destruct (loop2_spec ord2 (mkAcc (a_t a1) [] (a_removed a1) (a_maybe a1) true)) as [Q1 [Q2 [Q3 [Q4 Q5]]]].
  cbn [t_changed t_tree a_t a_changed] in *. split; [|split; [|split]].
  - rewrite Q1. reflexivity.
  - intros q n M. unfold file_at. rewrite foe_remove_all, (Q4 q n M). apply P2. assumption.
  - intros q n v Hq M L. unfold file_at in L. rewrite foe_remove_all in L. apply (Q5 q n v); [left; assumption | assumption | assumption].
  - intros q H1 H2. rewrite foe_remove_all, (Q3 q H2). apply P1. assumption.
Qed.

Theorem tree_bad_input_no_effect : forall t ord1 ord2, valid_tree_input mt content = false ->
  ets t ord1 ord2 = mkT t [] [] true.
Proof. intros t ord1 ord2 V. unfold ets, ensure_tree_state. rewrite V. reflexivity. Qed.

(* ---- the same in the wording of the property, file by file *)
Lemma tlookup_In : forall (A : Type) (c : list (path * A)) q v, tlookup c q = Some v -> In (q, v) c.
Proof.
  induction c as [|[k w] r IH]; intros q v H; cbn in H; [discriminate|].
  destruct (path_eqb_spec k q); [inversion H; subst; left; reflexivity | right; apply IH; assumption].
Qed.
Lemma valid_tree_dir : forall q, valid_tree_input mt content = true -> valid_input mt (content_of content q) = true.
Proof.
  intros q V. unfold content_of. destruct (tlookup content q) as [dc|] eqn:L; [|reflexivity].
  apply tlookup_In in L. unfold valid_tree_input in V. rewrite forallb_forall in V. specialize (V _ L). cbn in V.
  apply andb_true_iff in V. destruct V as [_ V]. exact V.
Qed.

(* success, file by file: in every visited directory the files matching the globs are exactly the desired ones (each the old
   file already in the desired state, or the freshly written one), every other file of the tree is untouched *)
Theorem tree_success_files : forall t ord1 ord2, NoDup ord1 -> WfC -> (forall q, NoDup (names (foe t q))) ->
  t_err (ets t ord1 ord2) = false ->
  forall q n,
  (mt n = false -> file_at (t_tree (ets t ord1 ord2)) q n = file_at t q n)
  /\ (In q ord1 -> mt n = true ->
      match lookup (content_of content q) n with
      | None => file_at (t_tree (ets t ord1 ord2)) q n = None
      | Some ds => exists v, file_at (t_tree (ets t ord1 ord2)) q n = Some v /\
                   ((file_at t q n = Some v /\ in_state out (Some v) ds = true) \/
                    (v = written um ds /\ in_state out (file_at t q n) ds = false))
      end).
Proof.
  intros t ord1 ord2 ND WC WF E q n.
  destruct (tree_success t ord1 ord2 ND WC WF E) as [T1 [T2 _]].
  split.
  - intro M. unfold file_at. destruct (in_dec (list_eq_dec (list_eq_dec N.eq_dec)) q ord1) as [I | I].
    + destruct (T1 q I) as [F ER]. rewrite F. unfold R. apply (nonmatching_untouched mt um out _ _ (WF q) (WC q) n M).
    + rewrite (T2 q I). reflexivity.
  - intros I M. destruct (T1 q I) as [F ER]. unfold file_at. rewrite F. unfold R in *.
    destruct (success_exact mt um out (foe t q) (content_of content q) (WF q) (WC q) ER) as [_ [B _]]. apply (B n M).
Qed.

(* ... and the reported lists are exact: a path is reported changed iff it is a desired file that was not already in the
   desired state; removed iff it matched the globs, existed and is not desired (paths = directory joined with the name) *)
Theorem tree_lists_exact : forall t ord1 ord2, NoDup ord1 -> WfC -> (forall q, NoDup (names (foe t q))) ->
  t_err (ets t ord1 ord2) = false ->
  (forall x, In x (t_changed (ets t ord1 ord2)) <->
     exists q n ds, In q ord1 /\ x = join q n /\ lookup (content_of content q) n = Some ds /\ in_state out (file_at t q n) ds = false)
  /\ (forall x, In x (t_removed (ets t ord1 ord2)) <->
     exists q n, In q ord1 /\ x = join q n /\ mt n = true /\ lookup (content_of content q) n = None /\ file_at t q n <> None)
  /\ StronglySorted le (t_changed (ets t ord1 ord2)) /\ StronglySorted le (t_removed (ets t ord1 ord2)).
Proof.
  intros t ord1 ord2 ND WC WF E.
  destruct (tree_success t ord1 ord2 ND WC WF E) as [T1 [_ [TC TR]]].
  assert (PD : forall q, In q ord1 ->
     (forall n, In n (r_changed (R t q)) <-> exists ds, lookup (content_of content q) n = Some ds /\ in_state out (file_at t q n) ds = false)
     /\ (forall n, In n (r_removed (R t q)) <-> mt n = true /\ lookup (content_of content q) n = None /\ file_at t q n <> None)).
  { intros q I. destruct (T1 q I) as [_ ER]. unfold R in *.
    destruct (success_exact mt um out (foe t q) (content_of content q) (WF q) (WC q) ER) as [_ [_ [C [D _]]]]. split; assumption. }
  split; [|split; [|split]].
  - intro x. rewrite TC, sort_In, in_flat_map. split.
    + intros [q [I H]]. apply in_map_iff in H. destruct H as [n [Ex Hn]]. apply (proj1 (PD q I)) in Hn. destruct Hn as [ds [L S]].
      exists q, n, ds. repeat split; auto.
    + intros [q [n [ds [I [Ex [L S]]]]]]. exists q. split; [assumption|]. apply in_map_iff. exists n. split; [auto|].
      apply (proj1 (PD q I)). exists ds. tauto.
  - intro x. rewrite TR, sort_In, in_flat_map. split.
    + intros [q [I H]]. apply in_map_iff in H. destruct H as [n [Ex Hn]]. apply (proj2 (PD q I)) in Hn.
      exists q, n. repeat split; try tauto; auto.
    + intros [q [n [I [Ex H]]]]. exists q. split; [assumption|]. apply in_map_iff. exists n. split; [auto|].
      apply (proj2 (PD q I)). exact H.
  - rewrite TC. apply sort_sorted.
  - rewrite TR. apply sort_sorted.
Qed.

(* every failure index, file by file: when every entry of the tree is removable (files, symlinks), the call fails exactly
   when SOME desired entry of SOME visited directory cannot be ensured against the initial tree *)
Theorem tree_failure_index : forall t ord1 ord2, NoDup ord1 -> WfC -> (forall q, NoDup (names (foe t q))) ->
  (forall q n v, file_at t q n = Some v -> removable v = true) ->
  valid_tree_input mt content = true ->
  (t_err (ets t ord1 ord2) = true <->
   exists q n ds, In q ord1 /\ In (n, ds) (content_of content q) /\ efs um out (file_at t q n) ds = FErr).
Proof.
  intros t ord1 ord2 ND WC WF REM V. rewrite (tree_failure_points t ord1 ord2 ND WC WF V). split.
  - intros [q [I ER]]. unfold R in ER.
    pose proof (err_is_wfail mt um out (foe t q) (content_of content q) (WF q) (WC q) (REM q) ER (valid_tree_dir q V)) as W.
    apply (failure_points mt um out _ _ (WF q) (WC q) (valid_tree_dir q V)) in W. destruct W as [n [ds [H1 H2]]].
    exists q, n, ds. tauto.
  - intros [q [n [ds [I [H1 H2]]]]]. exists q. split; [assumption|]. unfold R.
    assert (W : r_wfail (eds mt um out (foe t q) (content_of content q)) = true).
    { apply (failure_points mt um out _ _ (WF q) (WC q) (valid_tree_dir q V)). exists n, ds. tauto. }
    destruct (fail_closed mt um out _ _ (WF q) (WC q) W) as [ER _]. exact ER.
Qed.
End Tree.
