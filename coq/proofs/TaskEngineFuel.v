(* Proofs about models/TaskEngine.v, part 6: the fuel bounds of the model are never hit.
   abortTasks' worklist loop terminates because every iteration either drops a seen element or marks a new task seen
   (measure: worklist length + sum over unseen tasks of 1 + number of halt tasks); the abortLanes/abortTasks nesting
   terminates because every nested abortLanes call kills at least one lane that was not killed before. Hence the flag
   oof stays false in every execution. Stdlib only. *)
From Coq Require Import List NArith ZArith Bool Arith Lia.
Import ListNotations.
Require Import V.models.TaskEngine V.proofs.TaskEngineProofs V.proofs.TaskEngineStatus V.proofs.TaskEngineReady
               V.proofs.TaskEngineDoing.

(* ------------------------------------------------------------------ oof is only written by the fuel checks *)
Lemma oof_change_st : forall s t nw, oof (change_st s t nw) = oof s.
Proof. intros; unfold change_st, with_panicked, with_cready, with_tasks; repeat des_if; reflexivity. Qed.
Lemma oof_set_status : forall s t nw, oof (set_status s t nw) = oof s.
Proof. intros; unfold set_status; repeat des_if; auto using oof_change_st. Qed.
Lemma oof_set_status_quiet : forall s t nw, oof (set_status_quiet s t nw) = oof s.
Proof. intros; unfold set_status_quiet, with_tasks; des_if; reflexivity. Qed.
Lemma oof_set_to_wait : forall s t ws, oof (set_to_wait s t ws) = oof s.
Proof. intros; unfold set_to_wait; repeat des_if; auto. rewrite oof_change_st; reflexivity. Qed.
Lemma oof_try_undo : forall s t, oof (try_undo s t) = oof s.
Proof. intros; unfold try_undo; des_if; apply oof_set_status. Qed.
Lemma oof_abort_write : forall s t, oof (abort_write s t) = oof s.
Proof. intros; unfold abort_write; destruct (eff_status (get s t)); auto using oof_set_status_quiet. Qed.
Lemma oof_run : forall s t, oof (run s t) = oof s.
Proof.
  intros; unfold run; cbn [oof with_slog with_running with_tasks].
  destruct (t_st (get s t)); auto using oof_set_status.
Qed.
Lemma oof_ensure_rest : forall s t, oof (ensure_rest s t) = oof s.
Proof. intros; unfold ensure_rest; repeat des_if; auto using oof_set_status, oof_run. Qed.
Lemma oof_ensure_one : forall s t, oof (ensure_one s t) = oof s.
Proof. intros; unfold ensure_one; repeat des_if; auto using oof_ensure_rest. rewrite oof_ensure_rest; apply oof_try_undo. Qed.
Lemma oof_ensure_pass : forall order s, oof (ensure_pass s order) = oof s.
Proof. unfold ensure_pass; induction order; simpl; intros; auto. rewrite IHorder; apply oof_ensure_one. Qed.

(* ------------------------------------------------------------------ the worklist loop *)
(* weight of the unseen tasks, computed on the (constant) shapes *)
Fixpoint wsum (sh : list (list nat * list nat)) (i : nat) (seen : list nat) : nat :=
  match sh with
  | [] => 0
  | x :: r => (if memn i seen then 0 else S (length (snd x))) + wsum r (S i) seen
  end.

Lemma wsum_le : forall sh i seen t, wsum sh i (t :: seen) <= wsum sh i seen.
Proof.
  induction sh as [|x r IH]; intros i seen t; simpl; [lia|].
  specialize (IH (S i) seen t). destruct (Nat.eqb i t); simpl; destruct (memn i seen); lia.
Qed.

Lemma wsum_drop : forall sh i seen t,
  i <= t -> t < i + length sh -> memn t seen = false ->
  wsum sh i (t :: seen) + S (length (snd (nth (t - i) sh ([], [])))) <= wsum sh i seen.
Proof.
  induction sh as [|x r IH]; intros i seen t Hi Hl Hs; [exfalso; simpl in Hl; lia|].
  simpl in *. destruct (Nat.eq_dec i t) as [->|N].
  - rewrite Nat.eqb_refl, Hs, Nat.sub_diag. simpl. pose proof (wsum_le r (S t) seen t). lia.
  - assert (E : Nat.eqb i t = false) by (apply Nat.eqb_neq; assumption). rewrite E. simpl.
    replace (t - i) with (S (t - S i)) by lia. simpl.
    assert (A1 : S i <= t) by lia. assert (A2 : t < S i + length r) by lia.
    specialize (IH (S i) seen t A1 A2 Hs). destruct (memn i seen); lia.
Qed.

Definition hw (tk : task) (a : nat) : nat := S (length (t_halts tk)) + a.

Lemma wsum_total : forall l i seen, wsum (map shape l) i seen <= fold_right hw 0 l.
Proof.
  induction l as [|tk l IH]; intros i seen; [simpl; lia|].
  cbn [map wsum fold_right]. change (snd (shape tk)) with (t_halts tk). unfold hw at 1.
  specialize (IH (S i) seen). destruct (memn i seen); lia.
Qed.

Lemma filter_length_le : forall (A : Type) (p : A -> bool) (l : list A), length (filter p l) <= length l.
Proof. induction l as [|a l IH]; simpl; [lia|]. destruct (p a); simpl; lia. Qed.

Definition mu (s : state) (seen wl : list nat) : nat := length wl + wsum (shapes s) 0 seen.

Lemma shapes_abort_write : forall s t, shapes (abort_write s t) = shapes s.
Proof. intros. apply frame_abort_write. Qed.

Lemma abort_loop_fuel_ok : forall f wl al seen s lanes,
  mu s seen wl < f -> oof (fst (fst (abort_loop f wl al seen s lanes))) = oof s.
Proof.
  induction f; intros wl al seen s lanes H; [lia|].
  destruct wl as [|t rest]; [reflexivity|].
  rewrite abort_loop_S. destruct (memn t seen) eqn:Em.
  - apply IHf. unfold mu in *. simpl in H. lia.
  - rewrite IHf; [apply oof_abort_write|].
    unfold mu in *. rewrite shapes_abort_write. rewrite app_length. simpl in H.
    pose proof (filter_length_le _ (fun h => negb (memn h (t :: seen))) (t_halts (get s t))) as Hf.
    destruct (Nat.lt_ge_cases t (length (shapes s))) as [L|L].
    + pose proof (wsum_drop (shapes s) 0 seen t (Nat.le_0_l t) L Em) as Hd.
      rewrite Nat.sub_0_r in Hd. rewrite <- hts_shapes in Hd. unfold hts in Hd. lia.
    + assert (E : t_halts (get s t) = []).
      { unfold get. rewrite nth_overflow; [reflexivity|]. rewrite len_shapes. assumption. }
      rewrite E in *. simpl in *. pose proof (wsum_le (shapes s) 0 seen t). lia.
Qed.

Lemma loop_fuel_enough : forall s wl seen, mu s seen wl < loop_fuel s wl.
Proof.
  intros. unfold mu, loop_fuel, shapes.
  change (fold_right (fun tk a => S (length (t_halts tk)) + a) 0 (tasks s)) with (fold_right hw 0 (tasks s)).
  pose proof (wsum_total (tasks s) 0 seen). lia.
Qed.

(* ------------------------------------------------------------------ the nesting depth *)
Definition univ (s : state) : list nat := 0 :: flat_map lanes_of (tasks s).
Definition nu (s : state) (al : list nat) : nat := length (filter (fun x => negb (memn x al)) (univ s)).

Lemma lanes_abort_write : forall s t, map t_lanes (tasks (abort_write s t)) = map t_lanes (tasks s).
Proof.
  intros. unfold abort_write. destruct (eff_status (get s t)); try reflexivity;
    unfold set_status_quiet, with_tasks; simpl; cbn [tasks];
    (generalize (tasks s) t; induction l as [|a l IH]; intros [|k]; simpl; auto; rewrite IH; reflexivity).
Qed.

Lemma univ_lanes_eq : forall s s', map t_lanes (tasks s') = map t_lanes (tasks s) -> univ s' = univ s.
Proof.
  intros s s' E. unfold univ. f_equal.
  assert (X : forall l, flat_map lanes_of l = flat_map (fun ls => match ls with [] => [0] | _ => ls end) (map t_lanes l)).
  { induction l; simpl; [reflexivity|]. rewrite IHl. unfold lanes_of. destruct (t_lanes a); reflexivity. }
  rewrite !X, E. reflexivity.
Qed.

Lemma lanes_in_univ : forall s t x, In x (lanes_of (get s t)) -> In x (univ s).
Proof.
  intros s t x H. unfold univ, get in *.
  destruct (Nat.lt_ge_cases t (length (tasks s))) as [L|L].
  - right. apply in_flat_map. exists (nth t (tasks s) dummy). split; [apply nth_In; assumption | assumption].
  - rewrite nth_overflow in H by assumption. destruct H as [<-|[]]. left; reflexivity.
Qed.

Lemma filter_length_lt : forall (A : Type) (p p' : A -> bool) (l : list A) x,
  (forall y, p' y = true -> p y = true) -> In x l -> p x = true -> p' x = false ->
  length (filter p' l) < length (filter p l).
Proof.
  induction l as [|a l IH]; intros x Himp Hin Hp Hp'; [destruct Hin|].
  assert (Le : forall l0, length (filter p' l0) <= length (filter p l0)).
  { induction l0 as [|b l0 IH0]; simpl; [lia|]. destruct (p' b) eqn:E; [rewrite (Himp b E); simpl; lia|].
    destruct (p b); simpl; lia. }
  simpl. destruct Hin as [<-|Hin].
  - rewrite Hp, Hp'. simpl. specialize (Le l). lia.
  - specialize (IH x Himp Hin Hp Hp'). destruct (p' a) eqn:E; [rewrite (Himp a E); simpl; lia|].
    destruct (p a); simpl; lia.
Qed.

(* what the loop collects: a non-empty lane list contains a lane of the universe that was not yet aborted *)
Definition fresh_lane (s : state) (al lanes : list nat) : Prop :=
  lanes = [] \/ exists x, In x lanes /\ In x (univ s) /\ memn x al = false.

Lemma flat_map_all_in : forall (al L l : list nat),
  (forall x, In x l -> memn x al = true) -> flat_map (fun x => if memn x al then [] else L) l = [].
Proof.
  induction l as [|a l IH]; intros H; simpl; [reflexivity|].
  rewrite H by (left; reflexivity). simpl. apply IH. intros x Hx. apply H. right; assumption.
Qed.

Lemma extra_lanes_fresh : forall s t al,
  extra_lanes (get s t) al = [] \/
  exists x, In x (extra_lanes (get s t) al) /\ In x (univ s) /\ memn x al = false.
Proof.
  intros s t al. unfold extra_lanes.
  destruct (existsb (fun x => negb (memn x al)) (lanes_of (get s t))) eqn:E.
  - right. apply existsb_exists in E. destruct E as (x & Hx & Hn). apply negb_true_iff in Hn.
    exists x. split; [|split; [eapply lanes_in_univ; eauto | assumption]].
    apply in_flat_map. exists x. split; [assumption|]. rewrite Hn. assumption.
  - left. assert (N : forall x, In x (lanes_of (get s t)) -> memn x al = true).
    { intros x Hx. destruct (memn x al) eqn:Em; [reflexivity|].
      assert (F : existsb (fun x => negb (memn x al)) (lanes_of (get s t)) = true)
        by (apply existsb_exists; exists x; split; [assumption | rewrite Em; reflexivity]). congruence. }
    apply flat_map_all_in; assumption.
Qed.

Lemma abort_loop_fresh : forall f wl al seen s lanes,
  fresh_lane s al lanes ->
  fresh_lane s al (snd (abort_loop f wl al seen s lanes)) /\
  map t_lanes (tasks (fst (fst (abort_loop f wl al seen s lanes)))) = map t_lanes (tasks s).
Proof.
  induction f; intros wl al seen s lanes H.
  - simpl. split; [assumption|]. destruct wl; reflexivity.
  - destruct wl as [|t rest]; [split; [assumption | reflexivity]|].
    rewrite abort_loop_S. destruct (memn t seen); [apply IHf; assumption|].
    assert (U : univ (abort_write s t) = univ s) by (apply univ_lanes_eq, lanes_abort_write).
    destruct (IHf (rest ++ filter (fun h => negb (memn h (t :: seen))) (t_halts (get s t))) al (t :: seen)
                  (abort_write s t) (lanes ++ extra_lanes (get s t) al)) as [A B].
    + unfold fresh_lane. rewrite U.
      destruct H as [->|(x & Hx & Hu & Hm)].
      * simpl. destruct (extra_lanes_fresh s t al) as [E|E]; [left; assumption | right; assumption].
      * right. exists x. split; [apply in_or_app; left; assumption | split; assumption].
    + split; [unfold fresh_lane in *; rewrite U in A; exact A | rewrite B; apply lanes_abort_write].
Qed.

Lemma nu_shrinks : forall s al lanes,
  (exists x, In x lanes /\ In x (univ s) /\ memn x al = false) -> nu s (lanes ++ al) < nu s al.
Proof.
  intros s al lanes (x & Hx & Hu & Hm). unfold nu.
  apply filter_length_lt with x; auto.
  - intros y Hy. apply negb_true_iff in Hy. apply negb_true_iff.
    destruct (memn y al) eqn:E; [|reflexivity]. apply memn_In in E.
    assert (F : memn y (lanes ++ al) = true) by (apply memn_In, in_or_app; right; assumption). congruence.
  - rewrite Hm; reflexivity.
  - apply negb_false_iff, memn_In, in_or_app. left; assumption.
Qed.

Lemma nu_mono : forall s al kill, nu s (kill ++ al) <= nu s al.
Proof.
  intros. unfold nu. induction (univ s) as [|a l IH]; simpl; [lia|].
  destruct (memn a al) eqn:E.
  - assert (F : memn a (kill ++ al) = true) by (apply memn_In, in_or_app; right; apply memn_In; assumption).
    rewrite F. simpl. assumption.
  - simpl. destruct (memn a (kill ++ al)); simpl; lia.
Qed.

Lemma abort_lanes_fuel_ok : forall d kill al seen s,
  nu s (kill ++ al) < d -> oof (abort_lanes d kill al seen s) = oof s.
Proof.
  induction d; intros kill al seen s H; [lia|].
  rewrite abort_lanes_S. destruct (select_abort (tasks s) kill) eqn:Es; [reflexivity|]. rewrite <- Es.
  pose proof (abort_loop_fuel_ok (loop_fuel s (select_abort (tasks s) kill)) (select_abort (tasks s) kill)
                                 (kill ++ al) seen s [] (loop_fuel_enough s _ seen)) as Ho.
  destruct (abort_loop_fresh (loop_fuel s (select_abort (tasks s) kill)) (select_abort (tasks s) kill)
                             (kill ++ al) seen s [] (or_introl eq_refl)) as [Hf Hl].
  destruct (abort_loop _ _ _ _ _ _) as [[s1 seen1] lanes]; cbn [fst snd abort_cont] in *.
  destruct lanes as [|l0 lanes]; [assumption|].
  rewrite IHd; [assumption|].
  assert (U : univ s1 = univ s) by (apply univ_lanes_eq; assumption).
  destruct Hf as [F|F]; [discriminate|].
  pose proof (nu_shrinks s (kill ++ al) (l0 :: lanes) F) as N1.
  unfold nu in *. rewrite U. lia.
Qed.

Lemma nu_nil : forall s, nu s [] < depth_fuel s.
Proof.
  intros. unfold nu, depth_fuel, univ. simpl.
  pose proof (filter_length_le _ (fun _ : nat => true) (flat_map lanes_of (tasks s))). simpl in *. lia.
Qed.

Theorem oof_abort_lanes_top : forall s lanes, oof (abort_lanes_top s lanes) = oof s.
Proof.
  intros. unfold abort_lanes_top. rewrite oof_ready_detect. apply abort_lanes_fuel_ok.
  pose proof (nu_mono s [] lanes). pose proof (nu_nil s). lia.
Qed.

Theorem oof_abort_change : forall s, oof (abort_change s) = oof s.
Proof.
  intros. unfold abort_change. rewrite oof_ready_detect, abort_tasks_eq.
  set (wl := seq 0 (length (tasks s))).
  pose proof (abort_loop_fuel_ok (loop_fuel s wl) wl [] [] s [] (loop_fuel_enough s wl [])) as Ho.
  destruct (abort_loop_fresh (loop_fuel s wl) wl [] [] s [] (or_introl eq_refl)) as [Hf Hl].
  destruct (abort_loop _ _ _ _ _ _) as [[s1 seen1] lanes]; cbn [fst snd abort_cont] in *.
  destruct lanes as [|l0 lanes]; [assumption|].
  rewrite abort_lanes_fuel_ok; [assumption|].
  assert (U : univ s1 = univ s) by (apply univ_lanes_eq; assumption).
  pose proof (nu_mono s [] (l0 :: lanes)). pose proof (nu_nil s). unfold nu in *. rewrite U. lia.
Qed.

Lemma oof_finish : forall s t o, oof (finish s t o) = oof s.
Proof.
  intros; unfold finish. destruct (panicked s); [reflexivity|]. destruct (negb (memn t (running s))); [reflexivity|].
  destruct o.
  - destruct (st (remove_running s t) t); rewrite ?oof_set_status; reflexivity.
  - rewrite oof_set_status, oof_abort_lanes_top. reflexivity.
  - repeat des_if; rewrite ?oof_try_undo; reflexivity.
  - repeat des_if; rewrite ?oof_try_undo, ?oof_set_to_wait; reflexivity.
Qed.

Theorem oof_step : forall s e, oof (step s e) = oof s.
Proof.
  intros s e; destruct e; simpl.
  - apply oof_ensure_pass.
  - apply oof_finish.
  - des_if; [reflexivity | apply oof_abort_change].
  - reflexivity.
  - des_if; [reflexivity|]. unfold resolve_wait; des_if; rewrite ?oof_set_status; reflexivity.
Qed.

(* the fuel bounds of the model are never hit: every execution from every graph *)
Theorem oof_never : forall (g : list tdesc) (es : list event), oof (run_events (init_state g) es) = false.
Proof.
  intros g es. assert (H : forall es s, oof (run_events s es) = oof s).
  { unfold run_events. induction es0; simpl; intros s; [reflexivity|]. rewrite IHes0. apply oof_step. }
  rewrite H. reflexivity.
Qed.
