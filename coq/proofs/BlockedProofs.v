(* C07 — proofs about models/Blocked.v *)
From Coq Require Import List NArith Bool Btauto String Sorting.Permutation.
Import ListNotations.
Require Import V.lib.Bytes V.models.Blocked.
Require V.gen.BlockedKinds.
Open Scope N_scope.

Local Arguments is_hook : simpl never.
Local Arguments is_iface : simpl never.
Local Arguments is_prereq : simpl never.
Local Arguments is_gadget : simpl never.
Local Arguments conflict : simpl never.

(* ------------------------------------------------------------------------------------------ helpers *)

Lemma beq_sym : forall a b, beq a b = beq b a.
Proof.
  induction a as [|x a IH]; destruct b as [|y b]; cbn; try reflexivity.
  rewrite IH, N.eqb_sym. reflexivity.
Qed.

(* the part of `conflict` that concerns two run-hook tasks *)
Definition hook_conflict (a b : task) : bool :=
  is_hook a && is_hook b &&
  match t_hook_snap a, t_hook_snap b with Some x, Some y => beq x y | _, _ => false end.

Lemma hook_conflict_sym : forall a b, hook_conflict a b = hook_conflict b a.
Proof.
  intros a b. unfold hook_conflict. destruct (t_hook_snap a), (t_hook_snap b); try rewrite (beq_sym b0 b1);
    destruct (is_hook a), (is_hook b); reflexivity.
Qed.

Lemma conflict_alt : forall a b,
  conflict a b = hook_conflict a b || (is_iface a && is_iface b) || (is_prereq a && is_prereq b) || is_gadget a || is_gadget b.
Proof. reflexivity. Qed.

Lemma conflict_sym : forall a b, conflict a b = conflict b a.
Proof.
  intros a b. rewrite !conflict_alt, (hook_conflict_sym a b).
  destruct (hook_conflict b a), (is_iface a), (is_iface b), (is_prereq a), (is_prereq b), (is_gadget a), (is_gadget b);
    reflexivity.
Qed.

(* ------------------------------------------------------------------------------------------ the predicates, one running task at a time *)

Lemma hook_blocked_cons : forall t u r, hook_blocked t (u :: r) = hook_conflict t u || hook_blocked t r.
Proof.
  intros t u r. unfold hook_blocked, hook_conflict. destruct (is_hook t); [|reflexivity].
  destruct (t_hook_snap t) as [s|]; [|rewrite andb_false_r; reflexivity].
  cbn [existsb]. cbn [andb]. destruct (is_hook u); cbn [andb]; [|reflexivity].
  destruct (t_hook_snap u) as [s'|]; [rewrite (beq_sym s' s)|]; reflexivity.
Qed.

Lemma iface_blocked_cons : forall t u r, iface_blocked t (u :: r) = (is_iface t && is_iface u) || iface_blocked t r.
Proof. intros t u r. unfold iface_blocked. destruct (is_iface t); reflexivity. Qed.

Lemma prereq_blocked_cons : forall t u r, prereq_blocked t (u :: r) = (is_prereq t && is_prereq u) || prereq_blocked t r.
Proof. intros t u r. unfold prereq_blocked. destruct (is_prereq t); reflexivity. Qed.

Lemma gadget_blocked_cons : forall t u r, gadget_blocked t (u :: r) = is_gadget t || is_gadget u || gadget_blocked t r.
Proof.
  intros t u r. unfold gadget_blocked. cbn [existsb is_nil_b negb].
  destruct (is_gadget t), (is_gadget u), (existsb is_gadget r), (is_nil_b r); reflexivity.
Qed.

Lemma blocked_nil : forall t, blocked t [] = false.
Proof.
  intro t. unfold blocked, verdicts, hook_blocked, iface_blocked, prereq_blocked, gadget_blocked.
  cbn [existsb is_nil_b negb].
  destruct (is_hook t), (t_hook_snap t), (is_prereq t), (is_iface t), (is_gadget t); reflexivity.
Qed.

Lemma blocked_cons : forall t u r, blocked t (u :: r) = conflict t u || blocked t r.
Proof.
  intros t u r. unfold blocked, verdicts. cbn [existsb].
  rewrite hook_blocked_cons, iface_blocked_cons, prereq_blocked_cons, gadget_blocked_cons, conflict_alt.
  generalize (hook_conflict t u) (hook_blocked t r) (iface_blocked t r) (prereq_blocked t r) (gadget_blocked t r)
             (is_iface t) (is_iface u) (is_prereq t) (is_prereq u) (is_gadget t) (is_gadget u).
  intros. btauto.
Qed.

(* a task is blocked exactly when it conflicts with something running: the four registered predicates together
   implement the conflict relation *)
Lemma blocked_is_conflict : forall t r, blocked t r = existsb (conflict t) r.
Proof.
  intros t r. induction r as [|u r IH]; [apply blocked_nil|].
  rewrite blocked_cons, IH. reflexivity.
Qed.

(* ------------------------------------------------------------------------------------------ excl *)

Lemma excl_app_one : forall l t, excl (l ++ [t]) = excl l && negb (existsb (fun u => conflict u t) l).
Proof.
  induction l as [|x l IH]; intro t; cbn; [reflexivity|].
  rewrite IH, existsb_app. cbn. rewrite orb_false_r.
  destruct (existsb (conflict x) l), (conflict x t), (excl l), (existsb (fun u => conflict u t) l); reflexivity.
Qed.

Lemma existsb_handlers_filter : forall p q tb,
  existsb p (handlers (List.filter q tb)) = true -> existsb p (handlers tb) = true.
Proof.
  intros p q tb. unfold handlers. induction tb as [|[x c] tb IH]; cbn; [auto|].
  destruct (q (x, c)); cbn; destruct c; cbn; auto.
  - intro H. apply orb_true_iff in H. destruct H as [H|H]; [rewrite H; reflexivity | rewrite (IH H); apply orb_true_r].
  - intro H. rewrite (IH H). apply orb_true_r.
Qed.

Lemma excl_handlers_filter : forall q tb, excl (handlers tb) = true -> excl (handlers (List.filter q tb)) = true.
Proof.
  intros q tb. unfold handlers. induction tb as [|[x c] tb IH]; cbn; [auto|].
  destruct c; cbn.
  - destruct (q (x, true)); cbn; exact IH.
  - intro H. apply andb_true_iff in H. destruct H as [H1 H2].
    destruct (q (x, false)); cbn; [|apply IH; exact H2].
    apply andb_true_iff. split; [|apply IH; exact H2].
    apply negb_true_iff. apply negb_true_iff in H1.
    destruct (existsb (conflict x) (map fst (List.filter (fun y => negb (snd y)) (List.filter q tb)))) eqn:E; [|reflexivity].
    apply (existsb_handlers_filter (conflict x) q tb) in E. unfold handlers in E. congruence.
Qed.

Lemma handlers_app : forall a b, handlers (a ++ b) = handlers a ++ handlers b.
Proof. intros a b. unfold handlers. rewrite filter_app, map_app. reflexivity. Qed.

(* ------------------------------------------------------------------------------------------ one Ensure pass *)

Lemma ensure_loop_excl : forall cs tb running,
  excl (handlers tb) = true -> (forall u, In u (handlers tb) -> In u running) ->
  excl (handlers (ensure_loop tb running cs)) = true.
Proof.
  induction cs as [|c cs IH]; intros tb running HE HS; cbn [ensure_loop]; [exact HE|].
  destruct c as [t|t|].
  - destruct (has_tomb (t_id t) tb); [apply IH; assumption|].
    destruct (blocked t running) eqn:B; [apply IH; assumption|].
    apply IH.
    + rewrite handlers_app. cbn. rewrite excl_app_one, HE. cbn [andb]. apply negb_true_iff.
      rewrite blocked_is_conflict in B.
      destruct (existsb (fun u => conflict u t) (handlers tb)) eqn:E; [|reflexivity].
      apply existsb_exists in E. destruct E as [u [Hu1 Hu2]].
      assert (existsb (conflict t) running = true).
      { apply existsb_exists. exists u. split; [apply HS; exact Hu1 | rewrite conflict_sym; exact Hu2]. }
      congruence.
    + intros u Hu. rewrite handlers_app in Hu. apply in_app_iff in Hu. apply in_app_iff.
      destruct Hu as [Hu|Hu]; [left; apply HS; exact Hu | right; exact Hu].
  - destruct (has_tomb (t_id t) tb); [apply IH; assumption|].
    apply IH.
    + rewrite handlers_app. cbn. rewrite app_nil_r. exact HE.
    + intros u Hu. rewrite handlers_app in Hu. cbn in Hu. rewrite app_nil_r in Hu. apply HS. exact Hu.
  - apply IH; assumption.
Qed.

Lemma handlers_in_all : forall tb u, In u (handlers tb) -> In u (map fst tb).
Proof.
  intros tb u H. unfold handlers in H. apply in_map_iff in H. destruct H as [x [H1 H2]]. apply filter_In in H2.
  apply in_map_iff. exists x. tauto.
Qed.

Lemma step_excl : forall tb e, excl (handlers tb) = true -> excl (handlers (step tb e)) = true.
Proof.
  intros tb e H. destruct e as [cs|id|ids|]; cbn [step].
  - unfold ensure_pass. apply ensure_loop_excl; [exact H | apply handlers_in_all].
  - apply excl_handlers_filter. exact H.
  - exact H.
  - reflexivity.
Qed.

Theorem excl_invariant : forall evs, excl (handlers (run evs)) = true.
Proof.
  intro evs. unfold run.
  assert (G : forall tb, excl (handlers tb) = true -> excl (handlers (fold_left step evs tb)) = true).
  { induction evs as [|e evs IH]; intros tb H; cbn; [exact H|]. apply IH. apply step_excl. exact H. }
  apply G. reflexivity.
Qed.

(* ------------------------------------------------------------------------------------------ what excl means *)

Lemma excl_pairs : forall l, excl l = true -> ForallOrdPairs (fun a b => conflict a b = false) l.
Proof.
  induction l as [|x l IH]; cbn; intro H; [constructor|].
  apply andb_true_iff in H. destruct H as [H1 H2]. constructor; [|apply IH; exact H2].
  apply negb_true_iff in H1. rewrite Forall_forall. intros y Hy.
  destruct (conflict x y) eqn:E; [|reflexivity].
  assert (existsb (conflict x) l = true) by (apply existsb_exists; exists y; auto). congruence.
Qed.

Lemma excl_in : forall l a b, excl l = true -> In a l -> In b l -> a = b \/ conflict a b = false.
Proof.
  intros l a b H Ha Hb. destruct (ForallOrdPairs_In (excl_pairs l H) a b Ha Hb) as [E|[E|E]]; auto.
  right. rewrite conflict_sym. exact E.
Qed.

Lemma excl_gadget_alone : forall l a, excl l = true -> In a l -> is_gadget a = true -> l = [a].
Proof.
  induction l as [|x l IH]; intros a H Ha Hg; [contradiction|].
  cbn in H. apply andb_true_iff in H. destruct H as [H1 H2]. apply negb_true_iff in H1.
  destruct (is_gadget x) eqn:Gx.
  - destruct l as [|y l].
    + destruct Ha as [->|[]]. reflexivity.
    + cbn in H1. rewrite conflict_alt, Gx in H1. rewrite !orb_true_r in H1. cbn in H1. discriminate.
  - destruct Ha as [->|Ha]; [congruence|].
    assert (existsb (conflict x) l = true).
    { apply existsb_exists. exists a. split; [exact Ha|]. rewrite conflict_alt, Hg. apply orb_true_r. }
    congruence.
Qed.

Theorem no_two_hooks_same_snap : forall evs a b s,
  In a (handlers (run evs)) -> In b (handlers (run evs)) -> a <> b ->
  is_hook a = true -> is_hook b = true -> t_hook_snap a = Some s -> t_hook_snap b = Some s -> False.
Proof.
  intros evs a b s Ha Hb Hne H1 H2 S1 S2.
  destruct (excl_in _ a b (excl_invariant evs) Ha Hb) as [E|E]; [contradiction|].
  unfold conflict in E. rewrite H1, H2, S1, S2 in E. cbn in E.
  assert (beq s s = true) by (clear; induction s as [|x s IH]; cbn; [reflexivity | rewrite N.eqb_refl, IH; reflexivity]).
  rewrite H in E. cbn in E. discriminate.
Qed.

Theorem no_two_iface : forall evs a b,
  In a (handlers (run evs)) -> In b (handlers (run evs)) -> a <> b ->
  is_iface a = true -> is_iface b = true -> False.
Proof.
  intros evs a b Ha Hb Hne H1 H2.
  destruct (excl_in _ a b (excl_invariant evs) Ha Hb) as [E|E]; [contradiction|].
  rewrite conflict_alt, H1, H2 in E. cbn in E. rewrite orb_true_r in E. cbn in E. discriminate.
Qed.

Theorem no_two_prereq : forall evs a b,
  In a (handlers (run evs)) -> In b (handlers (run evs)) -> a <> b ->
  is_prereq a = true -> is_prereq b = true -> False.
Proof.
  intros evs a b Ha Hb Hne H1 H2.
  destruct (excl_in _ a b (excl_invariant evs) Ha Hb) as [E|E]; [contradiction|].
  rewrite conflict_alt, H1, H2 in E. cbn in E. rewrite orb_true_r in E. cbn in E. discriminate.
Qed.

Theorem gadget_alone : forall evs a,
  In a (handlers (run evs)) -> is_gadget a = true -> handlers (run evs) = [a].
Proof. intros evs a Ha Hg. apply excl_gadget_alone; [apply excl_invariant | exact Ha | exact Hg]. Qed.

(* ------------------------------------------------------------------------------------------ gadget update and cleanups *)

(* the direction the predicates do enforce: update-gadget-assets is never started while anything (handler or cleanup
   started in an earlier pass) has a tomb *)
Theorem gadget_waits_for_running : forall t running,
  is_gadget t = true -> running <> [] -> blocked t running = true.
Proof.
  intros t running Hg Hr. destruct running as [|u r]; [contradiction|].
  rewrite blocked_cons, conflict_alt, Hg. rewrite orb_true_r. reflexivity.
Qed.

(* the full statement `while update-gadget-assets executes nothing else has a goroutine` is false: TaskRunner.clean
   neither consults the predicates nor adds to `running`. Two witnesses: cleanup and gadget update started in the same
   pass; cleanup started in a later pass while the gadget update is executing. *)
Definition cleanup_witness_same_pass : list event :=
  [EEnsure [CClean (mkT 1 (kd 14) None); CRun (mkT 2 (kd 2) None)]].
Definition cleanup_witness_later_pass : list event :=
  [EEnsure [CRun (mkT 2 (kd 2) None)]; EEnsure [CClean (mkT 1 (kd 14) None)]].

Theorem gadget_alone_refuted_by_cleanup :
  (exists evs a, In (a, false) (run evs) /\ is_gadget a = true /\ run evs <> [(a, false)]) /\
  run cleanup_witness_same_pass = [(mkT 1 (kd 14) None, true); (mkT 2 (kd 2) None, false)] /\
  run cleanup_witness_later_pass = [(mkT 2 (kd 2) None, false); (mkT 1 (kd 14) None, true)].
Proof.
  split; [|split; vm_compute; reflexivity].
  exists cleanup_witness_later_pass, (mkT 2 (kd 2) None).
  split; [vm_compute; left; reflexivity|]. split; [vm_compute; reflexivity | vm_compute; discriminate].
Qed.

(* guarded statement: in histories in which no cleanup is started, the gadget update is literally alone *)
Lemma ensure_loop_no_clean : forall cs tb running,
  forallb no_clean_cand cs = true -> (forall x, In x tb -> snd x = false) ->
  forall x, In x (ensure_loop tb running cs) -> snd x = false.
Proof.
  induction cs as [|c cs IH]; intros tb running NC H; cbn [ensure_loop]; [exact H|].
  cbn in NC. apply andb_true_iff in NC. destruct NC as [NC1 NC2].
  destruct c as [t|t|]; [|discriminate|apply IH; assumption].
  destruct (has_tomb (t_id t) tb); [apply IH; assumption|].
  destruct (blocked t running); [apply IH; assumption|].
  apply IH; [exact NC2|]. intros x Hx. apply in_app_iff in Hx. destruct Hx as [Hx|[<-|[]]]; [apply H; exact Hx | reflexivity].
Qed.

Lemma run_no_clean : forall evs, no_clean evs = true -> forall x, In x (run evs) -> snd x = false.
Proof.
  intro evs. unfold run, no_clean.
  assert (G : forall tb, forallb (fun e => match e with EEnsure cs => forallb no_clean_cand cs | _ => true end) evs = true ->
                         (forall x, In x tb -> snd x = false) -> forall x, In x (fold_left step evs tb) -> snd x = false).
  { induction evs as [|e evs IH]; intros tb NC H; cbn; [exact H|].
    cbn in NC. apply andb_true_iff in NC. destruct NC as [NC1 NC2]. apply IH; [exact NC2|].
    destruct e as [cs|id|ids|]; cbn [step].
    - unfold ensure_pass. apply ensure_loop_no_clean; assumption.
    - intros x Hx. apply filter_In in Hx. apply H. tauto.
    - exact H.
    - intros x []. }
  intros NC. apply G; [exact NC | intros x []].
Qed.

Lemma all_handlers : forall tb, (forall x, In x tb -> snd x = false) -> tb = map (fun t => (t, false)) (handlers tb).
Proof.
  unfold handlers. induction tb as [|[t c] tb IH]; intro H; [reflexivity|].
  assert (c = false) by (apply (H (t, c)); left; reflexivity). subst c. cbn.
  rewrite <- IH; [reflexivity|]. intros x Hx. apply H. right. exact Hx.
Qed.

Theorem gadget_alone_guarded : forall evs a,
  no_clean evs = true -> In (a, false) (run evs) -> is_gadget a = true -> run evs = [(a, false)].
Proof.
  intros evs a NC Ha Hg.
  rewrite (all_handlers (run evs) (run_no_clean evs NC)).
  assert (In a (handlers (run evs))).
  { unfold handlers. apply in_map_iff. exists (a, false). split; [reflexivity|]. apply filter_In. split; [exact Ha | reflexivity]. }
  rewrite (gadget_alone evs a H Hg). reflexivity.
Qed.

(* ------------------------------------------------------------------------------------------ gadget update: pass level *)

(* a task that gets a handler tomb in a pass was, at its turn, not blocked by a running list that contains every task
   that had a tomb when the pass began *)
Lemma ensure_loop_started : forall t cs tb running base,
  incl base running -> In (t, false) (ensure_loop tb running cs) ->
  In (t, false) tb \/ exists r', incl base r' /\ blocked t r' = false.
Proof.
  intros t. induction cs as [|c cs IH]; intros tb running base HI H; cbn [ensure_loop] in H; [left; exact H|].
  destruct c as [u|u|].
  - destruct (has_tomb (t_id u) tb); [eapply IH; eassumption|].
    destruct (blocked u running) eqn:B; [eapply IH; eassumption|].
    destruct (IH _ _ base (fun x Hx => in_or_app _ _ x (or_introl (HI x Hx))) H) as [Hin|Hex]; [|right; exact Hex].
    apply in_app_iff in Hin. destruct Hin as [Hin|[E|[]]]; [left; exact Hin|].
    inversion E; subst u. right. exists running. split; assumption.
  - destruct (has_tomb (t_id u) tb); [eapply IH; eassumption|].
    destruct (IH _ _ base HI H) as [Hin|Hex]; [|right; exact Hex].
    apply in_app_iff in Hin. destruct Hin as [Hin|[E|[]]]; [left; exact Hin | discriminate].
  - eapply IH; eassumption.
Qed.

(* update-gadget-assets is never started by a pass that begins with any tomb at all (handler or cleanup) *)
Theorem gadget_never_starts_next_to_running : forall tb cs t,
  is_gadget t = true -> In (t, false) (ensure_pass tb cs) -> ~ In (t, false) tb -> tb = [].
Proof.
  intros tb cs t Hg H Hn. unfold ensure_pass in H.
  destruct (ensure_loop_started t cs tb (map fst tb) (map fst tb) (incl_refl _) H) as [Hin|[r' [HI HB]]]; [contradiction|].
  destruct r' as [|u r'].
  - destruct tb as [|x tb]; [reflexivity|]. exfalso. apply (HI (fst x)). left. reflexivity.
  - rewrite gadget_waits_for_running in HB; [discriminate | exact Hg | discriminate].
Qed.

(* while update-gadget-assets has a handler tomb no pass starts another handler *)
Theorem nothing_starts_next_to_gadget : forall tb cs a x,
  In (a, false) tb -> is_gadget a = true -> In (x, false) (ensure_pass tb cs) -> In (x, false) tb.
Proof.
  intros tb cs a x Ha Hg H. unfold ensure_pass in H.
  destruct (ensure_loop_started x cs tb (map fst tb) (map fst tb) (incl_refl _) H) as [Hin|[r' [HI HB]]]; [exact Hin|].
  exfalso. rewrite blocked_is_conflict in HB.
  assert (existsb (conflict x) r' = true).
  { apply existsb_exists. exists a. split.
    - apply HI. apply in_map_iff. exists (a, false). split; [reflexivity | exact Ha].
    - rewrite conflict_alt, Hg. apply orb_true_r. }
  congruence.
Qed.

(* everything that has a goroutine next to an executing update-gadget-assets handler is a cleanup: the exact carve-out
   of the known finding *)
Theorem gadget_coexists_only_with_cleanups : forall evs a x,
  In (a, false) (run evs) -> is_gadget a = true -> In x (run evs) -> x = (a, false) \/ snd x = true.
Proof.
  intros evs a x Ha Hg Hx. destruct x as [u c]. destruct c; [right; reflexivity|]. left.
  assert (Hh : In a (handlers (run evs))).
  { unfold handlers. apply in_map_iff. exists (a, false). split; [reflexivity|]. apply filter_In. split; [exact Ha | reflexivity]. }
  assert (Hu : In u (handlers (run evs))).
  { unfold handlers. apply in_map_iff. exists (u, false). split; [reflexivity|]. apply filter_In. split; [exact Hx | reflexivity]. }
  rewrite (gadget_alone evs a Hh Hg) in Hu. destruct Hu as [<-|[]]. reflexivity.
Qed.

(* ------------------------------------------------------------------------------------------ predicate composition *)

Lemma blocked_registered : forall t running, blocked t running = blocked_by registered t running.
Proof. intros. unfold blocked, verdicts, blocked_by, registered, add_blocked. cbn. reflexivity. Qed.

Lemma existsb_perm : forall {A} (f : A -> bool) l l', Permutation l l' -> existsb f l = existsb f l'.
Proof.
  intros A f l l' P. induction P; cbn; try congruence.
  destruct (f x), (f y); reflexivity.
Qed.

(* the order in which the managers call AddBlocked does not matter *)
Theorem blocked_order_irrelevant : forall ps ps' t running,
  Permutation ps ps' -> blocked_by ps t running = blocked_by ps' t running.
Proof. intros. unfold blocked_by. apply existsb_perm. assumption. Qed.

Theorem blocked_any_registration_order : forall ps t running,
  Permutation registered ps -> blocked_by ps t running = existsb (conflict t) running.
Proof.
  intros ps t running P. rewrite <- (blocked_order_irrelevant _ _ t running P), <- blocked_registered.
  apply blocked_is_conflict.
Qed.

(* adding a further predicate can only block more: the exclusions proved here survive any additional AddBlocked *)
Theorem add_blocked_monotone : forall ps p t running,
  blocked_by ps t running = true -> blocked_by (add_blocked ps p) t running = true.
Proof.
  intros ps p t running H. unfold blocked_by, add_blocked in *. apply existsb_exists in H. destruct H as [q [H1 H2]].
  apply existsb_exists. exists q. split; [apply in_or_app; left; exact H1 | exact H2].
Qed.

(* SetBlocked replaces everything that was registered: afterwards only the new predicate is asked, and the exclusions are
   gone unless it provides them (witness: with a predicate that never blocks two hooks of one snap get goroutines) *)
Theorem set_blocked_only : forall p t running, blocked_by (set_blocked p) t running = p t running.
Proof. intros. unfold blocked_by, set_blocked. cbn. apply orb_false_r. Qed.

(* a restart leaves no goroutine, whatever happened before; the invariant then starts afresh *)
Theorem restart_no_goroutines : forall evs, run (evs ++ [ERestart]) = [].
Proof. intro evs. unfold run. rewrite fold_left_app. reflexivity. Qed.

(* ------------------------------------------------------------------------------------------ someBlocked *)

Lemma ensure_loop_tomb_mono : forall cs tb running id,
  has_tomb id tb = true -> has_tomb id (ensure_loop tb running cs) = true.
Proof.
  induction cs as [|c cs IH]; intros tb running id H; cbn [ensure_loop]; [exact H|].
  assert (Happ : forall y, has_tomb id (tb ++ [y]) = true) by (intro y; unfold has_tomb in *; rewrite existsb_app, H; reflexivity).
  destruct c as [u|u|]; [| |apply IH; exact H].
  - destruct (has_tomb (t_id u) tb); [apply IH; exact H|]. destruct (blocked u running); apply IH; auto.
  - destruct (has_tomb (t_id u) tb); apply IH; auto.
Qed.

(* a candidate that reached the blocked check and has no tomb after the pass was blocked: r.someBlocked is then set, so
   the next finishing goroutine asks for another Ensure and the task is reconsidered *)
Lemma some_blocked_loop_complete : forall t cs tb running,
  In (CRun t) cs -> has_tomb (t_id t) (ensure_loop tb running cs) = false -> some_blocked_loop tb running cs = true.
Proof.
  intros t. induction cs as [|c cs IH]; intros tb running Hin Hn; [contradiction|].
  cbn [ensure_loop] in Hn. cbn [some_blocked_loop].
  destruct Hin as [->|Hin].
  - destruct (has_tomb (t_id t) tb) eqn:HT.
    + rewrite (ensure_loop_tomb_mono cs tb running _ HT) in Hn. discriminate.
    + destruct (blocked t running); [reflexivity|].
      assert (has_tomb (t_id t) (tb ++ [(t, false)]) = true).
      { unfold has_tomb. rewrite existsb_app. cbn. rewrite N.eqb_refl. rewrite orb_true_r. reflexivity. }
      rewrite (ensure_loop_tomb_mono cs _ _ _ H) in Hn. discriminate.
  - destruct c as [u|u|]; [| |apply IH; assumption].
    + destruct (has_tomb (t_id u) tb); [apply IH; assumption|].
      destruct (blocked u running); [reflexivity | apply IH; assumption].
    + destruct (has_tomb (t_id u) tb); apply IH; assumption.
Qed.

Theorem some_blocked_complete : forall t cs tb,
  In (CRun t) cs -> has_tomb (t_id t) (ensure_pass tb cs) = false -> some_blocked tb cs = true.
Proof. intros. unfold some_blocked. eapply some_blocked_loop_complete; eassumption. Qed.

(* why `running` must contain every task with a tomb irrespective of its status: if the pass only looked at a subset
   `vis` of them (say, those in Doing/Undoing status, dropping a task aborted while its handler still executes), a
   conflicting task would be started next to the invisible one *)
Theorem status_filtered_running_refuted :
  exists (tb : tombs) (vis : task -> bool) (cs : list cand),
    excl (handlers tb) = true /\
    excl (handlers (ensure_loop tb (List.filter vis (map fst tb)) cs)) = false.
Proof.
  exists [(mkT 1 (kd 0) (Some (sn 0)), false)], (fun _ => false), [CRun (mkT 2 (kd 0) (Some (sn 0)))].
  split; vm_compute; reflexivity.
Qed.

(* ------------------------------------------------------------------------------------------ specification kinds *)

Lemma beq_eq : forall a b, beq a b = true -> a = b.
Proof.
  induction a as [|x a IH]; destruct b as [|y b]; cbn; intro H; try reflexivity; try discriminate.
  apply andb_true_iff in H. destruct H as [H1 H2]. apply N.eqb_eq in H1. apply IH in H2. subst. reflexivity.
Qed.

Lemma mem_bytes_covered : forall x l l',
  forallb (fun k => mem_bytes k l') l = true -> mem_bytes x l = true -> mem_bytes x l' = true.
Proof.
  intros x l l' H Hx. unfold mem_bytes in Hx. apply existsb_exists in Hx. destruct Hx as [k [Hk1 Hk2]].
  apply beq_eq in Hk2. subst k. rewrite forallb_forall in H. apply H. exact Hk1.
Qed.

Section Covered.
  Hypothesis cov : gen_covers_spec = true.

  Lemma cov_parts :
    (forallb (fun k => mem_bytes k BlockedKinds.iface_kinds) spec_iface_kinds = true) /\
    (BlockedKinds.hook_kind = bs "run-hook") /\
    (BlockedKinds.prereq_kind = bs "prerequisites") /\
    (BlockedKinds.gadget_kind = bs "update-gadget-assets").
  Proof.
    unfold gen_covers_spec in cov. rewrite !andb_true_iff in cov. destruct cov as [[[C1 C2] C3] C4].
    apply beq_eq in C2. apply beq_eq in C3. apply beq_eq in C4. auto.
  Qed.

  Lemma spec_conflict_covered : forall a b, spec_conflict a b = true -> conflict a b = true.
  Proof.
    destruct cov_parts as [C1 [C2 [C3 C4]]].
    intros a b H. unfold spec_conflict in H. unfold conflict.
    assert (Hh : forall t, spec_is_hook t = is_hook t) by (intro t; unfold spec_is_hook, is_hook; rewrite C2; reflexivity).
    assert (Hp : forall t, spec_is_prereq t = is_prereq t) by (intro t; unfold spec_is_prereq, is_prereq; rewrite C3; reflexivity).
    assert (Hg : forall t, spec_is_gadget t = is_gadget t) by (intro t; unfold spec_is_gadget, is_gadget; rewrite C4; reflexivity).
    assert (Hi : forall t, spec_is_iface t = true -> is_iface t = true)
      by (intros t Ht; unfold spec_is_iface in Ht; unfold is_iface; eapply mem_bytes_covered; eassumption).
    rewrite !Hh, !Hp, !Hg in H.
    rewrite !orb_true_iff in H. rewrite !orb_true_iff.
    destruct H as [[[[H|H]|H]|H]|H]; auto.
    apply andb_true_iff in H. destruct H as [H1 H2]. left. left. left. right. rewrite (Hi a H1), (Hi b H2). reflexivity.
  Qed.

  Lemma spec_excl_covered : forall l, excl l = true -> spec_excl l = true.
  Proof.
    induction l as [|x l IH]; cbn; intro H; [reflexivity|].
    apply andb_true_iff in H. destruct H as [H1 H2]. rewrite (IH H2), andb_true_r.
    apply negb_true_iff. apply negb_true_iff in H1.
    destruct (existsb (spec_conflict x) l) eqn:E; [|reflexivity].
    apply existsb_exists in E. destruct E as [y [Hy1 Hy2]]. apply spec_conflict_covered in Hy2.
    assert (existsb (conflict x) l = true) by (apply existsb_exists; exists y; auto). congruence.
  Qed.

  Theorem spec_excl_invariant : forall evs, spec_excl (handlers (run evs)) = true.
  Proof. intro evs. apply spec_excl_covered. apply excl_invariant. Qed.
End Covered.
