(* Proofs about models/SnapSeq.v — part 8: C11 closed.  Every step of every kind, completed, refused, or failed at ANY
   position and undone, preserves the invariant; induction over arbitrary histories. *)
From Coq Require Import List NArith ZArith Bool Arith Lia Sorting.Sorted.
Import ListNotations.
Require Import V.models.SnapSeq V.proofs.SnapSeqProofs V.proofs.SnapSeqProofs2 V.proofs.SnapSeqProofs3 V.proofs.SnapSeqProofs4
               V.proofs.SnapSeqProofs5 V.proofs.SnapSeqProofs6 V.proofs.SnapSeqProofs7.
Open Scope N_scope.

(* ------------------------------------------------------------------------------------------------ configuration is inert
   the configuration value and the revision-config snapshots never flow into any other field *)

Definition core (s : st) : st :=
  mkSt (seq s) (cur s) (active s) (chan s) (devmode s) (jailmode s) (classic s) (trymode s) (ignoreval s) (cohort s)
       (lastref s) (inhib s) (nb s) 0 [] (mounted s) (link s).

Lemma core_norm : forall X Y, core X = core Y -> core (norm X) = core (norm Y).
Proof.
  intros [] [] H. unfold core in H. simpl in H. injection H; intros; subst. unfold norm. simpl.
  match goal with |- context [match ?l with [] => _ | _ => _ end] => destruct l end; reflexivity.
Qed.

Lemma core_do_task : forall o t a b, core a = core b ->
  core (fst (do_task o t a)) = core (fst (do_task o t b)) /\ snd (do_task o t a) = snd (do_task o t b).
Proof.
  intros o [k r] a b H. destruct k; try (split; [exact H|reflexivity]); unfold do_task; cbn [fst snd].
  - (* mount *) split; [|reflexivity]. destruct a as [sa ca aa cha da ja cla ta ia coa la iha na cfa rca ma lka], b as [sb cb ab chb db jb clb tb ib cob lb ihb nbb cfb rcb mb lkb]. unfold core in *. simpl in *. injection H; intros; subst. reflexivity.
  - (* unlink-current *) split; [|reflexivity]. unfold do_unlink_current. apply core_norm.
    destruct a as [sa ca aa cha da ja cla ta ia coa la iha na cfa rca ma lka], b as [sb cb ab chb db jb clb tb ib cob lb ihb nbb cfb rcb mb lkb]. unfold core in *. simpl in *. injection H; intros; subst. reflexivity.
  - (* link *) destruct a as [sa ca aa cha da ja cla ta ia coa la iha na cfa rca ma lka], b as [sb cb ab chb db jb clb tb ib cob lb ihb nbb cfb rcb mb lkb]. unfold core in H. simpl in H. injection H; intros; subst.
    unfold do_link. cbn. split; reflexivity.
  - (* discard *) split; [|reflexivity]. unfold do_discard.
    destruct a as [sa ca aa cha da ja cla ta ia coa la iha na cfa rca ma lka], b as [sb cb ab chb db jb clb tb ib cob lb ihb nbb cfb rcb mb lkb]. unfold core in H. simpl in H. injection H; intros; subst. cbn [seq cur nb active chan devmode jailmode classic trymode ignoreval cohort lastref inhib cfg revcfg mounted link].
    match goal with |- context [let '(_, _) := ?e in _] => destruct e as [sq' c'] end.
    apply core_norm. unfold core. simpl. destruct sq'; reflexivity.
  - (* configure *) split; [|reflexivity]. unfold do_configure. destruct (ohookcfg o =? 0); [exact H|].
    destruct a as [sa ca aa cha da ja cla ta ia coa la iha na cfa rca ma lka], b as [sb cb ab chb db jb clb tb ib cob lb ihb nbb cfb rcb mb lkb]. unfold core in *. simpl in *. injection H; intros; subst. reflexivity.
  - (* unlink-snap *) split; [|reflexivity]. unfold do_unlink_snap. apply core_norm.
    destruct a as [sa ca aa cha da ja cla ta ia coa la iha na cfa rca ma lka], b as [sb cb ab chb db jb clb tb ib cob lb ihb nbb cfb rcb mb lkb]. unfold core in *. simpl in *. injection H; intros; subst. reflexivity.
Qed.

Lemma core_undo_task : forall o c t d a b, core a = core b -> core (undo_task o c t d a) = core (undo_task o c t d b).
Proof.
  intros o c [k r] d a b H. unfold undo_task. cbn [fst snd]. destruct k; try exact H.
  - destruct a as [sa ca aa cha da ja cla ta ia coa la iha na cfa rca ma lka], b as [sb cb ab chb db jb clb tb ib cob lb ihb nbb cfb rcb mb lkb]. unfold core in *. simpl in *. injection H; intros; subst. reflexivity.
  - unfold undo_unlink_current. apply core_norm.
    destruct a as [sa ca aa cha da ja cla ta ia coa la iha na cfa rca ma lka], b as [sb cb ab chb db jb clb tb ib cob lb ihb nbb cfb rcb mb lkb]. unfold core in *. simpl in *. injection H; intros; subst. reflexivity.
  - destruct d as [d|]; [|exact H]. unfold undo_link.
    destruct a as [sa ca aa cha da ja cla ta ia coa la iha na cfa rca ma lka], b as [sb cb ab chb db jb clb tb ib cob lb ihb nbb cfb rcb mb lkb]. unfold core in H. simpl in H. injection H; intros; subst.
    cbn [seq cur nb active chan devmode jailmode classic trymode ignoreval cohort lastref inhib cfg revcfg mounted link].
    match goal with |- context [match ?e with Some _ => _ | None => _ end] => destruct e end; [|reflexivity].
    apply core_norm. reflexivity.
  - unfold undo_unlink_snap. destruct (negb c); [|exact H]. apply core_norm.
    destruct a as [sa ca aa cha da ja cla ta ia coa la iha na cfa rca ma lka], b as [sb cb ab chb db jb clb tb ib cob lb ihb nbb cfb rcb mb lkb]. unfold core in *. simpl in *. injection H; intros; subst. reflexivity.
Qed.

Lemma core_run_fail : forall o c ts a b, core a = core b -> core (run_fail o c ts a) = core (run_fail o c ts b).
Proof.
  induction ts as [|t ts IH]; intros a b H; [exact H|]. cbn [run_fail].
  destruct (core_do_task o t a b H) as [H1 H2].
  destruct (do_task o t a) as [a' da]. destruct (do_task o t b) as [b' db]. simpl in H1, H2. subst db.
  apply core_undo_task. apply IH. exact H1.
Qed.

Lemma wf_core : forall a b, wf b -> core a = core b -> seq a <> [] -> wf a.
Proof.
  intros [] [] [W1 W2 W3 W4 W5 W6 W7 W8] H NE. unfold core in H. simpl in *. injection H; intros; subst.
  constructor; simpl; auto. intros E. congruence.
Qed.

(* the same state with some configuration: outside the config-from-nothing class *)
Definition with_cfg (s : st) : st :=
  mkSt (seq s) (cur s) (active s) (chan s) (devmode s) (jailmode s) (classic s) (trymode s) (ignoreval s) (cohort s)
       (lastref s) (inhib s) (nb s) 1 (revcfg s) (mounted s) (link s).

Lemma core_with_cfg : forall s, core (with_cfg s) = core s. Proof. reflexivity. Qed.
Lemma wf_with_cfg : forall s, wf s -> seq s <> [] -> wf (with_cfg s).
Proof. intros s [W1 W2 W3 W4 W5 W6 W7 W8] NE. constructor; simpl; auto. intros E. congruence. Qed.
Lemma guard_with_cfg : forall o s, cfg_guard o (with_cfg s). Proof. intros. left. simpl. discriminate. Qed.
Lemma accepts_with_cfg : forall o s, accepts o (with_cfg s) = accepts o s. Proof. reflexivity. Qed.
Lemma tasks_with_cfg : forall o s retain inuse, tasks_for o (with_cfg s) retain inuse = tasks_for o s retain inuse.
Proof. reflexivity. Qed.

Lemma seq_forget : forall x, seq (forget x) = seq x. Proof. reflexivity. Qed.
Lemma seq_core : forall x, seq (core x) = seq x. Proof. reflexivity. Qed.
Lemma seq_minus : forall D x, seq (minus D x) = fl D (seq x). Proof. reflexivity. Qed.

(* a failed change on s and on with_cfg s agree on everything but the configuration *)
Lemma core_failed : forall o j retain inuse s,
  core (run_change o (S j) (tasks_for o s retain inuse) s)
  = core (run_change o (S j) (tasks_for o (with_cfg s) retain inuse) (with_cfg s)).
Proof.
  intros. rewrite tasks_with_cfg. rewrite !run_change_fail. apply core_run_fail. reflexivity.
Qed.

(* ------------------------------------------------------------------------------------------------ failed install / refresh / revert *)

Lemma ess_of_prefix : forall o j ts s, exists j' c,
  run_change o (S j) ts s = run_fail o c (firstn j' (filter essential ts)) s.
Proof.
  intros. rewrite run_change_fail, run_fail_strip.
  destruct (filter_firstn essential j ts) as [j' E]. rewrite E. eauto.
Qed.

Theorem failed_c10_wf : forall s o j retain inuse,
  wf s -> c10_op o -> accepts o s = true -> (2 <= retain)%Z ->
  wf (run_change o (S j) (tasks_for o s retain inuse) s).
Proof.
  intros s o j retain inuse W OP AC R.
  destruct (seq s) as [|x0 l0] eqn:SQ.
  - (* not installed: only install is accepted; its guard holds *)
    assert (K : okind o = OInstall).
    { unfold accepts, installed in AC. rewrite SQ in AC. destruct OP as [K|[K|K]]; auto; rewrite K in AC; simpl in AC;
        try discriminate. rewrite andb_false_r in AC. discriminate. }
    destruct (ess_of_prefix o j (tasks_for o s retain inuse) s) as (j' & c & E). rewrite E.
    unfold tasks_for. rewrite K. rewrite install_tasks_ess.
    assert (NI : installed s = false) by (unfold installed; rewrite SQ; reflexivity). rewrite NI. cbn [andb app].
    eapply wf_forget; [apply core_restores; auto; right; left; exact SQ|exact W].
  - assert (NE : seq s <> []) by (rewrite SQ; discriminate).
    set (b := with_cfg s).
    assert (Wb : wf b) by (apply wf_with_cfg; auto).
    assert (G : wf (run_change o (S j) (tasks_for o b retain inuse) b)
                /\ seq (run_change o (S j) (tasks_for o b retain inuse) b) <> []).
    { destruct OP as [K|[K|K]].
      - unfold accepts, installed in AC. rewrite K, SQ in AC. discriminate.
      - (* refresh: any position *)
        split; [apply failed_refresh_wf; auto; apply guard_with_cfg|].
        pose proof (failed_after_gc_any b o j retain inuse Wb K AC R (guard_with_cfg o s)) as F.
        apply (f_equal seq) in F. rewrite !seq_forget, seq_minus in F. rewrite F.
        destruct (refresh_runs b o retain inuse Wb K AC R) as (_ & _ & G2).
        destruct Wb as [_ W2 _ _ _ _ _ _]. intros Z.
        assert (I : In (cur b) (fl (map snd (filter is_discard (firstn j (tasks_for o b retain inuse)))) (seq b))).
        { apply In_fl. split; [apply W2; exact NE|]. intros I. apply G2. unfold tasks_for in I. rewrite K in I.
          eapply discards_in_gc; eauto. unfold installed. simpl. rewrite SQ. reflexivity. }
        rewrite Z in I. destruct I.
      - (* revert: no discards in the change *)
        assert (RV : is_revert o = true) by (unfold is_revert; rewrite K; reflexivity).
        destruct (ess_of_prefix o j (tasks_for o b retain inuse) b) as (j' & c & E). rewrite E.
        unfold tasks_for. rewrite K. rewrite install_tasks_ess, RV. rewrite andb_false_r. cbn [app].
        assert (F : forget (run_fail o c (firstn j' (ess_pre o b ++ [(KConfigure, orev o)])) b) = forget b).
        { apply core_restores; auto. right; right; exact K. apply guard_with_cfg. }
        split; [eapply wf_forget; [exact F|exact Wb]|].
        apply (f_equal seq) in F. rewrite !seq_forget in F. rewrite F. exact NE. }
    destruct G as [G1 G2].
    eapply wf_core; [exact G1|apply core_failed|].
    pose proof (core_failed o j retain inuse s) as C. apply (f_equal seq) in C. rewrite !seq_core in C. rewrite C. exact G2.
Qed.

(* ------------------------------------------------------------------------------------------------ failed disable / enable *)

Theorem failed_disable_wf : forall s o j retain inuse,
  wf s -> okind o = ODisable -> accepts o s = true -> wf (run_change o (S j) (tasks_for o s retain inuse) s).
Proof.
  intros s o j retain inuse W K AC.
  destruct (ess_of_prefix o j (tasks_for o s retain inuse) s) as (j' & c & E). rewrite E.
  unfold accepts in AC. rewrite K in AC. bool_hyps.
  unfold installed in *. destruct (seq s) as [|x0 l0] eqn:SQ; [discriminate|].
  unfold tasks_for. rewrite K.
  change (filter essential (map (fun k => (k, cur s)) [KStop; KRemoveAliases; KUnlinkSnap; KRemoveProfiles]))
    with [(KUnlinkSnap, cur s)].
  destruct j' as [|j']; [exact W|].
  cbn [firstn]. rewrite firstn_nil.
  cbn [run_fail]. unfold do_task, undo_task. cbn [fst snd]. unfold do_unlink_snap, undo_unlink_snap.
  assert (NE : seq (set_active_link false 0 s) <> []) by (simpl; congruence).
  rewrite !(norm_id _ NE).
  destruct W as [W1 W2 W3 W4 W5 W6 W7 W8].
  destruct (negb c).
  - rewrite norm_id by (simpl; congruence). constructor; simpl; auto. intros Z; congruence.
  - constructor; simpl; auto. intros Z; congruence.
Qed.

Theorem failed_enable_wf : forall s o j retain inuse,
  wf s -> okind o = OEnable -> accepts o s = true -> wf (run_change o (S j) (tasks_for o s retain inuse) s).
Proof.
  intros s o j retain inuse W K AC.
  pose proof AC as AC'. unfold accepts in AC'. rewrite K in AC'. bool_hyps.
  match goal with H : orev o = cur s |- _ => rename H into RC end.
  match goal with H : active s = false |- _ => rename H into A end.
  assert (NE : seq s <> []) by (unfold installed in *; destruct (seq s); [discriminate|discriminate]).
  assert (NR : is_revert o = false) by (unfold is_revert; rewrite K; reflexivity).
  set (b := with_cfg s).
  assert (Wb : wf b) by (apply wf_with_cfg; auto).
  assert (G : forget (run_change o (S j) (tasks_for o b retain inuse) b) = forget b).
  { destruct (ess_of_prefix o j (tasks_for o b retain inuse) b) as (j' & c & E). rewrite E.
    unfold tasks_for. rewrite K.
    change (filter essential (map (fun k => (k, cur b)) [KPrepare; KSetupProfiles; KLink; KSetupAliases; KStart]))
      with [(KLink, cur b)].
    destruct j' as [|j']; [reflexivity|].
    cbn [firstn]. rewrite firstn_nil.
    rewrite run_fail_link.
    destruct Wb as [W1 W2 W3 W4 W5 W6 W7 W8].
    rewrite <- (forget_inactive b); [|exact A|rewrite W8; simpl; rewrite A; reflexivity].
    apply (link_roundtrip_kept o b false); auto.
    - rewrite RC. apply W2. exact NE.
    - apply guard_with_cfg. }
  eapply wf_core; [eapply wf_forget; [exact G|exact Wb]|apply core_failed|].
  unfold b in *.
  pose proof (core_failed o j retain inuse s) as C. apply (f_equal seq) in C. rewrite !seq_core in C. rewrite C.
  apply (f_equal seq) in G. rewrite !seq_forget in G. rewrite G. exact NE.
Qed.

(* ------------------------------------------------------------------------------------------------ failed remove --revision / remove *)

Lemma remove_rev_ess : forall o s retain inuse,
  okind o = ORemoveRev -> accepts o s = true -> wf s ->
  filter essential (tasks_for o s retain inuse) = [(KDiscard, orev o)].
Proof.
  intros o s retain inuse K AC W. unfold accepts in AC. rewrite K in AC. bool_hyps.
  match goal with H : mem (orev o) (seq s) = true |- _ => apply mem_In in H; rename H into IN end.
  match goal with H : active s && (orev o =? cur s) = false |- _ => rename H into NA end.
  unfold tasks_for. rewrite K. unfold remove_tasks. rewrite K.
  destruct (seq s) as [|a [|b l]] eqn:SQ; [destruct IN| |reflexivity].
  destruct IN as [IN|[]]. destruct W as [W1 W2 _ _ _ _ _ _].
  assert (C : cur s = a).
  { assert (I : In (cur s) (seq s)) by (apply W2; rewrite SQ; discriminate). rewrite SQ in I. destruct I as [I|[]]. auto. }
  assert (A : active s = false).
  { destruct (active s); [|reflexivity]. rewrite <- IN, <- C, N.eqb_refl in NA. discriminate. }
  rewrite A. reflexivity.
Qed.

Theorem failed_remove_rev_wf : forall s o j retain inuse,
  wf s -> okind o = ORemoveRev -> accepts o s = true -> wf (run_change o (S j) (tasks_for o s retain inuse) s).
Proof.
  intros s o j retain inuse W K AC.
  destruct (ess_of_prefix o j (tasks_for o s retain inuse) s) as (j' & c & E). rewrite E.
  rewrite (remove_rev_ess o s retain inuse K AC W).
  destruct j' as [|j']; [exact W|].
  cbn [firstn]. rewrite firstn_nil.
  cbn [run_fail]. unfold do_task, undo_task. cbn [fst snd].
  unfold accepts in AC. rewrite K in AC. bool_hyps.
  match goal with H : mem (orev o) (seq s) = true |- _ => apply mem_In in H; rename H into IN end.
  match goal with H : active s && (orev o =? cur s) = false |- _ => rename H into NA end.
  apply discard_wf; auto. intros Q. rewrite Q, N.eqb_refl, andb_true_r in NA. exact NA.
Qed.

Lemma NoDup_firstn : forall (n : nat) (l : list N), NoDup l -> NoDup (firstn n l).
Proof.
  induction n as [|n IH]; intros l ND; [constructor|]. destruct l as [|x l]; [constructor|].
  inversion ND; subst. simpl. constructor; [|apply IH; assumption]. intros I. apply H1. eapply In_firstn; exact I.
Qed.

Lemma active_discards : forall o D X, active X = false ->
  active (run_ok o (map (fun r => (KDiscard, r)) D) X) = false.
Proof.
  induction D as [|d D IH]; intros X A; [exact A|].
  unfold run_ok in *. cbn [map fold_left]. unfold do_task at 2. cbn [fst snd]. apply IH. apply active_discard. exact A.
Qed.

(* relinking after a partial remove (undoUnlinkSnap when the data of the current revision is still there) *)
Lemma wf_relink : forall X, wf X -> active X = false -> wf (norm (set_active_link true (cur X) X)).
Proof.
  intros X [W1 W2 W3 W4 W5 W6 W7 W8] A. unfold norm. cbn [seq set_active_link].
  destruct (seq X) as [|x l] eqn:SQ.
  - specialize (W3 eq_refl). rewrite W3. simpl. constructor; simpl; try tauto; try constructor. intros y [].
  - constructor; simpl; auto; rewrite ?SQ; auto. intros Z; discriminate.
Qed.

Theorem failed_remove_wf : forall s o j retain inuse,
  wf s -> okind o = ORemove -> accepts o s = true -> wf (run_change o (S j) (tasks_for o s retain inuse) s).
Proof.
  intros s o j retain inuse W K AC.
  destruct (ess_of_prefix o j (tasks_for o s retain inuse) s) as (j' & c & E). rewrite E.
  unfold accepts in AC. rewrite K in AC.
  pose proof W as [W1 W2 W3 W4 W5 W6 W7 W8].
  assert (NE : seq s <> []) by (unfold installed in AC; destruct (seq s); [discriminate|discriminate]).
  specialize (W2 NE).
  set (D := rev (rem (cur s) (seq s)) ++ [cur s]).
  assert (EE : filter essential (tasks_for o s retain inuse)
              = (if active s then [(KUnlinkSnap, cur s)] else []) ++ map (fun r => (KDiscard, r)) D).
  { unfold tasks_for. rewrite K. unfold remove_tasks. rewrite K. unfold D. rewrite map_app.
    rewrite !filter_app, filter_ess_gc. destruct (active s); reflexivity. }
  rewrite EE.
  assert (NDD : NoDup D).
  { unfold D. apply NoDup_app_last; [apply NoDup_rev; apply NoDup_rem; exact W1|].
    intros I. apply in_rev in I. apply In_rem in I. tauto. }
  assert (ID : incl D (seq s)).
  { intros x Hx. unfold D in Hx. apply in_app_iff in Hx. destruct Hx as [Hx|[<-|[]]]; auto.
    apply in_rev in Hx. apply In_rem in Hx. tauto. }
  assert (DU : forall n X, run_fail o c (firstn n (map (fun r => (KDiscard, r) : task) D)) X
                           = run_ok o (map (fun r => (KDiscard, r)) (firstn n D)) X).
  { intros n X. rewrite firstn_map. apply run_fail_no_undo. intros t Ht. apply in_map_iff in Ht.
    destruct Ht as (x & <- & _). left; reflexivity. }
  destruct (active s) eqn:A.
  - destruct j' as [|j']; [exact W|]. cbn [app firstn run_fail]. unfold do_task at 1. cbn [fst snd].
    unfold undo_task. cbn [fst snd].
    unfold task in *. rewrite DU.
    set (X0 := do_unlink_snap s).
    assert (WX0 : wf X0 /\ active X0 = false /\ seq X0 = seq s).
    { unfold X0, do_unlink_snap. rewrite norm_id by (simpl; exact NE).
      split; [constructor; simpl; auto; intros Z; congruence|split; reflexivity]. }
    destruct WX0 as (WX0 & AX0 & SX0).
    assert (WX : wf (run_ok o (map (fun r => (KDiscard, r)) (firstn j' D)) X0)).
    { apply discards_wf; auto; [apply NoDup_firstn; exact NDD|].
      intros x Hx. rewrite SX0. apply ID. eapply In_firstn; exact Hx. }
    unfold undo_unlink_snap. destruct (negb c); [|exact WX].
    apply wf_relink; [exact WX|apply active_discards; exact AX0].
  - cbn [app]. unfold task in *. rewrite DU. apply discards_wf; auto; [apply NoDup_firstn; exact NDD|].
    intros x Hx. apply ID. eapply In_firstn; exact Hx.
Qed.

(* ------------------------------------------------------------------------------------------------ every step; histories *)

(* any step — completed, refused, or failed at any position and undone — preserves the invariant; the only side condition
   is the range of refresh.retain that the configuration accepts *)
Theorem step_wf_all : forall o k retain inuse s, wf s -> (2 <= retain)%Z -> wf (step o k retain inuse s).
Proof.
  intros o k retain inuse s W R.
  destruct k as [|j].
  - apply (step_wf (mkH o 0 retain inuse) s W). split; [exact R|left; reflexivity].
  - destruct (accepts o s) eqn:AC; [|rewrite refused_unchanged; auto].
    destruct (okind o) eqn:K; try (apply poke_wf; auto; fail); unfold step; rewrite AC, K.
    + apply failed_c10_wf; auto. left; exact K.
    + apply failed_c10_wf; auto. right; left; exact K.
    + apply failed_c10_wf; auto. right; right; exact K.
    + apply failed_remove_wf; auto.
    + apply failed_remove_rev_wf; auto.
    + apply failed_enable_wf; auto.
    + apply failed_disable_wf; auto.
Qed.

(* every history of operations, each completed, refused, or failed at an arbitrary task and undone, played from the
   empty state with retain values >= 2, ends in a state that satisfies the invariant *)
Theorem history_wf_all : forall hs s, wf s -> (forall h, In h hs -> (2 <= h_retain h)%Z) -> wf (hplay hs s).
Proof.
  induction hs as [|h r IH]; intros s W R; [exact W|]. simpl. apply IH.
  - unfold hrun. apply step_wf_all; auto. apply R. left; reflexivity.
  - intros h' Hh. apply R. right. exact Hh.
Qed.
