(* Proofs about models/SnapSeq.v — part 11: C10 after garbage collection with the configuration guard refined to the
   failure position (has the configure hook completed before the failure?). *)
From Coq Require Import List NArith ZArith Bool Arith Lia.
Import ListNotations.
Require Import V.models.SnapSeq V.proofs.SnapSeqProofs V.proofs.SnapSeqProofs2 V.proofs.SnapSeqProofs3 V.proofs.SnapSeqProofs4
               V.proofs.SnapSeqProofs5.
Open Scope N_scope.

(* the same operation whose configure hook writes nothing *)
Definition no_hook (o : op) : op :=
  mkOp (okind o) (orev o) (odefault o) (ochan o) (odev o) (ojail o) (oclassic o) (otry o) (oignore o) (ocohort o)
       (onotblocked o) 0 (onow o) (ofromstore o).

Definition is_configure (t : task) : bool := kind_eqb (fst t) KConfigure.

(* what the hook would write only matters to the configure task *)
Lemma do_task_no_hook : forall o t s, is_configure t = false -> do_task (no_hook o) t s = do_task o t s.
Proof. intros o [k r] s H. destruct k; try reflexivity. discriminate H. Qed.

Lemma undo_task_no_hook : forall o c t d s, undo_task (no_hook o) c t d s = undo_task o c t d s.
Proof. intros o c [k r] d s. destruct k; reflexivity. Qed.

Lemma run_fail_no_hook : forall o c ts s,
  forallb (fun t => negb (is_configure t)) ts = true -> run_fail (no_hook o) c ts s = run_fail o c ts s.
Proof.
  induction ts as [|t ts IH]; intros s H; [reflexivity|]. simpl in H. apply andb_true_iff in H. destruct H as [H1 H2].
  apply negb_true_iff in H1. cbn [run_fail]. rewrite (do_task_no_hook o t s H1).
  destruct (do_task o t s) as [s' d]. rewrite undo_task_no_hook. rewrite IH; auto.
Qed.

Lemma tasks_no_hook : forall o s retain inuse, tasks_for (no_hook o) s retain inuse = tasks_for o s retain inuse.
Proof. reflexivity. Qed.
Lemma accepts_no_hook : forall o s, accepts (no_hook o) s = accepts o s.
Proof. reflexivity. Qed.

Lemma run_change_no_hook : forall o j ts s,
  forallb (fun t => negb (is_configure t)) (firstn j ts) = true ->
  run_change (no_hook o) (S j) ts s = run_change o (S j) ts s.
Proof. intros. rewrite !run_change_fail. apply run_fail_no_hook. assumption. Qed.

(* the guard, position by position: the snap has some configuration; or it has none, no stale snapshot exists for the
   current revision, and the configure hook writes nothing or has NOT completed among the first j tasks *)
Definition cfg_guard_at (o : op) (s : st) (j : nat) (ts : list task) : Prop :=
  cfg s <> 0 \/
  (rc_get (cur s) (revcfg s) = None /\
   (ohookcfg o = 0 \/ forallb (fun t => negb (is_configure t)) (firstn j ts) = true)).

Theorem failed_after_gc_at : forall s o j retain inuse,
  wf s -> okind o = ORefresh -> accepts o s = true -> (2 <= retain)%Z ->
  cfg_guard_at o s j (tasks_for o s retain inuse) ->
  forget (run_change o (S j) (tasks_for o s retain inuse) s)
  = forget (minus (map snd (filter is_discard (firstn j (tasks_for o s retain inuse)))) s).
Proof.
  intros s o j retain inuse W K AC R G.
  assert (NR : is_revert o = false) by (unfold is_revert; rewrite K; reflexivity).
  destruct G as [C|[N [H|H]]].
  - apply failed_after_gc_any; auto. left; exact C.
  - apply failed_after_gc_any; auto. right; right. repeat split; auto. congruence.
  - rewrite <- (run_change_no_hook o j (tasks_for o s retain inuse) s H).
    rewrite <- (tasks_no_hook o s retain inuse).
    apply failed_after_gc_any; auto.
    right; right. repeat split; auto. unfold is_revert. simpl. rewrite K. discriminate.
Qed.
