(* Proofs about models/SnapSeq.v — part 6: C11, completed enable / remove-revision / state pokes preserve the invariant. *)
From Coq Require Import List NArith ZArith Bool Arith Lia Sorting.Sorted.
Import ListNotations.
Require Import V.models.SnapSeq V.proofs.SnapSeqProofs V.proofs.SnapSeqProofs2 V.proofs.SnapSeqProofs3 V.proofs.SnapSeqProofs5.
Open Scope N_scope.

Lemma last_In : forall (l : list N) d, l <> [] -> In (last l d) l.
Proof.
  induction l as [|x l IH]; intros d H; [congruence|]. destruct l as [|y l]; [left; reflexivity|].
  right. apply IH. discriminate.
Qed.

(* discard-snap of one revision *)
Lemma discard_wf : forall r s, wf s -> In r (seq s) -> (r = cur s -> active s = false) -> wf (do_discard r s).
Proof.
  intros r s [W1 W2 W3 W4 W5 W6 W7 W8] IN CA.
  assert (NE : seq s <> []) by (intros E; rewrite E in IN; destruct IN). specialize (W2 NE).
  unfold do_discard.
  destruct (seq s) as [|a [|b l]] eqn:SQ; [congruence| |].
  - (* the last revision goes: the snap is gone *)
    destruct IN as [<-|[]]. unfold norm. simpl.
    assert (MT : rem a (mounted s) = []).
    { destruct (rem a (mounted s)) as [|u v] eqn:E; [reflexivity|].
      assert (I : In u (rem a (mounted s))) by (rewrite E; left; reflexivity).
      apply In_rem in I. destruct I as [I N]. apply W7 in I. destruct I as [I|[]]. congruence. }
    rewrite MT.
    assert (LK : link s = 0).
    { rewrite W8. destruct (active s) eqn:A; [|reflexivity]. destruct W2 as [E|[]]. pose proof (CA E) as F. congruence. }
    rewrite LK. constructor; simpl; try tauto; try constructor. intros x [].
  - rewrite <- SQ in *.
    destruct (cur s =? r) eqn:Q.
    + (* the current revision of an inactive snap: the last of the remaining ones becomes current *)
      apply N.eqb_eq in Q. assert (A : active s = false) by (apply CA; auto).
      assert (NE2 : rem r (seq s) <> []).
      { rewrite SQ. unfold rem. cbn. destruct (a =? r) eqn:Qa; destruct (b =? r) eqn:Qb; cbn; try discriminate.
        apply N.eqb_eq in Qa, Qb. subst. rewrite SQ in W1. inversion W1; subst. exfalso. apply H1. left. reflexivity. }
      destruct (rem r (seq s)) as [|u v] eqn:R; [congruence|]. rewrite <- R in *. unfold norm. simpl. rewrite R. rewrite <- R.
      constructor; simpl; auto.
      * unfold rem. apply NoDup_filter. exact W1.
      * intros _. apply last_In. exact NE2.
      * intros E. congruence.
      * intros x Hx. apply In_rem in Hx. apply In_rem. split; [apply W4; tauto|tauto].
      * apply sorted_rem. exact W5.
      * apply sorted_rem. exact W6.
      * intros x. rewrite !In_rem, W7. tauto.
      * rewrite W8, A. reflexivity.
    + apply N.eqb_neq in Q.
      assert (Ic : In (cur s) (rem r (seq s))) by (apply In_rem; auto).
      destruct (rem r (seq s)) as [|u v] eqn:R; [destruct Ic|]. rewrite <- R in *. unfold norm. simpl. rewrite R. rewrite <- R.
      constructor; simpl; auto.
      * unfold rem. apply NoDup_filter. exact W1.
      * intros E. rewrite E in Ic. destruct Ic.
      * intros x Hx. apply In_rem in Hx. apply In_rem. split; [apply W4; tauto|tauto].
      * apply sorted_rem. exact W5.
      * apply sorted_rem. exact W6.
      * intros x. rewrite !In_rem, W7. tauto.
Qed.

(* completed remove --revision *)
Theorem remove_rev_wf : forall o s retain inuse,
  wf s -> okind o = ORemoveRev -> accepts o s = true -> wf (run_change o 0 (tasks_for o s retain inuse) s).
Proof.
  intros o s retain inuse W K AC. rewrite run_change_ok.
  unfold accepts in AC. rewrite K in AC. bool_hyps.
  match goal with H : mem (orev o) (seq s) = true |- _ => apply mem_In in H; rename H into IN end.
  match goal with H : active s && (orev o =? cur s) = false |- _ => rename H into NA end.
  assert (CA : orev o = cur s -> active s = false).
  { intros E. rewrite E, N.eqb_refl, andb_true_r in NA. exact NA. }
  assert (E : run_ok o (filter essential (tasks_for o s retain inuse)) s = do_discard (orev o) s).
  { unfold tasks_for. rewrite K. unfold remove_tasks. rewrite K.
    destruct (seq s) as [|a [|b l]] eqn:SQ; [destruct IN| |reflexivity].
    destruct IN as [IN|[]]. destruct W as [W1 W2 _ _ _ _ _ _].
    assert (C : cur s = a).
    { assert (I : In (cur s) (seq s)) by (apply W2; rewrite SQ; discriminate). rewrite SQ in I. destruct I as [I|[]]. auto. }
    assert (A : active s = false) by (apply CA; congruence). rewrite A. reflexivity. }
  rewrite E. apply discard_wf; auto.
Qed.

(* completed enable: link-snap of the current revision of an inactive snap (it moves to the end of the kept list) *)
Theorem enable_wf : forall o s retain inuse,
  wf s -> okind o = OEnable -> accepts o s = true -> wf (run_change o 0 (tasks_for o s retain inuse) s).
Proof.
  intros o s retain inuse W K AC. rewrite run_change_ok.
  assert (NR : is_revert o = false) by (unfold is_revert; rewrite K; reflexivity).
  unfold accepts in AC. rewrite K in AC. bool_hyps.
  match goal with H : orev o = cur s |- _ => rename H into RC end.
  destruct W as [W1 W2 W3 W4 W5 W6 W7 W8].
  unfold installed in *. destruct (seq s) as [|x0 l0] eqn:SQ0; [discriminate|]. rewrite <- SQ0 in *.
  assert (NE : seq s <> []) by (rewrite SQ0; discriminate). specialize (W2 NE).
  unfold tasks_for. rewrite K.
  change (wf (run_ok o [(KLink, cur s)] s)). unfold run_ok. cbn [fold_left]. unfold do_task. cbn [fst snd].
  assert (E : fst (let (s', d) := do_link o s in (s', Some d)) = fst (do_link o s)) by (destruct (do_link o s); reflexivity).
  rewrite E. unfold do_link. rewrite NR, RC.
  destruct (last_index (cur s) (seq s)) as [i|] eqn:LI; [|apply last_index_none in LI; tauto].
  destruct (last_index_split _ _ _ W1 LI) as (a & b & SQ & LA & _ & _).
  rewrite SQ0. rewrite <- SQ0. cbn [fst].
  assert (R1 : remove_at i (seq s) ++ [cur s] = (a ++ b) ++ [cur s]) by (rewrite SQ, <- LA, remove_at_app; reflexivity).
  rewrite R1.
  assert (P : forall x, In x ((a ++ b) ++ [cur s]) <-> In x (seq s)).
  { intros x. rewrite SQ, !in_app_iff. simpl. tauto. }
  assert (ND : NoDup ((a ++ b) ++ [cur s])).
  { rewrite SQ in W1. apply NoDup_app_last; [eapply NoDup_remove_1; eauto|eapply NoDup_remove_2; eauto]. }
  constructor; simpl; auto.
  - intros _. apply P. exact W2.
  - intros Z. destruct (a ++ b); discriminate.
  - intros x Hx. apply In_rem in Hx. apply P. apply W4. tauto.
  - apply sorted_rem. exact W5.
  - intros x. rewrite W7. symmetry. apply P.
Qed.

(* snap set / refresh inhibition / a change of refresh.retain *)
Theorem poke_wf : forall o s k retain inuse,
  wf s -> (okind o = OSetCfg \/ okind o = OInhibit \/ okind o = ORetain) -> wf (step o k retain inuse s).
Proof.
  intros o s k retain inuse W K. unfold step. destruct (accepts o s) eqn:AC; [|exact W].
  assert (E : (match okind o with OSetCfg | OInhibit | ORetain => poke o s | _ => run_change o k (tasks_for o s retain inuse) s end)
              = poke o s) by (destruct K as [K|[K|K]]; rewrite K; reflexivity).
  rewrite E. unfold poke. destruct W as [W1 W2 W3 W4 W5 W6 W7 W8].
  destruct K as [K|[K|K]]; rewrite K; [| |constructor; auto].
  - unfold accepts in AC. rewrite K in AC. unfold installed in AC.
    constructor; simpl; auto. intros Z. rewrite Z in AC. discriminate.
  - unfold accepts in AC. rewrite K in AC. unfold installed in AC.
    constructor; simpl; auto. intros Z. rewrite Z in AC. discriminate.
Qed.

(* ------------------------------------------------------------------------------------------------ completed remove *)

Lemma In_seq_discard : forall d X x, In x (seq X) -> x <> d -> In d (seq X) -> In x (seq (do_discard d X)).
Proof.
  intros d X x Ix N Id. unfold do_discard.
  destruct (seq X) as [|a [|b l]] eqn:SQ; [destruct Ix| |].
  - destruct Ix as [<-|[]]. destruct Id as [<-|[]]. congruence.
  - rewrite <- SQ in *. assert (I : In x (rem d (seq X))) by (apply In_rem; auto).
    destruct (rem d (seq X)) as [|u v] eqn:R; [destruct I|]. rewrite <- R in *. unfold norm. simpl. rewrite R. rewrite <- R. exact I.
Qed.

Lemma active_norm : forall Y, active Y = false -> active (norm Y) = false.
Proof. intros Y A. unfold norm. destruct (seq Y); simpl; auto. Qed.

Lemma active_discard : forall d X, active X = false -> active (do_discard d X) = false.
Proof.
  intros d X A. unfold do_discard.
  match goal with |- context [let '(_, _) := ?e in _] => destruct e as [sq' c'] end.
  apply active_norm. simpl. exact A.
Qed.

Lemma discards_wf : forall o D X, wf X -> active X = false -> NoDup D -> incl D (seq X) ->
  wf (run_ok o (map (fun r => (KDiscard, r)) D) X).
Proof.
  induction D as [|d D IH]; intros X W A ND I; [exact W|].
  unfold run_ok in *. cbn [map fold_left]. unfold do_task at 2. cbn [fst snd].
  inversion ND; subst.
  assert (Id : In d (seq X)) by (apply I; left; reflexivity).
  apply IH; auto.
  - apply discard_wf; auto.
  - apply active_discard. exact A.
  - intros x Hx. apply In_seq_discard; auto; [apply I; right; exact Hx|intros ->; tauto].
Qed.

Lemma NoDup_rem : forall x (l : list N), NoDup l -> NoDup (rem x l).
Proof. intros. unfold rem. apply NoDup_filter. assumption. Qed.

Theorem remove_wf : forall o s retain inuse,
  wf s -> okind o = ORemove -> accepts o s = true -> wf (run_change o 0 (tasks_for o s retain inuse) s).
Proof.
  intros o s retain inuse W K AC. rewrite run_change_ok.
  unfold accepts in AC. rewrite K in AC.
  pose proof W as [W1 W2 W3 W4 W5 W6 W7 W8].
  assert (NE : seq s <> []) by (unfold installed in AC; destruct (seq s); [discriminate|discriminate]).
  specialize (W2 NE).
  set (D := rev (rem (cur s) (seq s)) ++ [cur s]).
  assert (E : filter essential (tasks_for o s retain inuse)
              = (if active s then [(KUnlinkSnap, cur s)] else []) ++ map (fun r => (KDiscard, r)) D).
  { unfold tasks_for. rewrite K. unfold remove_tasks. rewrite K. unfold D. rewrite map_app.
    rewrite !filter_app, filter_ess_gc. destruct (active s); reflexivity. }
  rewrite E. rewrite run_ok_app.
  assert (NDD : NoDup D).
  { unfold D. apply NoDup_app_last; [apply NoDup_rev; apply NoDup_rem; exact W1|].
    intros I. apply in_rev in I. apply In_rem in I. tauto. }
  assert (ID : incl D (seq s)).
  { intros x Hx. unfold D in Hx. apply in_app_iff in Hx. destruct Hx as [Hx|[<-|[]]]; auto.
    apply in_rev in Hx. apply In_rem in Hx. tauto. }
  destruct (active s) eqn:A.
  - unfold run_ok at 2. cbn. unfold do_unlink_snap. rewrite norm_id by (simpl; exact NE).
    apply discards_wf; simpl; auto. constructor; simpl; auto. intros Z. congruence.
  - unfold run_ok at 2. cbn. apply discards_wf; auto.
Qed.
