(* Lemmas about V.lib.JsonTree: sorted association lists (lookup / aset / aremove, extensionality), the induction
   principle for trees, well-formedness, purge, tset / tget. *)
From Coq Require Import List NArith ZArith Bool Lia ZifyBool ZifyN.
Import ListNotations.
Require Import V.lib.JsonTree.
Open Scope N_scope.

(* ------------------------------------------------------------------ lookup / aset / aremove *)
Section Assoc.
Context {A : Type}.
Implicit Types (l : list (key * A)) (k j : key) (v : A).

Lemma lookup_aset_eq : forall l k v, lookup k (aset k v l) = Some v.
Proof.
  induction l as [|[k' v'] r IH]; intros k v; cbn.
  - now rewrite N.eqb_refl.
  - destruct (k =? k') eqn:E; cbn.
    + now rewrite N.eqb_refl.
    + destruct (k <? k') eqn:L; cbn.
      * now rewrite N.eqb_refl.
      * rewrite E. apply IH.
Qed.

Lemma lookup_aset_neq : forall l k j v, j <> k -> lookup j (aset k v l) = lookup j l.
Proof.
  induction l as [|[k' v'] r IH]; intros k j v H; cbn.
  - destruct (j =? k) eqn:E; [lia|reflexivity].
  - destruct (k =? k') eqn:E; cbn.
    + assert (k = k') by lia; subst. destruct (j =? k') eqn:E2; [lia|reflexivity].
    + destruct (k <? k') eqn:L; cbn.
      * destruct (j =? k) eqn:E2; [lia|reflexivity].
      * destruct (j =? k'); [reflexivity|]. now apply IH.
Qed.

Lemma lookup_aset : forall l k j v, lookup j (aset k v l) = if j =? k then Some v else lookup j l.
Proof.
  intros. destruct (j =? k) eqn:E.
  - assert (j = k) by lia; subst. apply lookup_aset_eq.
  - apply lookup_aset_neq. lia.
Qed.

Lemma lookup_aremove : forall l k j, lookup j (aremove k l) = if j =? k then None else lookup j l.
Proof.
  induction l as [|[k' v'] r IH]; intros k j; cbn.
  - now destruct (j =? k).
  - destruct (k =? k') eqn:E.
    + rewrite IH. destruct (j =? k) eqn:E2; [reflexivity|]. destruct (j =? k') eqn:E3; [lia|reflexivity].
    + cbn. rewrite IH. destruct (j =? k') eqn:E3; [|reflexivity]. destruct (j =? k) eqn:E2; [lia|reflexivity].
Qed.

(* all keys of l above k *)
Definition above k l : Prop := forall j, In j (map fst l) -> k < j.

Lemma sorted_cons : forall k (ks : list key), sorted (k :: ks) = true <-> (forall j, In j ks -> k < j) /\ sorted ks = true.
Proof.
  intros k ks. revert k. induction ks as [|k' r IH]; intros k.
  - cbn. split; [intros _; split; [intros j []|reflexivity]|reflexivity].
  - change (sorted (k :: k' :: r)) with ((k <? k') && sorted (k' :: r)). split.
    + intros H. apply andb_prop in H. destruct H as [H1 H2]. split; [|exact H2].
      intros j [->|Hj]; [lia|]. apply IH in H2. destruct H2 as [H2 _]. specialize (H2 j Hj). lia.
    + intros [H1 H2]. apply andb_true_intro. split; [|exact H2]. specialize (H1 k' (or_introl eq_refl)). lia.
Qed.

Lemma lookup_none_notin : forall l k, ~ In k (map fst l) -> lookup k l = None.
Proof.
  induction l as [|[k' v'] r IH]; intros k H; cbn; [reflexivity|].
  destruct (k =? k') eqn:E.
  - exfalso. apply H. left. cbn. lia.
  - apply IH. intros Hin. apply H. now right.
Qed.

Lemma lookup_some_in : forall l k v, lookup k l = Some v -> In k (map fst l).
Proof.
  induction l as [|[k' v'] r IH]; intros k v H; cbn in *; [discriminate|].
  destruct (k =? k') eqn:E; [left; lia|right; eauto].
Qed.

Lemma lookup_in : forall l k v, lookup k l = Some v -> In (k, v) l.
Proof.
  induction l as [|[k' v'] r IH]; intros k v H; cbn in *; [discriminate|].
  destruct (k =? k') eqn:E.
  - injection H as <-. left. f_equal. lia.
  - right; eauto.
Qed.

Lemma in_lookup : forall l k v, sorted (map fst l) = true -> In (k, v) l -> lookup k l = Some v.
Proof.
  induction l as [|[k' v'] r IH]; intros k v S H; [destruct H|].
  cbn [map fst] in S. apply sorted_cons in S. destruct S as [S1 S2]. cbn.
  destruct H as [H|H].
  - injection H as -> ->. now rewrite N.eqb_refl.
  - destruct (k =? k') eqn:E.
    + assert (k = k') by lia; subst. specialize (S1 k' (in_map fst _ _ H)). lia.
    + now apply IH.
Qed.

Lemma keys_aset : forall l k v j, In j (map fst (aset k v l)) <-> j = k \/ In j (map fst l).
Proof.
  induction l as [|[k' v'] r IH]; intros k v j; cbn.
  - intuition.
  - destruct (k =? k') eqn:E; cbn.
    + assert (k = k') by lia; subst. intuition.
    + destruct (k <? k'); cbn; [intuition|]. rewrite IH. intuition.
Qed.

Lemma sorted_aset : forall l k v, sorted (map fst l) = true -> sorted (map fst (aset k v l)) = true.
Proof.
  induction l as [|[k' v'] r IH]; intros k v S; cbn; [reflexivity|].
  cbn [map fst] in S. pose proof S as S0. apply sorted_cons in S. destruct S as [S1 S2].
  destruct (k =? k') eqn:E; cbn [map fst].
  - assert (k = k') by lia; subst. apply sorted_cons. now split.
  - destruct (k <? k') eqn:L; cbn [map fst].
    + apply sorted_cons. split; [|exact S0]. intros j [<-|Hj]; [lia|]. specialize (S1 j Hj). lia.
    + apply sorted_cons. split; [|now apply IH]. intros j Hj. apply keys_aset in Hj. destruct Hj as [->|Hj]; [lia|auto].
Qed.

Lemma keys_aremove : forall l k j, In j (map fst (aremove k l)) -> In j (map fst l).
Proof.
  induction l as [|[k' v'] r IH]; intros k j; cbn; [auto|].
  destruct (k =? k'); cbn; intros H; [right; eauto|]. destruct H; [now left|right; eauto].
Qed.

Lemma sorted_aremove : forall l k, sorted (map fst l) = true -> sorted (map fst (aremove k l)) = true.
Proof.
  induction l as [|[k' v'] r IH]; intros k S; cbn; [reflexivity|].
  cbn [map fst] in S. apply sorted_cons in S. destruct S as [S1 S2].
  destruct (k =? k'); [now apply IH|]. cbn [map fst]. apply sorted_cons. split; [|now apply IH].
  intros j Hj. apply S1. eapply keys_aremove; eauto.
Qed.

(* two sorted association lists with the same lookups are equal *)
Lemma assoc_ext : forall l1 l2, sorted (map fst l1) = true -> sorted (map fst l2) = true ->
  (forall k, lookup k l1 = lookup k l2) -> l1 = l2.
Proof.
  induction l1 as [|[k1 v1] r1 IH]; intros l2 S1 S2 H.
  - destruct l2 as [|[k2 v2] r2]; [reflexivity|]. specialize (H k2). cbn in H. rewrite N.eqb_refl in H. discriminate.
  - destruct l2 as [|[k2 v2] r2].
    + specialize (H k1). cbn in H. rewrite N.eqb_refl in H. discriminate.
    + cbn [map fst] in S1, S2. apply sorted_cons in S1. apply sorted_cons in S2.
      destruct S1 as [A1 B1]. destruct S2 as [A2 B2].
      assert (k1 = k2).
      { pose proof (H k1) as H1. pose proof (H k2) as H2. cbn in H1, H2. rewrite N.eqb_refl in H1, H2.
        destruct (k1 =? k2) eqn:E; [lia|]. destruct (k2 =? k1) eqn:E'; [lia|].
        symmetry in H1. apply lookup_some_in in H1. apply lookup_some_in in H2.
        specialize (A2 _ H1). specialize (A1 _ H2). lia. }
      subst k2. pose proof (H k1) as H1. cbn in H1. rewrite N.eqb_refl in H1. injection H1 as ->.
      f_equal. apply IH; auto. intros k. specialize (H k). cbn in H.
      destruct (k =? k1) eqn:E; [|exact H].
      assert (k = k1) by lia; subst. rewrite !lookup_none_notin; auto.
      * intros Hin. specialize (A2 _ Hin). lia.
      * intros Hin. specialize (A1 _ Hin). lia.
Qed.

Lemma aset_aset_same : forall l k v v', sorted (map fst l) = true -> aset k v (aset k v' l) = aset k v l.
Proof.
  intros. apply assoc_ext; auto using sorted_aset. intros j. rewrite !lookup_aset. now destruct (j =? k).
Qed.

End Assoc.

Lemma lookup_map : forall {A B : Type} (f : A -> B) (l : list (key * A)) k,
  lookup k (map (fun kv => (fst kv, f (snd kv))) l) = option_map f (lookup k l).
Proof.
  induction l as [|[k' v'] r IH]; intros k; cbn; [reflexivity|]. destruct (k =? k'); [reflexivity|apply IH].
Qed.

Lemma keys_map : forall {A B : Type} (f : A -> B) (l : list (key * A)),
  map fst (map (fun kv => (fst kv, f (snd kv))) l) = map fst l.
Proof. induction l as [|[k v] r IH]; cbn; [reflexivity|now rewrite IH]. Qed.

(* ------------------------------------------------------------------ induction on trees *)
Lemma tree_ind' : forall P : tree -> Prop,
  P Null -> (forall z, P (Atom z)) ->
  (forall l, Forall (fun kv => P (snd kv)) l -> P (Obj l)) ->
  forall t, P t.
Proof.
  intros P HN HA HO. fix IH 1. intros [| z | l]; [exact HN|apply HA|].
  apply HO. induction l as [|[k v] r IHl]; constructor; [apply IH|exact IHl].
Qed.

(* ------------------------------------------------------------------ well-formed trees *)
Lemma wf_obj : forall l, wf_tree (Obj l) = true <->
  sorted (map fst l) = true /\ (forall k c, lookup k l = Some c -> wf_tree c = true).
Proof.
  intros l. cbn [wf_tree]. rewrite andb_true_iff, forallb_forall. split; intros [S H]; split; auto.
  - intros k c Hl. apply lookup_in in Hl. exact (H _ Hl).
  - intros [k c] Hin. apply H with k. now apply in_lookup.
Qed.

Lemma wf_aset : forall l k v, wf_tree (Obj l) = true -> wf_tree v = true -> wf_tree (Obj (aset k v l)) = true.
Proof.
  intros l k v Hl Hv. apply wf_obj in Hl. destruct Hl as [S H]. apply wf_obj. split; [now apply sorted_aset|].
  intros j c. rewrite lookup_aset. destruct (j =? k); [now intros [= <-]|apply H].
Qed.

Lemma wf_aremove : forall l k, wf_tree (Obj l) = true -> wf_tree (Obj (aremove k l)) = true.
Proof.
  intros l k Hl. apply wf_obj in Hl. destruct Hl as [S H]. apply wf_obj. split; [now apply sorted_aremove|].
  intros j c. rewrite lookup_aremove. destruct (j =? k); [discriminate|apply H].
Qed.

Lemma wf_lookup : forall l k c, wf_tree (Obj l) = true -> lookup k l = Some c -> wf_tree c = true.
Proof. intros l k c H. apply wf_obj in H. destruct H as [_ H]. apply H. Qed.

Definition wf_opt (o : option tree) : Prop := match o with Some t => wf_tree t = true | None => True end.

Lemma wf_opt_lookup : forall l k, wf_tree (Obj l) = true -> wf_opt (lookup k l).
Proof. intros l k H. destruct (lookup k l) eqn:E; cbn; [eapply wf_lookup; eauto|exact I]. Qed.

Lemma wf_nest : forall p v, wf_tree v = true -> wf_tree (nest p v) = true.
Proof. induction p as [|k r IH]; intros v H; cbn; [exact H|]. now rewrite IH. Qed.

Lemma tset_none_nest : forall p v, tset p v None = nest p v.
Proof. induction p as [|k r IH]; intros v; cbn; [reflexivity|now rewrite IH]. Qed.

Lemma wf_tset : forall p v o, wf_tree v = true -> wf_opt o -> wf_tree (tset p v o) = true.
Proof.
  induction p as [|k r IH]; intros v o Hv Ho; [exact Hv|].
  assert (F : wf_tree (Obj [(k, tset r v None)]) = true).
  { cbn. rewrite IH; cbn; auto. }
  destruct o as [[| z | l]|]; cbn [tset]; try exact F.
  apply wf_aset; [exact Ho|]. apply IH; [exact Hv|]. now apply wf_opt_lookup.
Qed.

(* ------------------------------------------------------------------ purge *)
Lemma purge_obj : forall l, purge (Obj l) = Some (Obj (purge_list l)).
Proof.
  intros l. reflexivity.
Qed.

Lemma keys_purge_list : forall l j, In j (map fst (purge_list l)) -> In j (map fst l).
Proof.
  induction l as [|[k v] r IH]; intros j; cbn; [auto|]. destruct (purge v); cbn; intros H.
  - destruct H; [now left|right; auto].
  - right; auto.
Qed.

Lemma sorted_purge_list : forall l, sorted (map fst l) = true -> sorted (map fst (purge_list l)) = true.
Proof.
  induction l as [|[k v] r IH]; intros S; cbn; [reflexivity|].
  cbn [map fst] in S. apply sorted_cons in S. destruct S as [S1 S2].
  destruct (purge v); [|now apply IH]. cbn [map fst]. apply sorted_cons. split; [|now apply IH].
  intros j Hj. apply S1. now apply keys_purge_list.
Qed.

Lemma lookup_purge_list : forall l k, sorted (map fst l) = true ->
  lookup k (purge_list l) = match lookup k l with Some c => purge c | None => None end.
Proof.
  induction l as [|[k' v] r IH]; intros k S; cbn; [reflexivity|].
  cbn [map fst] in S. apply sorted_cons in S. destruct S as [S1 S2].
  destruct (k =? k') eqn:E.
  - assert (k = k') by lia; subst. destruct (purge v) eqn:P; cbn.
    + now rewrite N.eqb_refl.
    + apply lookup_none_notin. intros Hin. apply keys_purge_list in Hin. specialize (S1 _ Hin). lia.
  - destruct (purge v); cbn; [rewrite E|]; now apply IH.
Qed.

Lemma wf_purge : forall t t', wf_tree t = true -> purge t = Some t' -> wf_tree t' = true.
Proof.
  induction t as [| z | l IH] using tree_ind'; intros t' W P.
  - discriminate.
  - injection P as <-. reflexivity.
  - rewrite purge_obj in P. injection P as <-. apply wf_obj in W. destruct W as [S W].
    apply wf_obj. split; [now apply sorted_purge_list|].
    intros k c. rewrite lookup_purge_list by exact S. destruct (lookup k l) eqn:E; [|discriminate].
    intros Pc. rewrite Forall_forall in IH. apply lookup_in in E as Hin. apply (IH _ Hin c); [|exact Pc].
    cbn. eapply W. exact E.
Qed.

Lemma wf_purge_list : forall l, wf_tree (Obj l) = true -> wf_tree (Obj (purge_list l)) = true.
Proof. intros l W. eapply wf_purge; [exact W|apply purge_obj]. Qed.
