(* C20 - proofs about the assertion text codec model (models/AssertCodec.v). *)
From Coq Require Import List NArith ZArith Bool Arith Lia ZifyBool ZifyNat ZifyN.
Import ListNotations.
Require Import V.lib.Bytes V.lib.Dec V.models.AssertCodec.
Open Scope N_scope.

(* ------------------------------------------------------------------ basics *)
Lemma beq_true_iff : forall a b, beq a b = true <-> a = b.
Proof.
  induction a as [|x a IH]; destruct b as [|y b]; cbn; split; intro H; try congruence; try reflexivity.
  - apply andb_true_iff in H. destruct H as [H1 H2]. apply N.eqb_eq in H1. apply IH in H2. congruence.
  - inversion H; subst. rewrite N.eqb_refl. cbn. apply IH. reflexivity.
Qed.

Lemma beq_refl : forall a, beq a a = true.
Proof. intro a. apply beq_true_iff. reflexivity. Qed.

Lemma beq_sym : forall a b, beq a b = beq b a.
Proof.
  intros a b. destruct (beq a b) eqn:E.
  - apply beq_true_iff in E. subst. symmetry. apply beq_refl.
  - destruct (beq b a) eqn:E2; [|reflexivity]. apply beq_true_iff in E2. subst. rewrite beq_refl in E. discriminate.
Qed.

Lemma has_prefix_app : forall p s, has_prefix p (p ++ s) = true.
Proof. induction p as [|x p IH]; intro s; cbn; [reflexivity|]. rewrite N.eqb_refl. cbn. apply IH. Qed.

Lemma has_prefix_app_both : forall p q s, has_prefix (p ++ q) (p ++ s) = has_prefix q s.
Proof. induction p as [|x p IH]; intros q s; cbn; [reflexivity|]. rewrite N.eqb_refl. cbn. apply IH. Qed.

Lemma has_prefix_length : forall p s, has_prefix p s = true -> (length p <= length s)%nat.
Proof.
  induction p as [|x p IH]; intros s H; cbn in *; [lia|].
  destruct s as [|y s]; [discriminate|]. apply andb_true_iff in H. destruct H as [_ H]. apply IH in H. cbn. lia.
Qed.

Lemma has_prefix_app_l : forall p q s, has_prefix (p ++ q) s = true -> has_prefix p s = true.
Proof.
  induction p as [|x p IH]; intros q s H; cbn in *; [reflexivity|].
  destruct s as [|y s]; [discriminate|]. apply andb_true_iff in H. destruct H as [H1 H2].
  rewrite H1. cbn. eapply IH. exact H2.
Qed.

Lemma spaces_add : forall a b, spaces (a + b) = spaces a ++ spaces b.
Proof. intros a b. unfold spaces. apply repeat_app. Qed.

Lemma spaces_length : forall n, length (spaces n) = n.
Proof. intro n. unfold spaces. apply repeat_length. Qed.

Lemma skipn_spaces_app : forall n s, skipn n (spaces n ++ s) = s.
Proof.
  intros n s. rewrite skipn_app. rewrite spaces_length. rewrite Nat.sub_diag. cbn.
  rewrite skipn_all2; [reflexivity|]. rewrite spaces_length. lia.
Qed.

Lemma no_prefix_mono : forall n k s, has_prefix (spaces n) s = false -> has_prefix (spaces (n + k)) s = false.
Proof.
  intros n k s H. destruct (has_prefix (spaces (n + k)) s) eqn:E; [|reflexivity].
  rewrite spaces_add in E. apply has_prefix_app_l in E. congruence.
Qed.

Lemma list_intro_length : forall b, length (list_intro b) = (b + 3)%nat.
Proof. intro b. unfold list_intro. rewrite app_length, spaces_length. reflexivity. Qed.

Lemma map_intro_length : forall b k, length (map_intro b k) = (b + 2 + (length k + 1))%nat.
Proof. intros b k. unfold map_intro. rewrite !app_length, spaces_length. cbn. lia. Qed.

Lemma index_colon_lt : forall s k, index_colon s = Some k -> (k < length s)%nat.
Proof.
  induction s as [|c s IH]; intros k H; cbn in *; [discriminate|].
  destruct (c =? COLON); [inversion H; lia|].
  destruct (index_colon s) as [k'|]; cbn in H; [|discriminate]. inversion H; subst. specialize (IH k' eq_refl). lia.
Qed.

Lemma take_text_length : forall p ls a r, take_text p ls = (a, r) -> (length r <= length ls)%nat.
Proof.
  induction ls as [|l ls IH]; intros a r H; cbn in *.
  - inversion H; subst. cbn. lia.
  - destruct (has_prefix (spaces p) l).
    + destruct (take_text p ls) as [a' r'] eqn:E. inversion H; subst. specialize (IH a' r eq_refl). lia.
    + inversion H; subst. cbn. lia.
Qed.

Ltac nlia := unfold line, bytes in *; lia.

(* ------------------------------------------------------------------ the parser is total: no panic, the fuel suffices *)
Definition good {A : Type} (n : nat) (strict : bool) (x : res (A * list line)) : Prop :=
  x = Err \/ exists v r, x = Ok (v, r) /\ (if strict then (length r < n)%nat else (length r <= n)%nat).

Lemma parse_text_good : forall ls b, good (length ls) false (parse_text ls b).
Proof.
  intros ls b. unfold parse_text. destruct (take_text (b + 4) ls) as [a r] eqn:E.
  apply take_text_length in E. destruct a; [left; reflexivity|]. right. eexists _, _. split; [reflexivity|exact E].
Qed.

Lemma good_weaken : forall A n m (x : res (A * list line)), good n false x -> (n < m)%nat -> good m true x.
Proof.
  intros A n m x [H|[v [r [H1 H2]]]] L; [left; exact H|]. right. exists v, r. split; [exact H1|]. cbn in *. nlia.
Qed.

Lemma parse_total : forall f,
  (forall c ls b, ls <> [] -> (c <= length (hd [] ls))%nat -> (2 * length ls <= f)%nat ->
      good (length ls) true (parse_entry f c ls b))
  /\ (forall ls b acc, (2 * length ls + 1 <= f)%nat -> good (length ls) false (parse_list f ls b acc))
  /\ (forall ls b acc, (2 * length ls + 1 <= f)%nat -> good (length ls) false (parse_map f ls b acc)).
Proof.
  induction f as [|f [IHe [IHl IHm]]].
  - repeat split.
    + intros c ls b Hne _ Hf. destruct ls; [congruence|]. cbn in Hf. nlia.
    + intros; nlia.
    + intros; nlia.
  - repeat split.
    + intros c ls b Hne Hc Hf. destruct ls as [|entry rest]; [congruence|]. cbn in Hc.
      cbn [parse_entry]. destruct (Nat.eqb c (length entry)) eqn:Ec.
      * assert (Hr : (2 * length rest + 1 <= f)%nat) by (cbn in Hf; nlia).
        assert (Ht : good (length (entry :: rest)) true (parse_text rest b)).
        { eapply good_weaken; [apply parse_text_good|]. cbn. nlia. }
        destruct rest as [|nxt rest']; [exact Ht|].
        destruct (has_prefix (spaces (b + 2)) nxt); [|exact Ht].
        destruct (has_prefix [DASH] (skipn (b + 2) nxt)).
        { eapply good_weaken; [apply IHl; exact Hr|]. cbn. nlia. }
        destruct (skipn (b + 2) nxt) as [|c0 r0]; [exact Ht|].
        destruct (negb (c0 =? SP)); [|exact Ht].
        eapply good_weaken; [apply IHm; exact Hr|]. cbn. nlia.
      * apply Nat.eqb_neq in Ec.
        destruct (nth_error entry c) as [c0|] eqn:En.
        { destruct (c0 =? SP); [|left; reflexivity]. right. eexists _, _. split; [reflexivity|]. cbn. nlia. }
        { apply nth_error_None in En. nlia. }
    + intros ls b acc Hf. cbn [parse_list]. destruct ls as [|l rest].
      * right. eexists _, _. split; [reflexivity|]. cbn. nlia.
      * destruct (negb (has_prefix (list_intro b) l)) eqn:Ep.
        { right. eexists _, _. split; [reflexivity|]. cbn. nlia. }
        apply negb_false_iff in Ep. apply has_prefix_length in Ep. rewrite list_intro_length in Ep.
        assert (He : good (length (l :: rest)) true (parse_entry f (b + 3) (l :: rest) (b + 2))).
        { apply IHe; [congruence|cbn; exact Ep|cbn in *; nlia]. }
        destruct He as [He|[v [r [He Hl]]]]; rewrite He; [left; reflexivity|].
        assert (Hg : good (length r) false (parse_list f r b (acc ++ [v]))) by (apply IHl; cbn in *; nlia).
        destruct Hg as [Hg|[v' [r' [Hg Hl']]]]; [left; exact Hg|]. right. exists v', r'. split; [exact Hg|]. cbn in *. nlia.
    + intros ls b acc Hf. cbn [parse_map]. destruct ls as [|l rest].
      * right. eexists _, _. split; [reflexivity|]. cbn. nlia.
      * destruct (negb (has_prefix (spaces (b + 2)) l)) eqn:Ep.
        { right. eexists _, _. split; [reflexivity|]. cbn. nlia. }
        apply negb_false_iff in Ep. apply has_prefix_length in Ep. rewrite spaces_length in Ep.
        destruct (index_colon (skipn (b + 2) l)) as [k|] eqn:Ek; [|left; reflexivity].
        apply index_colon_lt in Ek. rewrite skipn_length in Ek.
        destruct (negb (valid_name (firstn k (skipn (b + 2) l)))); [left; reflexivity|].
        assert (He : good (length (l :: rest)) true (parse_entry f (b + 2 + (k + 1)) (l :: rest) (b + 2))).
        { apply IHe; [congruence|cbn; nlia|cbn in *; nlia]. }
        destruct He as [He|[v [r [He Hl]]]]; rewrite He; [left; reflexivity|].
        destruct (has_key (firstn k (skipn (b + 2) l)) acc); [left; reflexivity|].
        assert (Hg : good (length r) false (parse_map f r b (acc ++ [(firstn k (skipn (b + 2) l), v)])))
          by (apply IHm; cbn in *; nlia).
        destruct Hg as [Hg|[v' [r' [Hg Hl']]]]; [left; exact Hg|]. right. exists v', r'. split; [exact Hg|]. cbn in *. nlia.
Qed.

Lemma parse_top_total : forall f ls acc, (2 * length ls + 1 <= f)%nat ->
  parse_top f ls acc = Err \/ exists h, parse_top f ls acc = Ok h.
Proof.
  induction f as [|f IH]; intros ls acc Hf; [nlia|].
  cbn [parse_top]. destruct ls as [|entry rest]; [right; eexists; reflexivity|].
  destruct (index_colon entry) as [k|] eqn:Ek; [|left; reflexivity].
  apply index_colon_lt in Ek.
  destruct (negb (valid_name (firstn k entry))); [left; reflexivity|].
  destruct (parse_total f) as [IHe _].
  assert (He : good (length (entry :: rest)) true (parse_entry f (k + 1) (entry :: rest) 0)).
  { apply IHe; [congruence|cbn; nlia|cbn in *; nlia]. }
  destruct He as [He|[v [r [He Hl]]]]; rewrite He; [left; reflexivity|].
  destruct (has_key (firstn k entry) acc); [left; reflexivity|].
  apply IH. cbn in *. nlia.
Qed.

Theorem parse_header_lines_total : forall ls,
  parse_header_lines ls = Err \/ exists h, parse_header_lines ls = Ok h.
Proof. intro ls. unfold parse_header_lines, fuel_for. apply parse_top_total. nlia. Qed.

Theorem parse_headers_total : forall head, parse_headers head = Err \/ exists h, parse_headers head = Ok h.
Proof.
  intro head. unfold parse_headers. destruct (utf8_valid head); [apply parse_header_lines_total|left; reflexivity].
Qed.

(* ------------------------------------------------------------------ round trip *)
Section hv_ind2.
  Variable P : hv -> Prop.
  Hypothesis HS : forall ls, P (Str ls).
  Hypothesis HL : forall l, Forall P l -> P (Lst l).
  Hypothesis HM : forall m, Forall (fun kv => P (snd kv)) m -> P (Map m).
  Fixpoint hv_ind2 (v : hv) : P v :=
    match v with
    | Str ls => HS ls
    | Lst l => HL l ((fix go (l : list hv) : Forall P l :=
                        match l with
                        | [] => Forall_nil _
                        | x :: r => Forall_cons x (hv_ind2 x) (go r)
                        end) l)
    | Map m => HM m ((fix go (m : list (bytes * hv)) : Forall (fun kv => P (snd kv)) m :=
                        match m with
                        | [] => Forall_nil _
                        | (k, x) :: r => Forall_cons (k, x) (hv_ind2 x) (go r)
                        end) m)
    end.
End hv_ind2.

(* the line after a nested structure does not continue it *)
Definition stops (n : nat) (rest : list line) : Prop :=
  match rest with [] => True | r :: _ => has_prefix (spaces n) r = false end.

Lemma stops_mono : forall n k rest, stops n rest -> stops (n + k) rest.
Proof. intros n k [|r rest] H; cbn in *; [exact I|]. apply no_prefix_mono. exact H. Qed.

Lemma valid_name_head : forall k, valid_name k = true -> exists c r, k = c :: r /\ is_lower c = true.
Proof.
  intros [|c r] H; cbn in H; [discriminate|]. apply andb_true_iff in H. destruct H as [H _]. eauto.
Qed.

Lemma lower_not_special : forall c, is_lower c = true -> (c =? SP) = false /\ (c =? DASH) = false /\ (c =? COLON) = false.
Proof. intros c H. unfold is_lower, SP, DASH, COLON in *. nlia. Qed.

Lemma name_rest_no_colon : forall s, name_rest s = true -> index_colon s = None.
Proof.
  fix IH 1. intros [|c r] H; [reflexivity|]. cbn in H. cbn [index_colon].
  destruct (is_lower_digit c) eqn:E.
  - assert ((c =? COLON) = false) by (unfold is_lower_digit, is_lower, is_digit, COLON in *; nlia).
    rewrite H0. rewrite (IH r H). reflexivity.
  - destruct (c =? DASH) eqn:Ed; [|discriminate].
    assert ((c =? COLON) = false) by (unfold DASH, COLON in *; nlia). rewrite H0.
    destruct r as [|d r']; [discriminate|]. apply andb_true_iff in H. destruct H as [H1 H2].
    cbn [index_colon].
    assert ((d =? COLON) = false) by (unfold is_lower_digit, is_lower, is_digit, COLON in *; nlia). rewrite H.
    rewrite (IH r' H2). reflexivity.
Qed.

Lemma index_colon_app_none : forall s x, index_colon s = None -> index_colon (s ++ COLON :: x) = Some (length s).
Proof.
  induction s as [|c s IH]; intros x H; cbn in *; [reflexivity|].
  destruct (c =? COLON); [discriminate|]. destruct (index_colon s); [discriminate|]. rewrite IH; reflexivity.
Qed.

Lemma valid_name_index : forall k x, valid_name k = true -> index_colon (k ++ COLON :: x) = Some (length k).
Proof.
  intros k x H. apply index_colon_app_none. destruct k as [|c r]; [discriminate|]. cbn in H.
  apply andb_true_iff in H. destruct H as [H1 H2]. cbn. destruct (lower_not_special c H1) as [_ [_ Hc]]. rewrite Hc.
  rewrite (name_rest_no_colon r H2). reflexivity.
Qed.

Lemma firstn_app_exact : forall (A : Type) (a b : list A), firstn (length a) (a ++ b) = a.
Proof. intros A a b. rewrite firstn_app, Nat.sub_diag, firstn_all. cbn. apply app_nil_r. Qed.

(* a normalised value is written as at least one line, the first of which starts with the introduction *)
Lemma format_head : forall v intro b, norm v = true -> exists x tl, format_entry intro v b = (intro ++ x) :: tl.
Proof.
  intros [ls|l|m] intro b H; cbn in *.
  - destruct ls as [|l1 [|l2 ls]]; [discriminate| |].
    + eexists _, _. reflexivity.
    + exists [], (map (fun l => spaces (b + 4) ++ l) (l1 :: l2 :: ls)). rewrite app_nil_r. reflexivity.
  - destruct l; [discriminate|]. exists [], (flat_map (fun e => format_entry (list_intro b) e (b + 2)) (h :: l)).
    rewrite app_nil_r. reflexivity.
  - destruct m; [discriminate|].
    exists [], (flat_map (fun kv => format_entry (map_intro b (fst kv)) (snd kv) (b + 2)) (p :: m)).
    rewrite app_nil_r. reflexivity.
Qed.

Lemma take_text_map : forall p ls rest, stops p rest ->
  take_text p (map (fun l => spaces p ++ l) ls ++ rest) = (ls, rest).
Proof.
  induction ls as [|l ls IH]; intros rest H; cbn.
  - destruct rest as [|r rest]; [reflexivity|]. cbn in H. cbn. rewrite H. reflexivity.
  - rewrite has_prefix_app. rewrite (IH rest H). rewrite skipn_spaces_app. reflexivity.
Qed.

Lemma no_prefix_list_intro : forall b x, has_prefix (spaces (b + 2 + 2)) (list_intro b ++ x) = false.
Proof.
  intros b x. replace (b + 2 + 2)%nat with (b + 4)%nat by lia. rewrite spaces_add. unfold list_intro.
  rewrite <- app_assoc. rewrite has_prefix_app_both. reflexivity.
Qed.

Lemma no_prefix_name : forall k x, valid_name k = true -> has_prefix (spaces 2) (k ++ x) = false.
Proof.
  intros k x Hk. destruct (valid_name_head k Hk) as [c [r [-> Hc]]]. destruct (lower_not_special c Hc) as [Hsp _].
  cbn [spaces repeat has_prefix app]. rewrite (N.eqb_sym SP c), Hsp. reflexivity.
Qed.

Lemma no_prefix_map_intro : forall b k x, valid_name k = true ->
  has_prefix (spaces (b + 2 + 2)) (map_intro b k ++ x) = false.
Proof.
  intros b k x Hk. rewrite spaces_add. unfold map_intro. rewrite <- !app_assoc. rewrite has_prefix_app_both.
  apply no_prefix_name. exact Hk.
Qed.

Lemma spaces4 : forall b (l : bytes), spaces (b + 4) ++ l = spaces (b + 2) ++ SP :: SP :: l.
Proof. intros b l. replace (b + 4)%nat with (b + 2 + 2)%nat by lia. rewrite spaces_add, <- app_assoc. reflexivity. Qed.

Definition entry_ok (v : hv) : Prop :=
  norm v = true -> forall intro b rest f, stops (b + 2) rest ->
    (2 * length (format_entry intro v b ++ rest) <= f)%nat ->
    parse_entry f (length intro) (format_entry intro v b ++ rest) b = Ok (v, rest).

Lemma has_key_distinct : forall (acc : list (bytes * hv)) k v m,
  keys_distinct (acc ++ (k, v) :: m) = true -> has_key k acc = false.
Proof.
  induction acc as [|a acc IH]; intros k v m H; cbn in *; [reflexivity|].
  apply andb_true_iff in H. destruct H as [H1 H2]. apply negb_true_iff in H1.
  rewrite existsb_app in H1. apply orb_false_iff in H1. destruct H1 as [_ H1]. cbn in H1.
  apply orb_false_iff in H1. destruct H1 as [H1 _]. rewrite beq_sym. rewrite H1. cbn. eapply IH. exact H2.
Qed.

Lemma list_ok : forall l, Forall entry_ok l -> forallb norm l = true ->
  forall acc b rest f, stops (b + 2) rest ->
    (2 * length (flat_map (fun e => format_entry (list_intro b) e (b + 2)) l ++ rest) + 1 <= f)%nat ->
    parse_list f (flat_map (fun e => format_entry (list_intro b) e (b + 2)) l ++ rest) b acc = Ok (Lst (acc ++ l), rest).
Proof.
  induction l as [|e l IH]; intros HF Hn acc b rest f Hs Hf.
  - destruct f as [|f]; [nlia|]. cbn. rewrite app_nil_r. destruct rest as [|r rest]; [reflexivity|].
    cbn in Hs. destruct (has_prefix (list_intro b) r) eqn:E; [|reflexivity].
    unfold list_intro in E. replace [SP; SP; DASH] with (spaces 2 ++ [DASH]) in E by reflexivity.
    rewrite app_assoc in E. apply has_prefix_app_l in E. rewrite <- spaces_add in E. congruence.
  - inversion HF as [|e' l' He Hl]; subst. cbn in Hn. apply andb_true_iff in Hn. destruct Hn as [Hne Hnl].
    destruct f as [|f]; [nlia|]. cbn [flat_map] in *. rewrite <- app_assoc in *.
    destruct (format_head e (list_intro b) (b + 2) Hne) as [x [tl Hfmt]].
    cbn [parse_list]. rewrite Hfmt at 1. cbn [app]. rewrite has_prefix_app. cbn [negb].
    rewrite <- (list_intro_length b). 
    assert (Hs' : stops (b + 2 + 2) (flat_map (fun e0 => format_entry (list_intro b) e0 (b + 2)) l ++ rest)).
    { destruct l as [|e2 l2]; [cbn; apply stops_mono; exact Hs|].
      cbn in Hnl. apply andb_true_iff in Hnl. destruct Hnl as [Hn2 _].
      destruct (format_head e2 (list_intro b) (b + 2) Hn2) as [x2 [tl2 Hf2]].
      cbn [flat_map]. rewrite Hf2. cbn [app stops]. apply no_prefix_list_intro. }
    rewrite (He Hne (list_intro b) (b + 2)%nat _ f Hs'); [|rewrite app_length in *; nlia].
    rewrite (IH Hl Hnl (acc ++ [e]) b rest f Hs).
    + rewrite <- app_assoc. reflexivity.
    + rewrite Hfmt in Hf. rewrite !app_length in *. cbn in Hf. nlia.
Qed.

Lemma map_ok : forall m, Forall (fun kv => entry_ok (snd kv)) m ->
  forallb (fun kv => valid_name (fst kv) && norm (snd kv)) m = true ->
  forall acc b rest f, keys_distinct (acc ++ m) = true -> stops (b + 2) rest ->
    (2 * length (flat_map (fun kv => format_entry (map_intro b (fst kv)) (snd kv) (b + 2)) m ++ rest) + 1 <= f)%nat ->
    parse_map f (flat_map (fun kv => format_entry (map_intro b (fst kv)) (snd kv) (b + 2)) m ++ rest) b acc
    = Ok (Map (acc ++ m), rest).
Proof.
  induction m as [|[k v] m IH]; intros HF Hn acc b rest f Hd Hs Hf.
  - destruct f as [|f]; [nlia|]. cbn. rewrite app_nil_r. destruct rest as [|r rest]; [reflexivity|].
    cbn in Hs. rewrite Hs. reflexivity.
  - inversion HF as [|e' l' He Hl]; subst. cbn [snd] in He. cbn in Hn. apply andb_true_iff in Hn. destruct Hn as [Hne Hnl].
    apply andb_true_iff in Hne. destruct Hne as [Hk Hv].
    destruct f as [|f]; [nlia|]. cbn [flat_map fst snd] in *. rewrite <- app_assoc in *.
    destruct (format_head v (map_intro b k) (b + 2) Hv) as [x [tl Hfmt]].
    set (L := format_entry (map_intro b k) v (b + 2) ++
              flat_map (fun kv => format_entry (map_intro b (fst kv)) (snd kv) (b + 2)) m ++ rest) in *.
    assert (HL : L = (spaces (b + 2) ++ (k ++ COLON :: x)) ::
                     (tl ++ flat_map (fun kv => format_entry (map_intro b (fst kv)) (snd kv) (b + 2)) m ++ rest)).
    { unfold L. rewrite Hfmt. unfold map_intro. rewrite <- !app_assoc. reflexivity. }
    cbn [parse_map]. rewrite HL. rewrite has_prefix_app. cbn [negb]. rewrite skipn_spaces_app.
    rewrite (valid_name_index k x Hk). rewrite firstn_app_exact. rewrite Hk. cbn [negb].
    replace (b + 2 + (length k + 1))%nat with (length (map_intro b k)) by apply map_intro_length.
    rewrite <- HL. unfold L in *.
    assert (Hs' : stops (b + 2 + 2)
                    (flat_map (fun kv => format_entry (map_intro b (fst kv)) (snd kv) (b + 2)) m ++ rest)).
    { destruct m as [|[k2 v2] m2]; [cbn; apply stops_mono; exact Hs|].
      cbn in Hnl. apply andb_true_iff in Hnl. destruct Hnl as [Hn2 _]. apply andb_true_iff in Hn2. destruct Hn2 as [Hk2 Hv2].
      destruct (format_head v2 (map_intro b k2) (b + 2) Hv2) as [x2 [tl2 Hf2]].
      cbn [flat_map fst snd]. rewrite Hf2. cbn [app stops]. apply no_prefix_map_intro. exact Hk2. }
    rewrite (He Hv (map_intro b k) (b + 2)%nat _ f Hs'); [|rewrite app_length in *; nlia].
    rewrite (has_key_distinct acc k v m Hd).
    replace (acc ++ (k, v) :: m) with ((acc ++ [(k, v)]) ++ m) by (rewrite <- app_assoc; reflexivity).
    apply (IH Hl Hnl (acc ++ [(k, v)]) b rest f); [|exact Hs|].
    + rewrite <- app_assoc. exact Hd.
    + rewrite Hfmt in Hf. rewrite !app_length in *. cbn in Hf. nlia.
Qed.

Lemma pe_text : forall f intro b l1 T',
  parse_entry (S f) (length intro) (intro :: (spaces (b + 2) ++ SP :: SP :: l1) :: T') b
  = parse_text ((spaces (b + 2) ++ SP :: SP :: l1) :: T') b.
Proof.
  intros. cbn [parse_entry]. rewrite Nat.eqb_refl. rewrite has_prefix_app, skipn_spaces_app. reflexivity.
Qed.

Lemma pe_list : forall f intro b x T',
  parse_entry (S f) (length intro) (intro :: (list_intro b ++ x) :: T') b
  = parse_list f ((list_intro b ++ x) :: T') b [].
Proof.
  intros. cbn [parse_entry]. rewrite Nat.eqb_refl. unfold list_intro.
  replace [SP; SP; DASH] with (spaces 2 ++ [DASH]) by reflexivity. rewrite (app_assoc (spaces b)), <- spaces_add.
  rewrite <- !app_assoc. rewrite has_prefix_app, skipn_spaces_app. reflexivity.
Qed.

Lemma pe_map : forall f intro b k x T', valid_name k = true ->
  parse_entry (S f) (length intro) (intro :: (map_intro b k ++ x) :: T') b
  = parse_map f ((map_intro b k ++ x) :: T') b [].
Proof.
  intros f intro b k x T' Hk. cbn [parse_entry]. rewrite Nat.eqb_refl. unfold map_intro.
  rewrite <- !app_assoc. rewrite has_prefix_app, skipn_spaces_app.
  destruct (valid_name_head k Hk) as [c [r [-> Hc]]]. destruct (lower_not_special c Hc) as [Hsp [Hda _]].
  cbn [app has_prefix]. rewrite (N.eqb_sym DASH c), Hda. cbn [andb]. rewrite Hsp. reflexivity.
Qed.

Lemma entry_ok_all : forall v, entry_ok v.
Proof.
  apply hv_ind2.
  - (* strings *)
    intros ls Hn intro b rest f Hs Hf. destruct ls as [|l1 [|l2 ls]]; [discriminate| |].
    + destruct f as [|f]; [cbn in Hf; nlia|]. cbn [format_entry app parse_entry].
      rewrite app_length. cbn [length].
      destruct (Nat.eqb (length intro) (length intro + S (length l1))) eqn:E; [apply Nat.eqb_eq in E; nlia|].
      rewrite nth_error_app2 by nlia. rewrite Nat.sub_diag. cbn [nth_error]. unfold SP. cbn [N.eqb Pos.eqb].
      replace (length intro + 1)%nat with (length (intro ++ [32])) by (rewrite app_length; reflexivity).
      replace (intro ++ 32 :: l1) with ((intro ++ [32]) ++ l1) by (rewrite <- app_assoc; reflexivity).
      rewrite skipn_app, Nat.sub_diag, skipn_all. reflexivity.
    + destruct f as [|f]; [cbn in Hf; nlia|].
      assert (Hshape : format_entry intro (Str (l1 :: l2 :: ls)) b ++ rest
                       = intro :: (spaces (b + 2) ++ SP :: SP :: l1) :: (map (fun l => spaces (b + 4) ++ l) (l2 :: ls) ++ rest)).
      { cbn [format_entry map app]. rewrite <- (spaces4 b l1). reflexivity. }
      rewrite Hshape. rewrite pe_text. rewrite <- (spaces4 b l1).
      replace ((spaces (b + 4) ++ l1) :: map (fun l => spaces (b + 4) ++ l) (l2 :: ls) ++ rest)
        with (map (fun l => spaces (b + 4) ++ l) (l1 :: l2 :: ls) ++ rest) by reflexivity.
      unfold parse_text. rewrite take_text_map; [reflexivity|].
      replace (b + 4)%nat with (b + 2 + 2)%nat by nlia. apply stops_mono. exact Hs.
  - (* lists *)
    intros l HF Hn intro b rest f Hs Hf. cbn in Hn. apply andb_true_iff in Hn. destruct Hn as [Hne Hnl].
    destruct l as [|e l]; [discriminate|]. destruct f as [|f]; [cbn in Hf; nlia|].
    assert (Hne' : norm e = true) by (cbn in Hnl; apply andb_true_iff in Hnl; tauto).
    destruct (format_head e (list_intro b) (b + 2) Hne') as [x [tl Hfmt]].
    assert (Hshape : format_entry intro (Lst (e :: l)) b ++ rest
                     = intro :: (list_intro b ++ x)
                         :: (tl ++ flat_map (fun e => format_entry (list_intro b) e (b + 2)) l ++ rest)).
    { cbn [format_entry flat_map app]. rewrite Hfmt. rewrite <- app_assoc. reflexivity. }
    rewrite Hshape in *. rewrite pe_list.
    replace ((list_intro b ++ x) :: tl ++ flat_map (fun e => format_entry (list_intro b) e (b + 2)) l ++ rest)
      with (flat_map (fun e => format_entry (list_intro b) e (b + 2)) (e :: l) ++ rest)
      by (cbn [flat_map]; rewrite Hfmt, <- app_assoc; reflexivity).
    apply (list_ok (e :: l) HF Hnl [] b rest f Hs).
    cbn [flat_map]. rewrite Hfmt, <- app_assoc. cbn [app length] in *. nlia.
  - (* maps *)
    intros m HF Hn intro b rest f Hs Hf. cbn in Hn. apply andb_true_iff in Hn. destruct Hn as [Hn Hd].
    apply andb_true_iff in Hn. destruct Hn as [Hne Hnl].
    destruct m as [|[k v] m]; [discriminate|]. destruct f as [|f]; [cbn in Hf; nlia|].
    assert (Hkv : valid_name k = true /\ norm v = true).
    { cbn in Hnl. apply andb_true_iff in Hnl. destruct Hnl as [Hnl _]. apply andb_true_iff in Hnl. exact Hnl. }
    destruct Hkv as [Hk Hv].
    destruct (format_head v (map_intro b k) (b + 2) Hv) as [x [tl Hfmt]].
    assert (Hshape : format_entry intro (Map ((k, v) :: m)) b ++ rest
                     = intro :: (map_intro b k ++ x)
                         :: (tl ++ flat_map (fun kv => format_entry (map_intro b (fst kv)) (snd kv) (b + 2)) m ++ rest)).
    { cbn [format_entry flat_map app fst snd]. rewrite Hfmt. rewrite <- app_assoc. reflexivity. }
    rewrite Hshape in *. rewrite (pe_map _ _ _ _ _ _ Hk).
    replace ((map_intro b k ++ x) :: tl ++ flat_map (fun kv => format_entry (map_intro b (fst kv)) (snd kv) (b + 2)) m ++ rest)
      with (flat_map (fun kv => format_entry (map_intro b (fst kv)) (snd kv) (b + 2)) ((k, v) :: m) ++ rest)
      by (cbn [flat_map fst snd]; rewrite Hfmt, <- app_assoc; reflexivity).
    apply (map_ok ((k, v) :: m) HF Hnl [] b rest f Hd Hs).
    cbn [flat_map fst snd]. rewrite Hfmt, <- app_assoc. cbn [app length] in *. nlia.
Qed.

Lemma top_ok : forall h acc f,
  forallb (fun kv => valid_name (fst kv) && norm (snd kv)) h = true -> keys_distinct (acc ++ h) = true ->
  (2 * length (format_headers h) + 1 <= f)%nat ->
  parse_top f (format_headers h) acc = Ok (acc ++ h).
Proof.
  induction h as [|[k v] h IH]; intros acc f Hn Hd Hf.
  - destruct f as [|f]; [nlia|]. cbn. rewrite app_nil_r. reflexivity.
  - cbn in Hn. apply andb_true_iff in Hn. destruct Hn as [Hkv Hnl]. apply andb_true_iff in Hkv. destruct Hkv as [Hk Hv].
    destruct f as [|f]; [nlia|]. unfold format_headers in *. cbn [flat_map fst snd] in *.
    destruct (format_head v (k ++ [COLON]) 0 Hv) as [x [tl Hfmt]].
    set (L := format_entry (k ++ [COLON]) v 0 ++ flat_map (fun kv => format_entry (fst kv ++ [COLON]) (snd kv) 0) h) in *.
    assert (HL : L = (k ++ COLON :: x) :: (tl ++ flat_map (fun kv => format_entry (fst kv ++ [COLON]) (snd kv) 0) h)).
    { unfold L. rewrite Hfmt. rewrite <- !app_assoc. reflexivity. }
    cbn [parse_top]. rewrite HL.
    rewrite (valid_name_index k x Hk). rewrite firstn_app_exact. rewrite Hk. cbn [negb].
    replace (length k + 1)%nat with (length (k ++ [COLON])) by (rewrite app_length; reflexivity).
    rewrite <- HL. unfold L in *.
    assert (Hs' : stops (0 + 2) (flat_map (fun kv => format_entry (fst kv ++ [COLON]) (snd kv) 0) h)).
    { destruct h as [|[k2 v2] h2]; [exact I|].
      cbn in Hnl. apply andb_true_iff in Hnl. destruct Hnl as [Hn2 _]. apply andb_true_iff in Hn2. destruct Hn2 as [Hk2 Hv2].
      destruct (format_head v2 (k2 ++ [COLON]) 0 Hv2) as [x2 [tl2 Hf2]].
      cbn [flat_map fst snd]. rewrite Hf2. cbn [app stops]. rewrite <- app_assoc. apply no_prefix_name. exact Hk2. }
    rewrite (entry_ok_all v Hv (k ++ [COLON]) 0%nat _ f Hs'); [|rewrite app_length in *; nlia].
    rewrite (has_key_distinct acc k v h Hd).
    replace (acc ++ (k, v) :: h) with ((acc ++ [(k, v)]) ++ h) by (rewrite <- app_assoc; reflexivity).
    apply (IH (acc ++ [(k, v)]) f Hnl).
    + rewrite <- app_assoc. exact Hd.
    + rewrite Hfmt in Hf. rewrite !app_length in *. cbn in Hf. nlia.
Qed.

Theorem roundtrip_lines : forall h, norm_headers h = true -> parse_header_lines (format_headers h) = Ok h.
Proof.
  intros h H. unfold norm_headers in H. apply andb_true_iff in H. destruct H as [Hn Hd].
  unfold parse_header_lines, fuel_for. apply (top_ok h [] _ Hn Hd). nlia.
Qed.

(* ------------------------------------------------------------------ lines <-> bytes *)
Lemma split_lines_nonempty : forall s, split_lines s <> [].
Proof.
  induction s as [|c r IH]; cbn; [discriminate|]. destruct (c =? NL); [discriminate|].
  destruct (split_lines r); [congruence|discriminate].
Qed.

Lemma split_no_nl : forall l, no_nl l = true -> split_lines l = [l].
Proof.
  induction l as [|c l IH]; intro H; cbn in *; [reflexivity|].
  apply andb_true_iff in H. destruct H as [H1 H2]. apply negb_true_iff in H1. rewrite H1. rewrite (IH H2). reflexivity.
Qed.

Lemma split_app_nl : forall l r, no_nl l = true -> split_lines (l ++ NL :: r) = l :: split_lines r.
Proof.
  induction l as [|c l IH]; intros r H; cbn in *.
  - reflexivity.
  - apply andb_true_iff in H. destruct H as [H1 H2]. apply negb_true_iff in H1. rewrite H1. rewrite (IH r H2). reflexivity.
Qed.

Theorem split_join : forall ls, ls <> [] -> forallb no_nl ls = true -> split_lines (join_lines ls) = ls.
Proof.
  induction ls as [|l ls IH]; intros Hne H; [congruence|].
  cbn in H. apply andb_true_iff in H. destruct H as [H1 H2].
  destruct ls as [|l2 ls2]; [cbn; apply split_no_nl; exact H1|].
  change (join_lines (l :: l2 :: ls2)) with (l ++ NL :: join_lines (l2 :: ls2)).
  rewrite (split_app_nl l _ H1). rewrite IH; [reflexivity|discriminate|exact H2].
Qed.

Theorem join_split : forall s, join_lines (split_lines s) = s.
Proof.
  induction s as [|c r IH]; [reflexivity|]. cbn [split_lines].
  destruct (c =? NL) eqn:E.
  - apply N.eqb_eq in E. subst c. pose proof (split_lines_nonempty r) as Hne.
    destruct (split_lines r) as [|l ls] eqn:Es; [congruence|].
    change (join_lines ([] :: l :: ls)) with ([] ++ NL :: join_lines (l :: ls)). rewrite IH. reflexivity.
  - pose proof (split_lines_nonempty r) as Hne. destruct (split_lines r) as [|l ls] eqn:Es; [congruence|].
    destruct ls as [|l2 ls2].
    + cbn in *. congruence.
    + change (join_lines ((c :: l) :: l2 :: ls2)) with ((c :: l) ++ NL :: join_lines (l2 :: ls2)).
      change (join_lines (l :: l2 :: ls2)) with (l ++ NL :: join_lines (l2 :: ls2)) in IH.
      cbn [app]. rewrite IH. reflexivity.
Qed.

Theorem roundtrip_bytes : forall h,
  norm_headers h = true -> h <> [] ->
  forallb no_nl (format_headers h) = true -> utf8_valid (join_lines (format_headers h)) = true ->
  parse_headers (join_lines (format_headers h)) = Ok h.
Proof.
  intros h Hn Hne Hl Hu. unfold parse_headers. rewrite Hu. rewrite split_join; [apply roundtrip_lines; exact Hn| |exact Hl].
  destruct h as [|[k v] h]; [congruence|]. unfold norm_headers in Hn. cbn in Hn.
  apply andb_true_iff in Hn. destruct Hn as [Hn _]. apply andb_true_iff in Hn. destruct Hn as [Hn _].
  apply andb_true_iff in Hn. destruct Hn as [_ Hv].
  destruct (format_head v (k ++ [COLON]) 0 Hv) as [x [tl Hf]]. unfold format_headers. cbn [flat_map fst snd].
  rewrite Hf. discriminate.
Qed.

(* ------------------------------------------------------------------ the stream decoder's limits *)
Lemma takeN_len : forall n s, lenN (takeN n s) <= n.
Proof. intros n s. unfold lenN, takeN. rewrite firstn_length. lia. Qed.

Lemma takeN_len_le : forall n s, lenN (takeN n s) <= lenN s.
Proof. intros n s. unfold lenN, takeN. rewrite firstn_length. lia. Qed.

Lemma peek_len : forall size d buf err d1, peek size d = (buf, err, d1) -> lenN buf <= size.
Proof.
  intros size d buf err d1 H. unfold peek in H. destruct (lenN (d_rem d) <? size) eqn:E.
  - inversion H; subst. lia.
  - inversion H; subst. apply takeN_len.
Qed.

Theorem read_until_bound : forall fuel size maxSize d buf d',
  read_until fuel size maxSize d = (RFound buf, d') -> lenN buf <= N.max size maxSize.
Proof.
  induction fuel as [|f IH]; intros size maxSize d buf d' H; cbn [read_until] in H; [inversion H|].
  destruct (peek size d) as [[b0 err] d1] eqn:Ep. apply peek_len in Ep.
  destruct (delim_end b0) as [e|].
  - inversion H; subst. pose proof (takeN_len_le e b0). lia.
  - destruct (err && (lenN b0 =? lenN (d_rem d1))); [inversion H|].
    destruct (maxSize <? size * 2) eqn:E; [inversion H|].
    apply IH in H. lia.
Qed.

Lemma read_exact_len : forall size d buf d', read_exact size d = (Some buf, d') -> lenN buf = size.
Proof.
  intros size d buf d' H. unfold read_exact in H. destruct (peek size d) as [[b0 err] d1].
  destruct (lenN b0 =? size) eqn:E; inversion H; subst. apply N.eqb_eq in E. exact E.
Qed.

Lemma removelast_len : forall s : bytes, lenN (removelast s) <= lenN s.
Proof.
  intro s. unfold lenN. destruct s as [|c s]; [cbn; lia|].
  assert (c :: s <> []) by discriminate. rewrite (app_removelast_last 0 H) at 2. rewrite app_length. cbn. lia.
Qed.

Definition ru_buf (r : rures) : bytes := match r with RFound b => b | REof b => b | _ => [] end.

Lemma read_until_any_bound : forall fuel size maxSize d r d',
  read_until fuel size maxSize d = (r, d') -> lenN (ru_buf r) <= N.max size maxSize.
Proof.
  induction fuel as [|f IH]; intros size maxSize d r d' H; cbn [read_until] in H; [inversion H; cbn; lia|].
  destruct (peek size d) as [[b0 err] d1] eqn:Ep. apply peek_len in Ep.
  destruct (delim_end b0) as [e|].
  - inversion H; subst. cbn. pose proof (takeN_len_le e b0). lia.
  - destruct (err && (lenN b0 =? lenN (d_rem d1))); [inversion H; subst; cbn; lia|].
    destruct (maxSize <? size * 2) eqn:E; [inversion H; cbn; lia|].
    apply IH in H. lia.
Qed.

(* ------------------------------------------------------------------ the overlap of readUntil loses no delimiter *)
Lemma cut_first_cons_none : forall c X, cut_first_nlnl (c :: X) = None ->
  has_prefix NLNL (c :: X) = false /\ cut_first_nlnl X = None.
Proof.
  intros c X H. cbn [cut_first_nlnl] in H. destruct (has_prefix NLNL (c :: X)); [discriminate|].
  split; [reflexivity|]. destruct (cut_first_nlnl X) as [[a b]|]; [discriminate|reflexivity].
Qed.

Lemma has_prefix_nlnl_firstn : forall c r k, has_prefix NLNL (c :: firstn (S k) r) = has_prefix NLNL (c :: r).
Proof. intros c r k. destruct r as [|x r]; reflexivity. Qed.

Lemma delim_end_cons : forall c r, has_prefix NLNL (c :: r) = false ->
  delim_end (c :: r) = match delim_end r with Some e => Some (1 + e) | None => None end.
Proof.
  intros c r H. unfold delim_end. cbn [cut_first_nlnl]. rewrite H.
  destruct (cut_first_nlnl r) as [[a b]|]; [|reflexivity]. unfold lenN. cbn [length]. f_equal. lia.
Qed.

Lemma overlap_nat : forall k s, cut_first_nlnl (firstn (S k) s) = None ->
  delim_end s = match delim_end (skipn (Nat.min k (length s)) s) with
                | Some e => Some (N.of_nat (Nat.min k (length s)) + e)
                | None => None
                end.
Proof.
  induction k as [|k IH]; intros s H.
  - cbn. destruct (delim_end s); reflexivity.
  - destruct s as [|c r]; [reflexivity|].
    change (firstn (S (S k)) (c :: r)) with (c :: firstn (S k) r) in H.
    apply cut_first_cons_none in H. destruct H as [Hp Hc]. rewrite has_prefix_nlnl_firstn in Hp.
    rewrite (delim_end_cons c r Hp). rewrite (IH r Hc). cbn [length]. rewrite <- Nat.succ_min_distr. cbn [skipn].
    destruct (delim_end (skipn (Nat.min k (length r)) r)); [f_equal; lia|reflexivity].
Qed.

Lemma delim_end_none : forall s, delim_end s = None <-> cut_first_nlnl s = None.
Proof. intro s. unfold delim_end. destruct (cut_first_nlnl s) as [[a b]|]; split; intro H; congruence. Qed.

Lemma firstn_min_length : forall (A : Type) n (s : list A), firstn (Nat.min n (length s)) s = firstn n s.
Proof.
  intros A n s. destruct (Nat.le_ge_cases n (length s)) as [L|L].
  - rewrite Nat.min_l by exact L. reflexivity.
  - rewrite Nat.min_r by exact L. rewrite firstn_all. symmetry. apply firstn_all2. exact L.
Qed.

Lemma takeN_firstn : forall n s, takeN n s = firstn (N.to_nat n) s.
Proof.
  intros n s. unfold takeN, lenN. rewrite <- (firstn_min_length _ (N.to_nat n) s). f_equal. lia.
Qed.

Lemma overlap_N : forall last s, delim_end (takeN (last + 1) s) = None -> delim_end_from last s = delim_end s.
Proof.
  intros last s H. apply delim_end_none in H. rewrite takeN_firstn in H.
  replace (N.to_nat (last + 1)) with (S (N.to_nat last)) in H by lia.
  rewrite (overlap_nat _ _ H). unfold delim_end_from, dropN, lenN.
  replace (N.to_nat (N.min last (N.of_nat (length s)))) with (Nat.min (N.to_nat last) (length s)) by lia.
  destruct (delim_end (skipn (Nat.min (N.to_nat last) (length s)) s)); [f_equal; lia|reflexivity].
Qed.

Lemma takeN_takeN : forall a b s, a <= b -> takeN a (takeN b s) = takeN a s.
Proof.
  intros a b s H. rewrite !takeN_firstn. rewrite firstn_firstn. f_equal. lia.
Qed.

Theorem read_until_overlap_gen : forall fuel last size maxSize d,
  1 <= size -> last + 1 <= size -> delim_end (takeN (last + 1) (d_rem d)) = None ->
  read_until_go fuel last size maxSize d = read_until fuel size maxSize d.
Proof.
  induction fuel as [|f IH]; intros last size maxSize d Hs Hl Hpre; [reflexivity|].
  cbn [read_until_go read_until]. unfold peek. destruct (lenN (d_rem d) <? size) eqn:Eshort.
  - rewrite (overlap_N last (d_rem d) Hpre). cbn [d_rem d_eof]. rewrite N.eqb_refl. cbn [andb].
    destruct (delim_end (d_rem d)); reflexivity.
  - assert (Hb : delim_end (takeN (last + 1) (takeN size (d_rem d))) = None)
      by (rewrite takeN_takeN by exact Hl; exact Hpre).
    rewrite (overlap_N last _ Hb).
    destruct (delim_end (takeN size (d_rem d))) as [e|] eqn:Ed; [reflexivity|].
    destruct (d_eof d && (lenN (takeN size (d_rem d)) =? lenN (d_rem d))); [reflexivity|].
    destruct (maxSize <? size * 2); [reflexivity|].
    apply IH; [lia|lia|]. replace (size - 1 + 1) with size by lia. exact Ed.
Qed.

Lemma delim_end_short : forall s, lenN s <= 1 -> delim_end s = None.
Proof.
  intros [|c [|c2 r]] H; try reflexivity.
  - unfold delim_end. cbn [cut_first_nlnl has_prefix NLNL]. rewrite andb_false_r. reflexivity.
  - unfold lenN in H. cbn [length] in H. lia.
Qed.

(* the Go loop (search restricted to the new part plus the overlap) finds exactly what a search of the whole buffer finds *)
Theorem read_until_overlap : forall fuel size maxSize d,
  1 <= size -> read_until_go fuel 0 size maxSize d = read_until fuel size maxSize d.
Proof.
  intros fuel size maxSize d Hs. apply read_until_overlap_gen; [exact Hs|lia|].
  apply delim_end_short. pose proof (takeN_len (0 + 1) (d_rem d)). lia.
Qed.

(* ------------------------------------------------------------------ whole assertions: splitting at the blank lines *)
Lemma no_nl_cut_first : forall l, no_nl l = true -> cut_first_nlnl l = None.
Proof.
  induction l as [|c l IH]; intro H; [reflexivity|]. cbn in H. apply andb_true_iff in H. destruct H as [H1 H2].
  apply negb_true_iff in H1. cbn [cut_first_nlnl has_prefix NLNL]. rewrite N.eqb_sym, H1. cbn [andb].
  rewrite (IH H2). reflexivity.
Qed.

Lemma cut_first_app_sep : forall s t, cut_first_nlnl s = None -> last s 0 <> NL ->
  cut_first_nlnl (s ++ NLNL ++ t) = Some (s, t).
Proof.
  induction s as [|c r IH]; intros t H Hl; [reflexivity|].
  apply cut_first_cons_none in H. destruct H as [Hp Hc].
  assert (Hp' : has_prefix NLNL (c :: r ++ NLNL ++ t) = false).
  { destruct r as [|x r']; [|exact Hp]. cbn in Hl. cbn [app has_prefix NLNL].
    destruct (NL =? c) eqn:E; [apply N.eqb_eq in E; congruence|reflexivity]. }
  change ((c :: r) ++ NLNL ++ t) with (c :: (r ++ NLNL ++ t)). cbn [cut_first_nlnl]. rewrite Hp'.
  rewrite IH; [reflexivity|exact Hc|]. destruct r as [|x r']; [cbn; unfold NL; lia|exact Hl].
Qed.

Lemma cut_last_none : forall t, cut_first_nlnl t = None -> cut_last_nlnl t = None.
Proof.
  induction t as [|c r IH]; intro H; [reflexivity|]. apply cut_first_cons_none in H. destruct H as [Hp Hc].
  cbn [cut_last_nlnl]. rewrite (IH Hc), Hp. reflexivity.
Qed.

Lemma cut_last_app_sep : forall s t, cut_first_nlnl t = None -> has_prefix [NL] t = false ->
  cut_last_nlnl (s ++ NLNL ++ t) = Some (s, t).
Proof.
  induction s as [|c r IH]; intros t H Hh.
  - cbn [app NLNL]. cbn [cut_last_nlnl]. rewrite (cut_last_none t H).
    assert (Hx : has_prefix NLNL (NL :: t) = false).
    { destruct t as [|x t']; [reflexivity|]. cbn [has_prefix NLNL] in *. rewrite N.eqb_refl. cbn [andb]. exact Hh. }
    rewrite Hx. cbn [has_prefix NLNL]. rewrite !N.eqb_refl. reflexivity.
  - change ((c :: r) ++ NLNL ++ t) with (c :: (r ++ NLNL ++ t)). cbn [cut_last_nlnl]. rewrite (IH t H Hh). reflexivity.
Qed.

Definition line_ok (l : line) : Prop := l <> [] /\ no_nl l = true.

Lemma line_ok_ends : forall l, line_ok l -> has_prefix [NL] l = false /\ last l 0 <> NL.
Proof.
  intros l [Hne Hn]. split.
  - destruct l as [|c r]; [congruence|]. cbn in Hn. apply andb_true_iff in Hn. destruct Hn as [H1 _].
    apply negb_true_iff in H1. cbn [has_prefix]. rewrite N.eqb_sym, H1. reflexivity.
  - clear Hne. induction l as [|c r IH]; [cbn; unfold NL; lia|]. cbn in Hn. apply andb_true_iff in Hn. destruct Hn as [H1 H2].
    destruct r as [|x r']; [cbn; apply negb_true_iff in H1; apply N.eqb_neq in H1; exact H1|]. apply IH. exact H2.
Qed.

Lemma cut_first_line_then : forall l J, no_nl l = true -> cut_first_nlnl J = None -> has_prefix [NL] J = false ->
  cut_first_nlnl (l ++ NL :: J) = None.
Proof.
  induction l as [|c l IH]; intros J Hn HJ Hh.
  - cbn [app cut_first_nlnl]. rewrite HJ.
    assert (Hx : has_prefix NLNL (NL :: J) = false).
    { destruct J as [|x J']; [reflexivity|]. cbn [has_prefix NLNL] in *. rewrite N.eqb_refl. cbn [andb]. exact Hh. }
    rewrite Hx. reflexivity.
  - cbn in Hn. apply andb_true_iff in Hn. destruct Hn as [H1 H2]. apply negb_true_iff in H1.
    cbn [app cut_first_nlnl has_prefix NLNL]. rewrite N.eqb_sym, H1. cbn [andb]. rewrite (IH J H2 HJ Hh). reflexivity.
Qed.

Lemma last_app_cons : forall (l : bytes) x J, last (l ++ x :: J) 0 = last (x :: J) 0.
Proof. induction l as [|c l IH]; intros x J; [reflexivity|]. cbn [app]. rewrite <- (IH x J). destruct (l ++ x :: J) eqn:E; [destruct l; discriminate|reflexivity]. Qed.

Lemma join_lines_ok : forall ls, ls <> [] -> Forall line_ok ls ->
  cut_first_nlnl (join_lines ls) = None /\ has_prefix [NL] (join_lines ls) = false /\ last (join_lines ls) 0 <> NL.
Proof.
  induction ls as [|l ls IH]; intros Hne HF; [congruence|]. inversion HF as [|? ? Hl HF']; subst.
  destruct (line_ok_ends l Hl) as [Hh Hlast]. destruct Hl as [Hlne Hn].
  destruct ls as [|l2 ls2].
  - cbn [join_lines]. split; [apply no_nl_cut_first; exact Hn|]. split; assumption.
  - change (join_lines (l :: l2 :: ls2)) with (l ++ NL :: join_lines (l2 :: ls2)).
    destruct (IH ltac:(discriminate) HF') as [HJ [HJh HJl]]. split; [apply cut_first_line_then; assumption|]. split.
    + destruct l as [|c r]; [exfalso; apply Hlne; reflexivity|]. exact Hh.
    + rewrite last_app_cons. destruct (join_lines (l2 :: ls2)) as [|y J] eqn:E.
      * exfalso. inversion HF' as [|? ? [Hx _] _]; subst. destruct l2 as [|c2 l2']; [apply Hx; reflexivity|].
        cbn [join_lines] in E. destruct ls2; discriminate.
      * exact HJl.
Qed.

(* every line written by appendEntry is non-empty *)
Lemma Forall_flat_map : forall (A B : Type) (P : B -> Prop) (f : A -> list B) l,
  (forall x, In x l -> Forall P (f x)) -> Forall P (flat_map f l).
Proof.
  intros A B P f. induction l as [|x l IH]; intro H; cbn; [constructor|].
  apply Forall_app. split; [apply H; left; reflexivity|apply IH; intros y Hy; apply H; right; exact Hy].
Qed.

Lemma spaces_succ_app_ne : forall n (l : bytes), spaces (S n) ++ l <> [].
Proof. intros n l. cbn. discriminate. Qed.

Lemma format_lines_nonempty : forall v intro b, intro <> [] -> Forall (fun l : line => l <> []) (format_entry intro v b).
Proof.
  intro v. induction v as [ls|l IH|m IH] using hv_ind2; intros intro b Hi.
  - assert (Hx : forall x : bytes, intro ++ x <> []) by (intros x E; apply app_eq_nil in E; tauto).
    destruct ls as [|l1 [|l2 ls]]; cbn [format_entry].
    + constructor; [apply Hx|constructor].
    + constructor; [apply Hx|constructor].
    + constructor; [exact Hi|]. apply Forall_forall. intros x Hin. apply in_map_iff in Hin. destruct Hin as [y [<- _]].
      replace (b + 4)%nat with (S (b + 3)) by lia. apply spaces_succ_app_ne.
  - destruct l as [|e l]; cbn [format_entry]; [constructor|]. constructor; [exact Hi|].
    apply Forall_flat_map. intros x Hin. rewrite Forall_forall in IH. apply (IH x Hin).
    unfold list_intro. intro E. apply app_eq_nil in E. destruct E; discriminate.
  - destruct m as [|kv m]; cbn [format_entry]; [constructor|]. constructor; [exact Hi|].
    apply Forall_flat_map. intros x Hin. rewrite Forall_forall in IH. apply (IH x Hin).
    unfold map_intro. replace (b + 2)%nat with (S (b + 1)) by lia. intro E. cbn in E. discriminate.
Qed.

Lemma format_headers_lines_ok : forall h,
  forallb (fun kv => valid_name (fst kv) && norm (snd kv)) h = true ->
  forallb no_nl (format_headers h) = true -> Forall line_ok (format_headers h).
Proof.
  intros h Hn Hl. rewrite forallb_forall in Hl.
  assert (Hne : Forall (fun l : line => l <> []) (format_headers h)).
  { unfold format_headers. apply Forall_flat_map. intros [k v] Hin. apply format_lines_nonempty.
    intro E. apply app_eq_nil in E. destruct E; discriminate. }
  rewrite Forall_forall in *. intros l Hin. split; [apply Hne; exact Hin|apply Hl; exact Hin].
Qed.

(* Decode (Encode a) for an assertion with normalised headers h, body and signature: the splitting at the blank lines
   and the header parser give back exactly h, the body and the signature.  Constraints of the format, all stated:
   header strings contain no newline inside a line (they are lists of lines), the header text is valid UTF-8, the
   signature contains no blank line and does not start with a newline (it is base64 text).  The body is arbitrary. *)
Theorem assertion_roundtrip : forall h body sig,
  norm_headers h = true -> h <> [] ->
  forallb no_nl (format_headers h) = true -> utf8_valid (join_lines (format_headers h)) = true ->
  cut_first_nlnl sig = None -> has_prefix [NL] sig = false ->
  decode_parts (encode_assertion h body sig) = Ok (mkParts h body sig (content_of (join_lines (format_headers h)) body)).
Proof.
  intros h body sig Hn Hne Hl Hu Hs1 Hs2.
  pose proof (roundtrip_bytes h Hn Hne Hl Hu) as Hrt.
  assert (Hok : Forall line_ok (format_headers h)).
  { apply format_headers_lines_ok; [|exact Hl]. unfold norm_headers in Hn. apply andb_true_iff in Hn. tauto. }
  assert (Hfne : format_headers h <> []).
  { destruct h as [|[k v] h']; [congruence|]. unfold norm_headers in Hn. cbn in Hn.
    apply andb_true_iff in Hn. destruct Hn as [Hn _]. apply andb_true_iff in Hn. destruct Hn as [Hn _].
    apply andb_true_iff in Hn. destruct Hn as [_ Hv].
    destruct (format_head v (k ++ [COLON]) 0 Hv) as [x [tl Hf]]. unfold format_headers. cbn [flat_map fst snd].
    rewrite Hf. discriminate. }
  destruct (join_lines_ok _ Hfne Hok) as [Hc [_ Hlast]].
  unfold decode_parts, encode_assertion, encode. rewrite (cut_last_app_sep _ sig Hs1 Hs2).
  unfold content_of. destruct body as [|b0 body'].
  - cbn [is_nil_b]. rewrite Hc. rewrite Hrt. reflexivity.
  - cbn [is_nil_b]. rewrite (cut_first_app_sep _ (b0 :: body') Hc Hlast). rewrite Hrt. reflexivity.
Qed.

Theorem reencode_identity : forall h body sig,
  norm_headers h = true -> h <> [] ->
  forallb no_nl (format_headers h) = true -> utf8_valid (join_lines (format_headers h)) = true ->
  cut_first_nlnl sig = None -> has_prefix [NL] sig = false ->
  exists p, decode_parts (encode_assertion h body sig) = Ok p /\ encode (p_content p) (p_sig p) = encode_assertion h body sig.
Proof.
  intros h body sig Hn Hne Hl Hu Hs1 Hs2. eexists. split; [apply assertion_roundtrip; assumption|]. reflexivity.
Qed.

(* ------------------------------------------------------------------ bufio.Peek over any chunking of the reader *)
Lemma peek_fill_spec : forall n chunks buf b chunks' hit,
  peek_fill n buf chunks = (b, chunks', hit) ->
  b ++ concat chunks' = buf ++ concat chunks /\
  (hit = false -> (n <= length b)%nat) /\ (hit = true -> chunks' = [] /\ (length b < n)%nat).
Proof.
  intros n. induction chunks as [|c r IH]; intros buf b chunks' hit H; cbn [peek_fill] in H.
  - inversion H; subst. split; [reflexivity|]. split; intro E.
    + apply Nat.ltb_ge in E. exact E.
    + apply Nat.ltb_lt in E. split; [reflexivity|exact E].
  - destruct (Nat.leb n (length buf)) eqn:L.
    + inversion H; subst. split; [reflexivity|]. split; [intros _; apply Nat.leb_le; exact L|discriminate].
    + apply IH in H. destruct H as [H1 H2]. split; [|exact H2]. rewrite H1. cbn [concat]. rewrite app_assoc. reflexivity.
Qed.

(* what Peek(n) returns depends only on the bytes still to come, not on how the reader hands them out: it is the first
   n of them, or all of them together with EOF if there are fewer - which is the [peek] of the stream decoder model *)
Theorem chunk_peek_flat : forall n buf chunks,
  chunk_peek n buf chunks =
  let flat := buf ++ concat chunks in
  if Nat.ltb (length flat) n then (flat, true) else (firstn n flat, false).
Proof.
  intros n buf chunks. unfold chunk_peek. destruct (peek_fill n buf chunks) as [[b chunks'] hit] eqn:E.
  apply peek_fill_spec in E. destruct E as [Hf [H0 H1]]. cbn zeta. rewrite <- Hf. destruct hit.
  - destruct (H1 eq_refl) as [-> Hlt]. cbn [concat]. rewrite app_nil_r.
    replace (Nat.ltb (length b) n) with true by (symmetry; apply Nat.ltb_lt; exact Hlt).
    rewrite firstn_all2 by lia. reflexivity.
  - specialize (H0 eq_refl).
    replace (Nat.ltb (length (b ++ concat chunks')) n) with false
      by (symmetry; apply Nat.ltb_ge; rewrite app_length; lia).
    rewrite firstn_app. replace (n - length b)%nat with 0%nat by lia. cbn [firstn]. rewrite app_nil_r. reflexivity.
Qed.

Theorem chunk_peek_independent : forall n buf1 chunks1 buf2 chunks2,
  buf1 ++ concat chunks1 = buf2 ++ concat chunks2 -> chunk_peek n buf1 chunks1 = chunk_peek n buf2 chunks2.
Proof. intros. rewrite !chunk_peek_flat. cbn zeta. rewrite H. reflexivity. Qed.

(* every assertion handed on by one Decode call respects the body and signature limits *)
Opaque ru_fuel read_until read_exact parse_headers body_length.

Ltac fin_limits H :=
  inversion H; subst; cbn [p_body p_sig]; split;
  [ try (cbn; lia); lia
  | match goal with
    | |- lenN (if has_suffix_nlnl ?b then removelast ?b else ?b) <= _ =>
        destruct (has_suffix_nlnl b); [eapply N.le_trans; [apply removelast_len|]|]; cbn [ru_buf] in *; lia
    end ].

Theorem stream_limits : forall lim d p d',
  stream_decode lim d = (SOk p, d') ->
  lenN (p_body p) <= l_body lim /\ lenN (p_sig p) <= N.max (l_buf lim) (l_sig lim).
Proof.
  intros lim d p d' H. unfold stream_decode in H.
  destruct (read_until ru_fuel (l_buf lim) (l_headers lim) d) as [r0 d1]. destruct r0; try (inversion H; fail).
  2:{ destruct (is_nil_b buf); inversion H. }
  destruct (parse_headers (firstn (length buf - 2) buf)) as [h| | |]; try (inversion H; fail).
  destruct (body_length h) as [len|]; [|inversion H].
  destruct (len <? 0)%Z eqn:Eneg; [inversion H|].
  destruct (Z.of_N (l_body lim) <? len)%Z eqn:Elim; [inversion H|].
  destruct (Z.of_N (lenN buf) + len <? 0)%Z; [inversion H|].
  destruct (0 <? len)%Z eqn:Epos.
  - destruct (read_exact (Z.to_N len) d1) as [[body|] d2] eqn:Er; [|inversion H].
    apply read_exact_len in Er.
    destruct (read_until ru_fuel (l_buf lim) (l_sig lim) d2) as [r1 d3] eqn:E1.
    pose proof (read_until_any_bound _ _ _ _ _ _ E1) as B1.
    destruct r1; try (inversion H; fail); cbn [ru_buf] in B1; destruct (beq buf0 NLNL); try (inversion H; fail);
      destruct (read_until ru_fuel (l_buf lim) (l_sig lim) d3) as [r2 d4] eqn:E2;
      pose proof (read_until_any_bound _ _ _ _ _ _ E2) as B2;
      destruct r2; try (inversion H; fail); fin_limits H.
  - destruct (read_until ru_fuel (l_buf lim) (l_sig lim) d1) as [r1 d3] eqn:E1.
    pose proof (read_until_any_bound _ _ _ _ _ _ E1) as B1.
    destruct r1; try (inversion H; fail); cbn [ru_buf] in B1; (destruct (beq buf0 NLNL); [|fin_limits H]);
      destruct (read_until ru_fuel (l_buf lim) (l_sig lim) d3) as [r2 d4] eqn:E2;
      pose proof (read_until_any_bound _ _ _ _ _ _ E2) as B2;
      destruct r2; try (inversion H; fail); fin_limits H.
Qed.

(* one Decode call of the stream decoder model never panics, whatever the stream and the limits: the capacity
   len(headAndSep)+length handed to make() is never negative once a negative body-length is rejected *)
Theorem stream_never_panics : forall lim d, fst (stream_decode lim d) <> SPanic.
Proof.
  intros lim d. destruct (stream_decode lim d) as [r d'] eqn:H. cbn [fst]. intro Hr. subst r.
  unfold stream_decode in H.
  destruct (read_until ru_fuel (l_buf lim) (l_headers lim) d) as [r0 d1]. destruct r0; try (inversion H; fail).
  2:{ destruct (is_nil_b buf); inversion H. }
  destruct (parse_headers_total (firstn (length buf - 2) buf)) as [E|[h E]]; rewrite E in H; [inversion H|].
  destruct (body_length h) as [len|] eqn:Eb; [|inversion H].
  destruct (len <? 0)%Z eqn:Eneg; [inversion H|].
  destruct (Z.of_N (l_body lim) <? len)%Z eqn:Elim; [inversion H|].
  destruct (Z.of_N (lenN buf) + len <? 0)%Z eqn:En; [lia|].
  destruct (0 <? len)%Z eqn:Epos.
  - destruct (read_exact (Z.to_N len) d1) as [[body|] d2] eqn:Er; [|inversion H].
    destruct (read_until ru_fuel (l_buf lim) (l_sig lim) d2) as [r1 d3] eqn:E1.
    destruct r1; try (inversion H; fail); destruct (beq buf0 NLNL); try (inversion H; fail);
      destruct (read_until ru_fuel (l_buf lim) (l_sig lim) d3) as [r2 d4] eqn:E2;
      destruct r2; inversion H.
  - destruct (read_until ru_fuel (l_buf lim) (l_sig lim) d1) as [r1 d3] eqn:E1.
    destruct r1; try (inversion H; fail); (destruct (beq buf0 NLNL); [|inversion H]);
      destruct (read_until ru_fuel (l_buf lim) (l_sig lim) d3) as [r2 d4] eqn:E2;
      destruct r2; inversion H.
Qed.

(* ... and so does no call of a whole decoding loop *)
Theorem stream_all_never_panics : forall accepted lim d, ~ In SPanic (stream_all lim d accepted).
Proof.
  induction accepted as [|a acc IH]; intros lim d Hin; cbn [stream_all] in Hin; [contradiction|].
  pose proof (stream_never_panics lim d) as Hnp.
  destruct (stream_decode lim d) as [r d1]. cbn [fst] in Hnp.
  destruct r; try (destruct Hin as [Hin|[]]; congruence).
  destruct a.
  - destruct Hin as [Hin|Hin]; [discriminate|]. exact (IH lim d1 Hin).
  - destruct Hin as [Hin|[]]; discriminate.
Qed.
